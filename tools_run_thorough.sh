#!/bin/bash
# run every registered thorough check once at $VERIF_SEED (default 1), one after the other, one line per check;
# optional arguments: the property ids to run (default: all)
cd "$(dirname "$0")"
sel="$*"
for f in $(python3 -c "import json; print(' '.join(c['thorough_cmd'].split()[1] for c in json.load(open('MANIFEST.json'))['checks']))"); do
  id=$(basename $f .py | tr a-z A-Z)
  if [ -n "$sel" ] && ! echo " $sel " | grep -q " $id "; then continue; fi
  t0=$(date +%s)
  out=$(VERIF_EVIDENCE_DIR=${VERIF_EVIDENCE_DIR:-/tmp/thorough_evidence} /venv/bin/python $f --tier thorough 2>&1)
  rc=$?
  echo "$f rc=$rc $(( $(date +%s) - t0 ))s :: $(echo "$out" | grep -E '^C[0-9]+ tier' | tail -1 | cut -c1-150)"
  echo "$out" | grep -E "^VIOLATION|^HARNESS|^  bucket=" | head -8 | cut -c1-400
done
