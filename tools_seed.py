"""Confirm a seeded change and run checks against it.

usage: tools_seed.py <seed_dir> <seed_id> <property> [check ...] [--tier quick] [--shards N]
  1. demo.py on the clean /repo must exit 0
  2. git -C /repo apply patch.diff ; demo.py must exit != 0
  3. run the given checks (default: the property's own) and record rc / VIOLATION lines
  4. git -C /repo checkout -- .   (always)
Copies patch.diff, demo files and notes into /verif/seeded/<seed_id>/ and writes meta.json."""
import json
import os
import shutil
import subprocess
import sys
import time

VERIF = os.path.dirname(os.path.abspath(__file__))
REPO = "/repo"


def run_demo(seed_dir):
    env = dict(os.environ, GUPPY_SRC=REPO, PYTHONPATH="/tmp/gtools/site")
    r = subprocess.run(["/venv/bin/python", "demo.py"], cwd=seed_dir, env=env, capture_output=True, text=True, timeout=900)
    return r.returncode, (r.stdout + r.stderr)[-1500:]


def main():
    args = sys.argv[1:]
    tier, shards = "quick", None
    if "--tier" in args:
        i = args.index("--tier"); tier = args[i + 1]; del args[i:i + 2]
    if "--shards" in args:
        i = args.index("--shards"); shards = args[i + 1]; del args[i:i + 2]
    wt = "--wt" in args
    if wt:
        args.remove("--wt")
    seed_dir, seed_id, prop = os.path.abspath(args[0]), args[1], args[2]
    global REPO
    if wt:
        # same protocol in a throw-away worktree of /repo's HEAD (lets several seeds be examined at
        # once and never disturbs checks running against /repo); removed afterwards
        REPO = f"/tmp/wtseed_{seed_id}"
        subprocess.run(["git", "-C", "/repo", "worktree", "remove", "--force", REPO], capture_output=True)
        subprocess.check_call(["git", "-C", "/repo", "worktree", "add", "--detach", REPO, "HEAD"], stdout=subprocess.DEVNULL, stderr=subprocess.DEVNULL)
    checks = args[3:] or [prop]
    assert subprocess.run(["git", "-C", REPO, "status", "--porcelain"], capture_output=True, text=True).stdout.strip() == "", "repo dirty"
    meta = {"seed_id": seed_id, "property": prop, "in_worktree": wt, "repo_head": subprocess.check_output(["git", "-C", REPO, "log", "--format=%h", "-1"], text=True).strip(),
            "ran": []}
    rc0, out0 = run_demo(seed_dir)
    meta["demo_clean_rc"] = rc0
    try:
        subprocess.check_call(["git", "-C", REPO, "apply", os.path.join(seed_dir, "patch.diff")])
        rc1, out1 = run_demo(seed_dir)
        meta["demo_patched_rc"] = rc1
        meta["demo_patched_tail"] = out1[-600:]
        for c in checks:
            cmd = ["/venv/bin/python", f"checks/{c.lower()}.py", "--tier", tier] + (["--shards", shards] if shards else [])
            t = time.time()
            r = subprocess.run(cmd, cwd=VERIF, capture_output=True, text=True,
                               env=dict(os.environ, VERIF_REPO=REPO, VERIF_EVIDENCE_DIR=f"/tmp/seed_evidence/{seed_id}"))
            lines = [l for l in r.stdout.splitlines() if l.startswith("VIOLATION") or l.strip().startswith("bucket=")]
            meta["ran"].append({"check": c, "cmd": " ".join(cmd), "rc": r.returncode, "wall_s": round(time.time() - t, 1),
                                "violations": [l[:300] for l in lines][:12], "summary": r.stdout.strip().splitlines()[-1:] })
            print(c, "rc", r.returncode, *[l[:160] for l in lines[:6]], sep="\n  ")
    finally:
        subprocess.check_call(["git", "-C", REPO, "checkout", "--", "."])
        if wt:
            subprocess.run(["git", "-C", "/repo", "worktree", "remove", "--force", REPO], capture_output=True)
        shutil.rmtree(f"/tmp/seed_evidence/{seed_id}", ignore_errors=True)
    meta["confirmed"] = (rc0 == 0 and meta.get("demo_patched_rc", 0) != 0)
    meta["caught_by"] = [x["check"] for x in meta["ran"] if x["rc"] == 1]
    dst = os.path.join(VERIF, "seeded", seed_id)
    os.makedirs(dst, exist_ok=True)
    for f in os.listdir(seed_dir):
        if f.endswith((".diff", ".py", ".md")) and os.path.isfile(os.path.join(seed_dir, f)) and os.path.abspath(dst) != seed_dir:
            shutil.copy(os.path.join(seed_dir, f), os.path.join(dst, f))
    old = {}
    mp = os.path.join(dst, "meta.json")
    if os.path.exists(mp):
        old = json.load(open(mp))
        meta["history"] = old.get("history", []) + [{"ran": old.get("ran"), "caught_by": old.get("caught_by"), "repo_head": old.get("repo_head")}]
        for k in ("needs", "what"):
            if k in old:
                meta[k] = old[k]
    json.dump(meta, open(mp, "w"), indent=1)
    print("confirmed" if meta["confirmed"] else "NOT CONFIRMED", "caught_by", meta["caught_by"])


if __name__ == "__main__":
    main()
