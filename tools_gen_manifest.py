"""Regenerates MANIFEST.json from checks/registry.py (single source of truth)."""
import json, os, sys
sys.path.insert(0, os.path.dirname(os.path.abspath(__file__)))
from checks.registry import REGISTRY, NOT_APPLICABLE, SETUP_CMD, HOOKS, NOTES

props = [json.loads(l)["id"] for l in open(os.path.join(os.path.dirname(os.path.abspath(__file__)), "properties.jsonl"))]
checks = []
for pid in props:
    if pid not in REGISTRY:
        continue
    r = REGISTRY[pid]
    f = f"checks/{pid.lower()}.py"
    checks.append({
        "property_id": pid,
        "quick_cmd": f"/venv/bin/python {f} --tier quick",
        "thorough_cmd": f"/venv/bin/python {f} --tier thorough",
        "evidence_file": f"/verif/evidence/{pid}.json",
        "replay_cmd_template": f"/venv/bin/python {f} --replay {{path}}",
        "engine": "hypothesis-pbt",
        "level_claimed": {"category": "exploration", "text": r["level_text"], "design_ref": r.get("design_ref", f"DESIGN.md section 4, {pid}")},
        "level_note": r["level_note"],
        "technique": r["technique"],
    })
na = [{"property_id": p, "reason": NOT_APPLICABLE.get(p, "check not built yet in this revision of /verif (planned, see DESIGN.md section 4); not claimed until its check exists")} for p in props if p not in REGISTRY]
m = {
    "version": 1,
    "setup_cmd": SETUP_CMD,
    "hooks": HOOKS,
    "engines": [{"name": "hypothesis-pbt", "path": "vlib/harness.py", "serves_properties": [c["property_id"] for c in checks],
                 "kind_free_text": "Hypothesis 6.168 generators / state machines driven in 16 shard processes against explicit oracles (reference models, differential, metamorphic); collect-then-shrink; replay files"}],
    "checks": checks,
    "notes": NOTES,
    "not_applicable": na,
}
json.dump(m, open(os.path.join(os.path.dirname(os.path.abspath(__file__)), "MANIFEST.json"), "w"), indent=1)
print(len(checks), "checks;", len(na), "not claimed")
