"""MANIFEST.setup_cmd: offline setup + self-test of the bridge (DESIGN.md section 5)."""
import os, subprocess, sys, time
HERE = os.path.dirname(os.path.abspath(__file__))
sys.path.insert(0, HERE)

def main():
    t0 = time.time()
    try:
        import hypothesis  # noqa: F401
    except ImportError:
        subprocess.check_call([sys.executable, "-m", "pip", "install", "--no-index", "--find-links",
                               "/opt/veriftools/wheels", "hypothesis"])
    deps = os.path.join(HERE, ".deps")
    if not os.path.isdir(os.path.join(deps, "atheris")):
        # coverage-guided fuzzing for C02 (cp312 wheel from the offline wheelhouse)
        subprocess.call([sys.executable, "-m", "pip", "install", "-q", "--no-index", "--find-links",
                         "/opt/veriftools/wheels", "--target", deps, "atheris"])
    import compat
    compat.install()
    from compat import selftest
    selftest.run()
    print(f"setup ok in {time.time()-t0:.1f}s")

if __name__ == "__main__":
    main()
