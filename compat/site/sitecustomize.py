"""Activated by PYTHONPATH=/verif/compat/site with VERIF_COMPAT=1: installs the bridge
before anything imports guppylang (used to run /repo's own tests on /repo's sources)."""
import os
import sys

if os.environ.get("VERIF_COMPAT") == "1":
    sys.path.insert(0, os.path.dirname(os.path.dirname(os.path.dirname(os.path.abspath(__file__)))))
    import compat

    compat.install()
