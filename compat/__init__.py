"""Third-party bridge between /repo's guppylang 0.21.6 sources and the packages
installed in /venv (hugr 0.18, tket-exts 0.14, selene 0.4, tket 0.15).

Nothing in here touches /repo: every adaptation is on the third-party side.
`install()` must be called before `guppylang` is imported.

See DESIGN.md section 1.2.
"""
from __future__ import annotations

import os
import sys

_INSTALLED = False
REPO = None


class CompatError(RuntimeError):
    """Harness problem (exit code 2), never a property violation."""


def repo_root() -> str:
    return os.environ.get("VERIF_REPO", "/repo")


def install() -> str:
    """Put the repo sources first on sys.path, patch third-party packages, import
    guppylang from the repo and verify that it really came from there."""
    global _INSTALLED, REPO
    if _INSTALLED:
        return REPO
    repo = os.path.realpath(repo_root())
    paths = [
        os.path.join(repo, "guppylang", "src"),
        os.path.join(repo, "guppylang-internals", "src"),
    ]
    for p in paths:
        if not os.path.isdir(p):
            raise CompatError(f"repo source dir missing: {p}")
    for p in reversed(paths):
        if p in sys.path:
            sys.path.remove(p)
        sys.path.insert(0, p)
    for m in list(sys.modules):
        if m == "guppylang" or m.startswith(("guppylang.", "guppylang_internals")):
            raise CompatError("guppylang imported before compat.install()")

    _patch_tket_exts()
    _patch_hugr()
    _patch_tket_circuit()
    _patch_selene_build()

    import guppylang
    import guppylang_internals

    for mod, p in ((guppylang, paths[0]), (guppylang_internals, paths[1])):
        f = os.path.realpath(mod.__file__)
        if not f.startswith(p + os.sep):
            raise CompatError(f"{mod.__name__} imported from {f}, expected under {p}")
    _INSTALLED = True
    REPO = repo
    return repo


# ------------------------------------------------------------------ tket_exts.bool
_BOOL_EXT = None


def bool_extension():
    global _BOOL_EXT
    if _BOOL_EXT is not None:
        return _BOOL_EXT
    import semver
    from hugr import ext as he, tys as ht

    e = he.Extension("tket.bool", semver.Version(0, 2, 0))
    bdef = e.add_type_def(
        he.TypeDef(
            "bool",
            description="An opaque bool type",
            params=[],
            bound=he.ExplicitBound(ht.TypeBound.Copyable),
        )
    )
    B = ht.ExtType(bdef)

    def op(name, ins, outs):
        e.add_op_def(
            he.OpDef(name, signature=he.OpDefSig(ht.FunctionType(ins, outs)), description=name)
        )

    op("read", [B], [ht.Bool])
    op("make_opaque", [ht.Bool], [B])
    op("not", [B], [B])
    for n in ("and", "or", "xor", "eq"):
        op(n, [B, B], [B])
    _BOOL_EXT = e
    return e


def _patch_tket_exts():
    import tket_exts

    if not hasattr(tket_exts, "bool") or getattr(tket_exts.bool, "_verif", False):
        f = lambda: bool_extension()  # noqa: E731
        f._verif = True
        tket_exts.bool = f
    # ops of tket.qsystem that tket-exts 0.12 had and 0.14 removed; guppylang.std.qsystem
    # looks them up at import time. selene 0.4 cannot execute them (toolchain gap).
    import warnings

    from hugr import ext as he, tys as ht

    with warnings.catch_warnings():
        warnings.simplefilter("ignore")
        qs = tket_exts.qsystem()
    B = ht.ExtType(bool_extension().get_type("bool"))
    for name, outs in (("Measure", [B]), ("MeasureReset", [ht.Qubit, B])):
        if name not in qs.operations:
            qs.add_op_def(
                he.OpDef(
                    name,
                    signature=he.OpDefSig(ht.FunctionType([ht.Qubit], outs)),
                    description=name + " (verif compat: removed in tket-exts 0.14)",
                )
            )


# ------------------------------------------------------------------ hugr 0.14 API
_LAST_HUGR = [None]


def _patch_hugr():
    import hugr.hugr.base as hb
    import hugr.val as hv
    from hugr.hugr.node_port import Node

    if not isinstance(getattr(hb.Hugr, "module_root", None), property):

        def _get_mr(self):
            _LAST_HUGR[0] = self
            return self.__dict__["_module_root"]

        def _set_mr(self, v):
            self.__dict__["_module_root"] = v

        hb.Hugr.module_root = property(_get_mr, _set_mr)

    if not hasattr(Node, "metadata") or not isinstance(
        Node.__dict__.get("metadata"), property
    ):

        def _node_metadata(self):
            h = _LAST_HUGR[0]
            if h is None:
                raise AttributeError("metadata")
            return h[self].metadata

        try:
            Node.metadata = property(_node_metadata)
        except (AttributeError, TypeError):
            pass

    if not getattr(hv.Extension.__init__, "_verif", False):
        _ext_init = hv.Extension.__init__

        def _ext_init2(self, name, typ, val, extensions=None):
            _ext_init(self, name, typ, val)

        _ext_init2._verif = True
        hv.Extension.__init__ = _ext_init2


# ------------------------------------------------------------------ tket.circuit
def _patch_tket_circuit():
    import types

    try:
        import tket
    except ImportError:
        return
    if "tket.circuit" in sys.modules and hasattr(sys.modules["tket.circuit"], "Tk2Circuit"):
        return
    try:
        import tket.circuit as tc  # noqa: F401

        if hasattr(tc, "Tk2Circuit"):
            return
    except ImportError:
        pass
    m = types.ModuleType("tket.circuit")

    class Tk2Circuit:
        def __init__(self, circ):
            from tket._state import CompilationState

            self._st = CompilationState.from_tket1(circ)

        def to_bytes(self, config):
            return self._st.to_bytes(config)

    m.Tk2Circuit = Tk2Circuit
    sys.modules["tket.circuit"] = m
    tket.circuit = m


# ------------------------------------------------------------------ selene build
def _patch_selene_build():
    import selene_sim

    if getattr(selene_sim.build, "_verif", False):
        return
    _b = selene_sim.build

    def build(p, *a, **k):
        from hugr.package import Package

        if isinstance(p, Package):
            from .lower import lower

            p = lower(p)
        return _b(p, *a, **k)

    build._verif = True
    build._orig = _b
    selene_sim.build = build
    _patch_zig_cache()


def zig_cache_dir() -> str:
    d = os.environ.get("VERIF_ZIG_CACHE") or os.path.join(
        os.path.dirname(os.path.dirname(os.path.abspath(__file__))), ".work", "zig-cache")
    os.makedirs(d, exist_ok=True)
    return d


def _patch_zig_cache():
    """selene gives every build a fresh ZIG_LOCAL_CACHE_DIR, so zig re-builds its runtime pieces
    for every program (5-30 CPU-seconds per link).  Point all builds at one shared cache
    directory (zig's cache is content-addressed and lock-protected): pure build-time saving,
    same artifacts."""
    import importlib

    try:
        utils = importlib.import_module("selene_core.build_utils.utils")
    except ImportError:
        return
    orig = utils.invoke_zig
    if getattr(orig, "_verif", False):
        return

    def invoke_zig(*args, handle_triple=True, verbose=False, cache_dir=None):
        """same command line as selene's invoke_zig, but the zig binary is executed directly
        (not through `python -m ziglang`, which costs one more interpreter start per call) and
        with the shared cache directory"""
        import subprocess

        try:
            import ziglang

            zig = os.path.join(os.path.dirname(ziglang.__file__), "zig")
        except ImportError:
            zig = None
        if zig is None or not os.path.exists(zig):
            from pathlib import Path

            return orig(*args, handle_triple=handle_triple, verbose=verbose, cache_dir=Path(zig_cache_dir()))
        argv = [zig] + [str(a) for a in args]
        if handle_triple:
            triple = utils.get_target_triple()
            if triple is not None:
                argv += ["-target", triple]
        env = os.environ.copy()
        env["ZIG_LOCAL_CACHE_DIR"] = zig_cache_dir()
        h = subprocess.Popen(argv, stdout=subprocess.DEVNULL, stderr=subprocess.PIPE, env=env)
        _, stderr = h.communicate()
        if h.returncode != 0:
            raise RuntimeError(f"zig command failed:\n  Command: {' '.join(argv)}\n  Error: {stderr.decode()}")

    invoke_zig._verif = True
    utils.invoke_zig = invoke_zig
    for name in ("selene_core.build_utils", "selene_core.build_utils.builtins.helios",
                 "selene_core.build_utils.builtins.sol", "selene_core.build_utils.builtins.selene"):
        try:
            m = importlib.import_module(name)
        except ImportError:
            continue
        if hasattr(m, "invoke_zig"):
            m.invoke_zig = invoke_zig


# ------------------------------------------------------------------ validation
TKET_BOOL_T = {
    "t": "Opaque",
    "extension": "tket.bool",
    "extension_version": "0.2.0",
    "id": "bool",
    "args": [],
    "bound": "C",
}


def validation_bytes(pkg) -> bytes:
    """JSON envelope of the package exactly as /repo emitted it (modules untouched),
    with the extension *definitions* completed for the validator: every extension of
    the installed registry that 0.21.6's packaging did not know about is added, the
    synthesised tket.bool is embedded, and tket.quantum.MeasureFree is declared with
    the signature of the tket-exts version /repo targets (qubit -> tket.bool)."""
    import json

    import tket_exts
    from hugr.envelope import EnvelopeConfig, EnvelopeFormat

    d = pkg._to_serial().model_dump(mode="json")
    have = {e["name"] for e in d["extensions"]}
    for e in tket_exts.tket_registry().all_extensions:
        if e.name not in have:
            d["extensions"].append(e._to_serial().model_dump(mode="json"))
    if "tket.bool" not in have:
        d["extensions"].append(bool_extension()._to_serial().model_dump(mode="json"))
    for e in d["extensions"]:
        if e["name"] == "tket.quantum":
            for opn in ("MeasureFree", "Measure"):
                mf = e["operations"].get(opn)
                if mf is not None:
                    outs = mf["signature"]["body"]["output"]
                    outs[-1] = dict(TKET_BOOL_T)
    hdr = EnvelopeConfig(format=EnvelopeFormat.JSON, zstd=None)._make_header().to_bytes()
    return bytes(hdr) + json.dumps(d).encode()


def validate(pkg) -> None:
    """Run the hugr-core validator (Rust, shipped in the hugr wheel) on the package
    exactly as /repo emitted it. Raises hugr HugrCliError on invalid HUGR."""
    import hugr.cli

    hugr.cli.validate(validation_bytes(pkg))
