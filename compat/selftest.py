"""Self-test of the bridge: import, compile, validate, lower, emulate one classical and one
quantum program from VERIF_REPO; also warms the selene/zig build cache."""
import sys, os
sys.path.insert(0, os.path.dirname(os.path.dirname(os.path.abspath(__file__))))

SRC = '''
@guppy.struct
class S:
    a: int
    b: float

@guppy
def f(x: int, s: S) -> int:
    y = x
    while y < 10:
        y += s.a
    return y

@guppy
def main() -> None:
    q = qubit()
    r = measure(q)
    result("r", r)
    q2 = qubit()
    x(q2)
    result("r2", measure(q2))
    result("f", f(3, S(2, 1.5)))
    result("d", 7 // 2)
    xs = array(1, 2, 3)
    result("xs", xs)
    if f(1, S(20, 0.0)) > 5:
        panic("boom")
    result("unreachable", 0)
'''

def run():
    import compat
    compat.install()
    from vlib import runner
    src = runner.PRELUDE + "from guppylang.std.quantum import x\n" + SRC
    out, lm = runner.run_source(src, n_qubits=2)
    exp = [("r", 0), ("r2", 1), ("f", 11), ("d", 3), ("xs", [1, 2, 3])]
    if out.kind != "panic" or out.stream != exp or "boom" not in out.message:
        raise compat.CompatError(f"bridge self-test failed: {out.kind} {out.stream} {out.message[:500]}")
    print("compat self-test ok:", out.brief())

if __name__ == "__main__":
    run()
