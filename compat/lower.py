"""Lowering applied ONLY to the copy of a package handed to selene 0.4.x:
tket.bool (an extension selene no longer knows) -> native bool_t / logic ops, and
`tket.quantum.MeasureFree: q -> tket.bool` -> `MeasureFree: q -> Measurement` followed
by `tket.measurement.Read`. Purely structural, 1:1 on ops.  DESIGN.md 1.2 / 8."""
from __future__ import annotations

import json

BOOL_T = {"t": "Sum", "s": "Unit", "size": 2}
LOGIC = {"and": "And", "or": "Or", "xor": "Xor", "not": "Not", "eq": "Eq"}
MEAS = {
    "t": "Opaque",
    "extension": "tket.measurement",
    "extension_version": "0.1.0",
    "id": "Measurement",
    "args": [],
    "bound": "C",
}


def _is_tb(d):
    return isinstance(d, dict) and d.get("t") == "Opaque" and d.get("extension") == "tket.bool"


def _rw(x):
    if isinstance(x, list):
        return [_rw(y) for y in x]
    if not isinstance(x, dict):
        return x
    if _is_tb(x):
        return dict(BOOL_T)
    if (
        x.get("v") == "Extension"
        and isinstance(x.get("value"), dict)
        and x["value"].get("c") == "ConstBool"
    ):
        return {"v": "Sum", "tag": 1 if x["value"]["v"] else 0, "vs": [], "typ": dict(BOOL_T)}
    if x.get("op") == "Extension" and x.get("extension") == "tket.bool":
        n = x["name"]
        y = {k: _rw(v) for k, v in x.items()}
        y.pop("extension_version", None)
        if n in ("read", "make_opaque"):
            y.update(extension="prelude", name="Noop", args=[{"tya": "Type", "ty": dict(BOOL_T)}])
        else:
            y.update(extension="logic", name=LOGIC[n])
        return y
    return {k: _rw(v) for k, v in x.items()}


def lower_dict(d: dict) -> dict:
    import tket_exts

    d["extensions"] = [e for e in d["extensions"] if e["name"] != "tket.bool"]
    have = {e["name"] for e in d["extensions"]}
    for e in tket_exts.tket_registry().all_extensions:
        if e.name not in have:
            d["extensions"].append(e._to_serial().model_dump(mode="json"))
    d = _rw(d)
    for m in d["modules"]:
        nodes, edges = m["nodes"], m["edges"]
        for i, n in list(enumerate(nodes)):
            if (
                n.get("op") == "Extension"
                and n.get("extension") == "tket.quantum"
                and n.get("name") == "MeasureFree"
            ):
                n["signature"]["output"] = [dict(MEAS)]
                j = len(nodes)
                nodes.append(
                    {
                        "parent": n["parent"],
                        "op": "Extension",
                        "extension": "tket.measurement",
                        "name": "Read",
                        "signature": {"t": "G", "input": [dict(MEAS)], "output": [dict(BOOL_T)]},
                        "args": [],
                    }
                )
                if isinstance(m.get("metadata"), list):
                    m["metadata"].append(None)
                for e in edges:
                    if e[0] == [i, 0]:
                        e[0] = [j, 0]
                edges.append([[i, 0], [j, 0]])
    return d


def lower(package) -> bytes:
    from hugr.envelope import EnvelopeConfig, EnvelopeFormat

    d = package._to_serial().model_dump(mode="json")
    d = lower_dict(d)
    hdr = EnvelopeConfig(format=EnvelopeFormat.JSON, zstd=None)._make_header().to_bytes()
    return bytes(hdr) + json.dumps(d).encode()
