"""C17 Integer literals are range-checked and preserved exactly.

Domain: Python integers = boundaries (-2^63-1, -2^63, -1, 0, 2^63-1, 2^63, 2^64-1, 2^64 and
their neighbours) U Hypothesis-drawn magnitudes up to 2^70 of either sign, written in 6 forms
  lit      `x: T = 123`                       (v >= 0)
  neg      `x: T = -123`                      (v <= 0; folded by cfg/builder.py)
  comptime `x: T = comptime(<python expr>)`   (module global / sum of two literals / shifted power)
  tuple    `t: tuple[T, bool] = comptime((v, True)); x = t[0]`  (also (bool, T) and (T, T))
  list     `xs: frozenarray[T, n] = comptime([.., v, ..]); x = xs[k]`  (optionally via mutable_copy())
  carg     `x = k_T(v)` with `def k_T(k: T @ comptime) -> T: return k`
  traced   `x = t(..)` with a `@guppy.comptime def t(a: int, b: bool, f: float, z: int) -> int` whose body turns
           the Python integer v into a Guppy value (returned as is / `z + v` / `v + z` / argument of a Guppy
           function, alone, inside a tuple or a list / `result("tv", v)`) amid 0-3 *neighbour* statements
           before and after it that turn other Python constants (bool, int, float - biased to values that are
           numerically equal to v or to each other, such as True / 1 / 1.0) into Guppy values in the same
           function.  int only: a Python integer met while tracing always becomes an `int`.
at T = int and T = nat (int forms also without annotation, where the literal defaults to int).

Oracle (property statement): accepted iff v in [-2^63, 2^63-1] (int) / [0, 2^64-1] (nat).
Out-of-range cases are compiled alone and must be rejected with a user error.  In-range cases
are batched (~32 per emulated program); each reports `x`, `x + 0`, `x == <the literal v>` and for
nat also `x // 2^32`, `x % 2^32`; every observation must equal the Python integer exactly.  A traced
function additionally reports every constant it hands to `result` and the final a, b, f, which must equal
what CPython computes for the same statements (so the neighbours are known to be valid programs: an
in-range v must be accepted whatever other constants the function uses).
"""
import os
import sys

sys.path.insert(0, os.path.dirname(os.path.dirname(os.path.abspath(__file__))))
from vlib import harness  # noqa: E402

PROP = "C17"
M64 = 1 << 64
I63 = 1 << 63
RANGE = {"int": (-I63, I63 - 1), "nat": (0, M64 - 1)}
FORMS = ["lit", "neg", "comptime", "tuple", "list", "carg"]
TRACED_USES = ["ret", "add", "radd", "call", "tuple", "list", "result"]
# start values of the parameters of a traced function (handed over by main at run time)
TR_A, TR_B, TR_F = 5, True, 1.5
BOUNDARIES = [-I63 - 1, -I63, -1, 0, I63 - 1, I63, M64 - 1, M64]

# Confirmed finding class (see the report of this check): a scalar `nat` handed to `result` is
# reported through the signed channel (`result_int`), so nat >= 2^63 reads back as v - 2^64.
# While the class is listed here such observations are compared modulo 2^64 (counted with
# ctx.exclude) so that the search continues behind it - the exact unsigned value is still pinned
# down by the `x // 2^32`, `x % 2^32` and `x == v` observations.  `C17_EXCLUDE=none` switches it off.
EXCLUDE = {"nat.reported_signed"}
if os.environ.get("C17_EXCLUDE") is not None:
    _e = os.environ["C17_EXCLUDE"].strip()
    EXCLUDE = set() if _e in ("", "none") else {x.strip() for x in _e.split(",")}

TOP = """from guppylang.std.builtins import frozenarray

@guppy
def k_int(k: int @ comptime) -> int:
    return k

@guppy
def k_nat(k: nat @ comptime) -> nat:
    return k

@guppy
def id_int(k: int) -> int:
    return k

@guppy
def fst_ib(t: tuple[int, bool]) -> int:
    return t[0]

@guppy
def at1(xs: array[int, 2]) -> int:
    return xs[1]
"""


# ----------------------------------------------------------------------------- cases
def in_range(v, ty):
    lo, hi = RANGE[ty]
    return lo <= v <= hi


def lit_text(v):
    return str(v) if v >= 0 else f"-{-v}"


def py_expr(case):
    """Python source of the comptime expression denoting v (evaluated by CPython at compile time)."""
    v, k = case["v"], case.get("expr", "global")
    if k == "sum":
        a = case["split"]
        return f"({a}) + ({v - a})"
    if k == "shift":
        s = max(abs(v).bit_length() - 1, 0)
        return f"({'-' if v < 0 else ''}(1 << {s})) + ({v - (-(1 << s) if v < 0 else (1 << s))})"
    if k == "literal":
        return f"({v})"
    return "G{i}"


def const_text(kind, c):
    if kind == "float":
        return repr(float(c))
    return repr(bool(c)) if kind == "bool" else str(int(c))


def neighbour(nb, state, obs):
    """One neighbour statement: turns the Python constant c of kind bool|int|float into a Guppy value.
    -> source line; updates the CPython model `state` = {a, b, f} and appends what it reports to obs."""
    kind, c, how = nb
    t = const_text(kind, c)
    c = {"bool": bool, "int": int, "float": float}[kind](c)
    if how == "res":
        obs.append(("u", int(c) if kind == "bool" else c))
        return f'result("u", {t})'
    if kind == "bool":
        state["b"] = {"and": state["b"] & c, "rand": c & state["b"], "or": state["b"] | c, "xor": state["b"] ^ c}[how]
        return {"and": f"b = b & {t}", "rand": f"b = {t} & b", "or": f"b = b | {t}", "xor": f"b = b ^ {t}"}[how]
    if kind == "int":
        state["a"] = state["a"] + c if how == "add" else state["a"] ^ c
        return {"xor": f"a = a ^ {t}", "rxor": f"a = {t} ^ a", "add": f"a = a + {t}"}[how]
    state["f"] = state["f"] * c if how == "mul" else state["f"] + c
    return {"mul": f"f = f * {t}", "add": f"f = f + {t}", "radd": f"f = {t} + f"}[how]


def traced_lines(case, i):
    """-> (module-level lines of the traced function, expected inner observations)"""
    v = case["v"]
    state, obs = {"a": TR_A, "b": TR_B, "f": TR_F}, []
    body = [neighbour(nb, state, obs) for nb in case.get("pre", [])]
    use = case.get("use", "ret")
    body.append({"ret": f"r = {v}", "add": f"r = z + {v}", "radd": f"r = {v} + z", "call": f"r = id_int({v})",
                 "tuple": f"r = fst_ib(({v}, True))", "list": f"r = at1([3, {v}])",
                 "result": f'result("tv", {v})'}[use])
    if use == "result":
        obs.append(("tv", v))
        body.append(f"r = {v}")
    body += [neighbour(nb, state, obs) for nb in case.get("post", [])]
    body += ['result("ua", a)', 'result("ub", b)', 'result("uf", f)', "return r"]
    obs += [("ua", state["a"]), ("ub", int(state["b"])), ("uf", state["f"])]
    top = ["", "@guppy.comptime", f"def t{i}(a: int, b: bool, f: float, z: int) -> int:"] + ["    " + ln for ln in body] + [""]
    return top, obs


def collides(case):
    """does the traced function convert two Python constants that compare equal but differ in type?"""
    cs = [("int", case["v"])] + [(k, c) for k, c, _ in case.get("pre", []) + case.get("post", [])]
    return any(k1 != k2 and c1 == c2 for n, (k1, c1) in enumerate(cs) for k2, c2 in cs[n + 1:])


def case_lines(case, i):
    """(module-level lines, statements defining x{i}) for one case."""
    v, ty, form = case["v"], case["ty"], case["form"]
    ann = "" if case.get("bare") else f": {ty}"
    x = f"x{i}"
    top = []
    e = py_expr(case).format(i=i)
    uses_expr = form in ("comptime", "tuple", "list") or (form == "carg" and case.get("arg") == "comptime")
    if uses_expr and case.get("expr", "global") == "global":
        top.append(f"G{i} = {v}")
    if form == "traced":
        return traced_lines(case, i)[0], [f"{x} = t{i}(u5, True, 1.5, u0)"]
    if form in ("lit", "neg"):
        return top, [f"{x}{ann} = {lit_text(v)}"]
    if form == "comptime":
        return top, [f"{x}{ann} = comptime({e})"]
    if form == "tuple":
        lay = case.get("layout", "Tb")
        if lay == "Tb":
            t, val, idx = f"tuple[{ty}, bool]", f"({e}, True)", 0
        elif lay == "bT":
            t, val, idx = f"tuple[bool, {ty}]", f"(False, {e})", 1
        else:
            t, val, idx = f"tuple[{ty}, {ty}]", f"(7, {e})", 1
        tann = "" if case.get("bare") else f": {t}"
        return top, [f"t{i}{tann} = comptime({val})", f"{x} = t{i}[{idx}]"]
    if form == "list":
        n, k = case.get("n", 1), case.get("k", 0)
        elts = [str(3 + j) for j in range(n)]
        elts[k] = e
        lann = "" if case.get("bare") else f": frozenarray[{ty}, {n}]"
        lines = [f"l{i}{lann} = comptime([{', '.join(elts)}])"]
        if case.get("via_array"):
            lines += [f"m{i} = l{i}.mutable_copy()", f"{x} = m{i}[{k}]"]
        else:
            lines.append(f"{x} = l{i}[{k}]")
        return top, lines
    if form == "carg":
        arg = {"lit": lit_text(v), "comptime": f"comptime({e})"}[case.get("arg", "lit")]
        return top, [f"{x} = k_{ty}({arg})"]
    raise AssertionError(form)


def observe_lines(case, i):
    v, ty = case["v"], case["ty"]
    x = f"x{i}"
    out = [f'result("v", {x})']
    if ty == "int":
        out += [f'result("p", {x} + 0)', f'result("e", {x} == {lit_text(v)})']
    else:
        out += [f'result("p", {x} + n0)', f"w{i}: nat = {v}", f'result("e", {x} == w{i})',
                f'result("h", {x} // n32)', f'result("l", {x} % n32)']
    return out


def build_program(cases, observe=True):
    from vlib import runner

    top, body = [TOP], ["n0: nat = 0", "n32: nat = 4294967296", f"u5 = {TR_A}", "u0 = 0"]
    for i, c in enumerate(cases):
        t, lines = case_lines(c, i)
        top.extend(t)
        if observe:
            body.append(f'result("c", {i})')  # everything reported from here on belongs to case i
        body.extend(lines)
        if observe:
            body.extend(observe_lines(c, i))
    return (runner.PRELUDE + "\n".join(top) + "\n\n@guppy\ndef main() -> None:\n"
            + "\n".join("    " + ln for ln in body) + "\n")


def describe(case):
    top, lines = case_lines(case, 0)
    if case["form"] == "traced":
        return "; ".join(ln.strip() for ln in top if ln.strip()) + " || " + "; ".join(lines)
    extra = f"  [G0 = {case['v']}]" if any("G0" in ln for ln in lines) else ""
    return "; ".join(lines) + extra


def vclass(v, ty):
    lo, hi = RANGE[ty]
    if v < lo:
        return "below"
    if v > hi:
        return "above"
    if v in (lo, hi):
        return "edge"
    if ty == "nat" and v >= I63:
        return "big"
    return "neg" if v < 0 else "inner"


# ----------------------------------------------------------------------------- evaluation
def compile_only(case):
    """-> Outcome of compiling (not running) the case alone."""
    from vlib import runner

    out, lm = runner.run_source(build_program([case], observe=in_range(case["v"], case["ty"])), emulate=False)
    if lm is not None:
        lm.dispose()
    return out


def rejection(out):
    """name of the user error the compilation ended with, or None.  Errors met while tracing a comptime function
    surface as GuppyComptimeError (the user-facing error of that mode), which the runner files under `crash`."""
    if out.kind == "rejected":
        return type(out.exc.error).__name__
    if out.kind == "crash" and type(out.exc).__name__ == "GuppyComptimeError":
        return "GuppyComptimeError"
    return None


def judge_static(case, out):
    """Accept/reject judgement of one case compiled alone -> None | (bucket, detail)"""
    from vlib import runner

    v, ty = case["v"], case["ty"]
    ok = in_range(v, ty)
    d = describe(case)
    if rejection(out) == "GuppyComptimeError":
        if not ok:
            return None
        return (f"rejected.in_range.{ty}.{vclass(v, ty)}.traced",
                f"{d}: v = {v} lies in the range of {ty} but is rejected (GuppyComptimeError)\n{out.message[-500:]}")
    if out.kind == "crash":
        return "crash." + (runner.crash_bucket(out.exc) if out.exc else out.title), f"{d}: compiler crashed\n{out.message[-1500:]}"
    if out.kind == "invalid":
        return f"invalid.{ty}", f"{d}: emitted HUGR does not validate\n{out.message[:1200]}"
    if out.kind == "rejected" and ok:
        return (f"rejected.in_range.{ty}.{vclass(v, ty)}" + (".traced" if case["form"] == "traced" else ""),
                f"{d}: v = {v} lies in the range of {ty} but is rejected ({out.title})\n{out.message[-700:]}")
    if out.kind == "ok" and not ok:
        return (f"accepted.out_of_range.{ty}.{vclass(v, ty)}",
                f"{d}: v = {v} lies outside the range of {ty} but is accepted")
    return None


def expected_obs(case):
    v, ty = case["v"], case["ty"]
    exp = (traced_lines(case, 0)[1] if case["form"] == "traced" else []) + [("v", v), ("p", v), ("e", 1)]
    if ty == "nat":
        exp += [("h", v >> 32), ("l", v & 0xFFFFFFFF)]
    return exp


def judge_obs(case, obs, use_exclude=True):
    """obs = [(tag, value)] of one case -> (violation|None, excluded: bool)"""
    v, ty = case["v"], case["ty"]
    exp = expected_obs(case)
    d = describe(case)
    if [t for t, _ in obs] != [t for t, _ in exp]:
        return (f"stream.{ty}", f"{d}: observations {obs}, expected tags {[t for t, _ in exp]}"), False
    bad = [(t, o, e) for (t, o), (_, e) in zip(obs, exp) if o != e]
    if not bad:
        return None, False
    signed = [(t, o, e) for t, o, e in bad if ty == "nat" and t in ("v", "p") and e >= I63 and o == e - M64]
    if signed and len(signed) == len(bad):
        # the value itself is right (h, l, e agree): only the reporting channel is signed
        if use_exclude and "nat.reported_signed" in EXCLUDE:
            return None, True
        return ("nat.reported_signed",
                f"{d}: result(tag, x) reports {signed[0][1]} for the nat value {v} "
                f"(= v - 2^64; x // 2^32, x % 2^32 and x == v confirm that x holds {v})"), False
    t, o, e = bad[0]
    what = {"v": "result(x)", "p": "result(x + 0)", "e": "x == <literal v>", "h": "x // 2^32", "l": "x % 2^32",
            "tv": "result(\"tv\", v) inside the traced function", "u": "a constant reported by the traced function",
            "ua": "a at the end of the traced function", "ub": "b at the end of the traced function",
            "uf": "f at the end of the traced function"}[t]
    return (f"value.{ty}.{vclass(v, ty)}" + (".traced" if case["form"] == "traced" else ""),
            f"{d}: {what} observed {o}, Python integer gives {e}  (all observations: {obs})"), False


def run_batch(cases):
    """Run in-range cases as one program.  -> [(status, payload)] aligned with cases; status in
    obs (payload = [(tag, value)]) | static (payload = violation tuple) | unsupported | harness"""
    from vlib import runner

    res = [None] * len(cases)
    live = list(range(len(cases)))
    for attempt in range(2):
        if not live:
            break
        src = build_program([cases[i] for i in live])
        out, lm = runner.run_source(src, n_qubits=1)
        if lm is not None:
            lm.dispose()
        if out.kind in ("ok", "panic"):
            cur = None
            got = {}
            for t, val in out.stream:
                if t == "c":
                    cur = val
                    got[cur] = []
                elif cur is not None:
                    got[cur].append((t, val))
            for pos, i in enumerate(live):
                if pos in got and (out.kind == "ok" or len(got[pos]) == len(expected_obs(cases[i]))):
                    res[i] = ("obs", got[pos])
                elif out.kind == "panic":
                    res[i] = ("static", (f"panic.{cases[i]['ty']}",
                                         f"{describe(cases[i])}: program panics: {out.message[:300]}")) \
                        if pos in got else ("harness", "not evaluated after an earlier panic")
                else:
                    res[i] = ("harness", f"case {pos} missing from the result stream")
            return res
        if out.kind == "unsupported" and len(live) == 1:
            res[live[0]] = ("unsupported", out.message[:300])
            return res
        # the batch did not compile / validate / build: judge each case alone, re-batch the clean ones
        nxt = []
        for i in live:
            o = compile_only(cases[i])
            viol = judge_static(cases[i], o)
            if viol:
                res[i] = ("static", viol)
            elif o.kind != "ok":
                res[i] = ("harness", f"{describe(cases[i])}: unexpected outcome {o.brief()[:300]}")
            else:
                nxt.append(i)
        if len(nxt) == len(live):
            if attempt or out.kind != "unsupported":
                for i in nxt:
                    res[i] = (("unsupported", out.message[:300]) if out.kind == "unsupported" else
                              ("harness", f"batch fails ({out.brief()[:300]}) but every case compiles alone"))
                return res
            # selene could not build the batch: run one by one
            for i in nxt:
                res[i] = run_batch([cases[i]])[0]
            return res
        live = nxt
    for i in live:
        if res[i] is None:
            res[i] = ("harness", "not evaluated")
    return res


def norm_case(case):
    c = dict(case)
    c["v"] = int(c["v"])
    if "split" in c:
        c["split"] = int(c["split"])
    for k in ("pre", "post"):
        if k in c:
            c[k] = [[kind, {"bool": bool, "int": int, "float": float}[kind](val), how] for kind, val, how in c[k]]
    return c


def replay(case):
    """Re-run one case (ignores EXCLUDE: a probe of an excluded class still shows the finding)."""
    case = norm_case(case)
    if not in_range(case["v"], case["ty"]):
        return judge_static(case, compile_only(case))
    (st, payload), = run_batch([case])
    if st == "static":
        return payload
    if st == "obs":
        return judge_obs(case, payload, use_exclude=False)[0]
    return None


PROBES = {"nat.reported_signed": {"v": M64 - 1, "ty": "nat", "form": "lit"}}


# ----------------------------------------------------------------------------- generation
def applicable(v, form):
    return (form != "lit" or v >= 0) and (form != "neg" or v <= 0)


def case_strategy():
    from hypothesis import strategies as st

    def mag(lo, hi):
        return st.integers(lo, hi).flatmap(lambda k: st.integers((1 << k) >> 1, (1 << k) - 1))

    def near(points):
        return st.tuples(st.sampled_from(points), st.integers(-3, 3)).map(lambda t: t[0] + t[1])

    pos_mag = st.one_of(mag(0, 70), mag(60, 66), mag(62, 64), mag(63, 64))
    # type-specific draws so that every class (below / edge / inner / big / above) stays frequent
    values = {
        "int": st.one_of(st.sampled_from(BOUNDARIES), near([-I63, I63 - 1, -(1 << 62), 1 << 62, M64]),
                         pos_mag, pos_mag.map(lambda v: -v), mag(62, 63), mag(62, 63).map(lambda v: -v),
                         st.integers(-100, 100)),
        "nat": st.one_of(st.sampled_from(BOUNDARIES), near([0, I63, M64 - 1, 1 << 62]), pos_mag, pos_mag,
                         mag(64, 64), mag(64, 64), mag(64, 64), mag(65, 66), pos_mag.map(lambda v: -v),
                         st.integers(-3, 100)),
    }

    @st.composite
    def case(draw):
        ty = draw(st.sampled_from(["int", "nat"]))
        v = draw(values[ty])
        form = draw(st.sampled_from([f for f in FORMS if applicable(v, f)] + (["traced"] if ty == "int" else [])))
        if form == "traced" and draw(st.booleans()):
            v = draw(st.integers(-2, 3))  # the integers that have equal constants of another Python type nearby
        return fill(draw, v, ty, form)

    return case()


def fill(draw, v, ty, form):
    """complete a case dict; `draw` is Hypothesis' draw or a deterministic chooser"""
    from hypothesis import strategies as st

    c = {"v": v, "ty": ty, "form": form}
    if ty == "int" and form != "carg" and draw(st.integers(0, 3)) == 0:
        c["bare"] = True
    if form in ("comptime", "tuple", "list") or (form == "carg" and draw(st.booleans())):
        if form == "carg":
            c["arg"] = "comptime"
        c["expr"] = draw(st.sampled_from(["global", "sum", "shift", "literal"]))
        if c["expr"] == "sum":
            c["split"] = draw(st.one_of(st.integers(-5, 5), st.integers(-(1 << 70), 1 << 70), st.just(v // 2)))
    if form == "tuple":
        c["layout"] = draw(st.sampled_from(["Tb", "bT", "TT"]))
    if form == "list":
        c["n"] = draw(st.integers(1, 3))
        c["k"] = draw(st.integers(0, c["n"] - 1))
        if draw(st.integers(0, 2)) == 0:
            c["via_array"] = True
    if form == "traced":
        c.pop("bare", None)
        c["use"] = draw(st.sampled_from(TRACED_USES))
        ints = [0, 1, 2, -1] + ([v, v ^ 1] if in_range(v, "int") else [])
        floats = [0.0, 1.0, 2.0, -1.0] + ([float(v)] if abs(v) <= (1 << 53) else [])

        def nb():
            kind = draw(st.sampled_from(["bool", "bool", "int", "float"]))
            if kind == "bool":
                return [kind, draw(st.booleans()), draw(st.sampled_from(["and", "rand", "or", "xor", "res"]))]
            if kind == "int":
                k = draw(st.sampled_from(ints))
                return [kind, k, draw(st.sampled_from(["xor", "rxor", "res"] + (["add"] if abs(k) <= 3 else [])))]
            return [kind, draw(st.sampled_from(floats)), draw(st.sampled_from(["mul", "add", "radd", "res"]))]

        c["pre"] = [nb() for _ in range(draw(st.integers(0, 3)))]
        c["post"] = [nb() for _ in range(draw(st.integers(0, 2)))]
    return c


def core_cases():
    """every boundary x type x applicable form, in the plainest spelling (enumerated each run)"""
    out = []
    for v in BOUNDARIES:
        for ty in ("int", "nat"):
            for form in FORMS:
                if not applicable(v, form):
                    continue
                c = {"v": v, "ty": ty, "form": form}
                if form in ("comptime", "tuple", "list"):
                    c["expr"] = "global"
                out.append(c)
                if ty == "int" and form in ("lit", "neg", "comptime", "list"):
                    out.append(dict(c, bare=True))
        for n, use in enumerate(TRACED_USES):
            if (BOUNDARIES.index(v) + n) % 2 == 0:
                out.append({"v": v, "ty": "int", "form": "traced", "use": use, "pre": [], "post": []})
    return out


# ----------------------------------------------------------------------------- worker
def worker(ctx):
    P = ctx.params
    pending = []
    stats = {"programs": 0}

    def labels_of(case, expect_ok):
        v, ty = case["v"], case["ty"]
        return [f"form:{case['form']}", f"type:{ty}", "expect:" + ("accepted" if expect_ok else "rejected"),
                f"class:{ty}.{vclass(v, ty)}", "magnitude:" + (">=2^62" if abs(v) >= (1 << 62) else "<2^62"),
                "hint:" + ("bare" if case.get("bare") else "annotated")] + (
            [f"traced.use:{case['use']}", f"traced.neighbours:{len(case['pre'])}+{len(case['post'])}",
             "traced.equal_constants_of_other_type:" + ("yes" if collides(case) else "no")]
            if case["form"] == "traced" else [])

    def count(case, expect_ok, extra=()):
        ctx.case(case, abs(case["v"]) >= (1 << 62), labels=labels_of(case, expect_ok) + list(extra))
        ctx.sample(f"{case['form']}/{case['ty']}.{vclass(case['v'], case['ty'])}",
                   {"program": describe(case), "v": case["v"], "type": case["ty"],
                    "expected": "accepted, observes v" if expect_ok else "rejected"})

    def flush():
        if not pending:
            return
        batch, pending[:] = list(pending), []
        stats["programs"] += 1
        for case, (st_, payload) in zip(batch, run_batch(batch)):
            if st_ == "obs":
                viol, excl = judge_obs(case, payload)
                count(case, True, ["excluded:nat.reported_signed(compared mod 2^64)"] if excl else [])
                if excl:
                    ctx.exclude("nat.reported_signed: result(tag, nat >= 2^63) compared modulo 2^64")
                if viol:
                    ctx.violation(viol[0], dict(case, source=build_program([case])), viol[1])
            elif st_ == "static":
                count(case, True)
                ctx.violation(payload[0], dict(case, source=build_program([case])), payload[1])
            elif st_ == "unsupported":
                ctx.unsupported_case("selene could not build/run: form " + case["form"])
            else:
                ctx.harness_error(f"{describe(case)}: {payload}")

    def body(case):
        if in_range(case["v"], case["ty"]):
            pending.append(case)
            if len(pending) >= P["batch"]:
                flush()
            return
        out = compile_only(case)
        count(case, False, ["error:" + (rejection(out) or out.kind)])
        viol = judge_static(case, out)
        if viol:
            ctx.violation(viol[0], dict(case, source=build_program([case], observe=False)), viol[1])

    core = core_cases()
    if ctx.shard == 0:
        ctx.notes["core_cases"] = len(core)
        ctx.notes["EXCLUDE"] = sorted(EXCLUDE)
    for i, c in enumerate(core):
        if i % ctx.nshards == ctx.shard:
            body(c)
    flush()
    harness.hyp_search(ctx, case_strategy(), body, max_examples=P["n"], chunk=P["n"], time_frac=0.85)
    flush()
    ctx.notes[f"programs_run_shard{ctx.shard}"] = stats["programs"]

    # fixed probe of the confirmed class (evidence only; the class itself is matched by its bucket)
    if ctx.shard == 0:
        for b, case in sorted(PROBES.items()):
            try:
                r = replay(case)
            except Exception as e:  # noqa: BLE001
                ctx.notes["probe:" + b] = f"probe crashed: {e!r}"
                continue
            ctx.notes["probe:" + b] = ("still fails: " + r[1]) if r else "passes now"
            if r and b not in EXCLUDE:
                ctx.violation(r[0], dict(case, source=build_program([case])), r[1])


SPEC = harness.Spec(
    PROP, worker, replay,
    rule=("case = (Python integer v, type int|nat, form lit|neg|comptime|tuple|list|carg|traced + spelling options: bare/annotated, "
          "comptime expression as module global / sum of two literals / shifted power / literal, tuple layout, list length "
          "and position, list read through mutable_copy(), @comptime argument as literal or comptime(...); traced (int only) = "
          "v turned into a Guppy value inside a @guppy.comptime function (returned / z + v / v + z / argument of a Guppy function "
          "alone, in a tuple, in a list / result(tag, v)) amid 0-3 + 0-2 neighbour statements that turn other Python constants "
          "(bool, int, float; biased to values equal to v or to each other: True / 1 / 1.0, v / float(v)) into Guppy values in the "
          "same function, which also reports its constants and final a, b, f (compared with CPython). Every "
          "boundary (-2^63-1, -2^63, -1, 0, 2^63-1, 2^63, 2^64-1, 2^64) x type x applicable form is enumerated each run; "
          "Hypothesis draws v from boundaries +-3, magnitudes up to 2^70 of either sign (biased to 2^60..2^66) and small "
          "ints. Out-of-range cases are compiled alone (must be rejected), in-range cases are emulated in batches and "
          "must report v for x, x + 0, x == v (and x // 2^32, x % 2^32 for nat). non-trivial = |v| >= 2^62; "
          "distinct = distinct case dict."),
    assumptions=[
        "a literal without annotation is 'at type int' (Guppy's documented default), so it is judged against the int range",
        "a Python integer met while tracing a @guppy.comptime function is 'a comptime Python integer at type int' (tracing has no "
        "type hint, it always picks int); GuppyComptimeError is the user error of that mode (counts as rejected)",
        "`x + 0` / `x == v` for nat use nat-typed helpers (`n0: nat = 0`, `w: nat = v`): a bare literal operand is an int and "
        "would turn the operation into an int operation (coercion, property C16)",
        "selene's result stream reports result_int signed and result_uint unsigned (verified: array[nat] results and "
        "`_result_nat` report 2^64-1 as 18446744073709551615)",
        "while EXCLUDE contains nat.reported_signed, result(tag, x) observations of nat >= 2^63 are compared modulo 2^64; "
        "x // 2^32, x % 2^32 (both < 2^32) and x == v still determine the value exactly",
    ],
    shards={"quick": 16, "thorough": 16},
    budget_s={"quick": 300, "thorough": 2400},
    params={"quick": {"n": 190, "batch": 32}, "thorough": {"n": 4000, "batch": 32}},
    min_nontrivial=300,
)

if __name__ == "__main__":
    harness.main(SPEC)
