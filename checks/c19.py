"""C19 Array access is bounds-safe and alias-free.

Domain.  Operation scripts over one array `xs` of `n` in 0..6 elements of kind
  int   array[int, n]               tup   array[tuple[int, bool], n]
  nest  array[array[int, 2], n]     qubit array[qubit, n]   (all |0>, basis states only)
rendered as one straight-line `@guppy` function per script.  Every index and every written value
is a *parameter* of that function (`main` passes the drawn numbers), so every subscript is a
run-time index; array lengths are concrete (DESIGN 1.4: classical `xs[i]` in a length-generic
function does not run on selene 0.4.3).
 classical ops: read, write, `+=`, element swap through a temporary, `len`, `ys = xs.copy()` followed
   by ops on either array (aliasing would show), dumps (literal indices / `for k in range(n)` /
   `for e in xs.copy()` / whole-array `result`), comprehensions (`array(e + 1 for e in xs.copy())`,
   `array(xs[k] for k in range(n))`), unpacking of `xs.copy()` with the star in any position;
 nest ops: inner read/write `xs[i][k]` (both run-time), `mem_swap(xs[i], xs[j])` and
   `swap2(xs[i], xs[j])` (a two-argument borrowing function), `array(xs[k][1] for k in range(n))`;
 qubit ops: `x(qs[i])`, `reset(qs[i])`, `cx(qs[i], qs[j])`, `mem_swap(qs[i], qs[j])`, `len`;
 final phase (consumes the array): `for`, comprehension, unpacking (no star / star first / middle /
   last / alone; star remainder read by `for`, by literal index or `measure_array`), drop; qubits:
   `measure_array`, `for q in qs: measure(q)`, `array(measure(q) for q in qs)`, unpack + measure.
Scripts are drawn in a mode: `clean` (all indices in range, two borrows distinct), or exactly one
inserted operation with a negative index (-n-2..-1), a too large one (n..n+2) or the same element
lent twice (`swap2(xs[i], xs[i])`, `mem_swap(..)`, `cx(qs[i], qs[i])`).  `result("pos", k)` before
every operation pins the place of a panic.  Clean scripts are batched into one program, scripts
that must panic are built one per program.

Oracle (from the property statement, not from the array compiler): a Python list model restricted
to 0 <= i < n.  A clean script must report exactly the model's stream.  A script with an
out-of-range (negative included) index or a double borrow must end in a program panic with a
non-empty message, its stream being exactly the model's stream up to and including the `pos` marker
of that operation (nothing of the operation, nothing after it).  Qubit scripts: the measured bits
must be the classical simulation of X / CX / swap / reset on |0..0> in index order.

Readings taken (the text leaves room; the unchanged tree's behaviour is accepted, DESIGN 3):
 * replacing a whole element of non-copyable type (`xs[i] = array(7, 8)` on array[array[int,2], n])
   panics "Array already contains an element at this index" for every valid i: for non-copyable
   elements `__setitem__` is the hand-back of a borrowed element, not a replacement.  Not generated.
Toolchain gap found here (not guppylang behaviour; the HUGR is new_array -> pop_left -> clone /
to_array): selene 0.4.3 reads a whole array that went through `pop_left` from the wrong offset
(`a, *r = xs; result("r", r)` / `r.copy()` report garbage, `r[k]` and `for` are right).  A probe
records this in notes; star remainders are therefore read by index / `for` / `measure_array` only.
Second gap: `result(tag, <array of length 0>)` corrupts selene's result stream ("Expected tag as the
first entry in a stream record"); for length 0 the scripts report `len(..)` instead.

Finding on the unchanged tree (bucket `compile.crash.IndexError@stmt_checker.py:_check_unpack_assign`,
class "starred unpacking of a length-0 array or sized iterable", re-open with C19_EXCLUDE=none): see
PROBES and the final report.
"""
import os
import sys

sys.path.insert(0, os.path.dirname(os.path.dirname(os.path.abspath(__file__))))
from vlib import harness  # noqa: E402

PROP = "C19"
KINDS = ("int", "tup", "nest", "qubit")
N_QUBITS = 8
TYPES = {"int": "int", "tup": "tuple[int, bool]", "nest": "array[int, 2]", "qubit": "qubit"}

EXCLUDE = set()  # {"unpack.starred_len0"} until the defect was fixed in /repo (61da38c)
if os.environ.get("C19_EXCLUDE") is not None:
    _e = os.environ["C19_EXCLUDE"].strip()
    EXCLUDE = set() if _e in ("", "none") else {x.strip() for x in _e.split(",")}

HEADER = None


def header():
    global HEADER
    if HEADER is None:
        from vlib import runner

        HEADER = runner.PRELUDE + '''from guppylang.std.quantum import x, cx, measure_array, discard_array
from guppylang.std.builtins import mem_swap

@guppy
def swap2(a: array[int, 2], b: array[int, 2]) -> None:
    t = a[0]
    a[0] = b[0]
    b[0] = t
    t = a[1]
    a[1] = b[1]
    b[1] = t

'''
    return HEADER


# ------------------------------------------------------------------------------- model + renderer
def init_vals(kind, n):
    if kind == "int":
        return [100 + k for k in range(n)]
    if kind == "tup":
        return [[100 + k, int(k % 2 == 0)] for k in range(n)]
    if kind == "nest":
        return [[200 + 10 * k, 201 + 10 * k] for k in range(n)]
    return [0] * n


def elem_lit(kind, v):
    if kind == "int":
        return str(v)
    if kind == "tup":
        return f"({v[0]}, {bool(v[1])})"
    return f"array({v[0]}, {v[1]})"


def uses_starred_len0(script):
    """the confirmed crash class: a starred unpacking whose source has static length 0"""
    if script["n"] != 0:
        return False
    for op in list(script["ops"]) + [script["final"]]:
        if (op[0] == "unpack" and op[2]) or (op[0] == "unpack_copy" and op[3]):
            return True
    return False


class Interp:
    """Renders a script and runs the list model alongside.  After the first operation that must
    panic the expected stream stops growing (the source is still rendered to its end)."""

    def __init__(self, script, barriers=()):
        self.s = script
        self.barriers = set(barriers)   # positions whose marker sits in its own basic block
        self.kind = script["kind"]
        self.n = script["n"]
        self.lines = []
        self.args = []          # run-time argument values, parameter names p0, p1, ...
        self.exp = []           # expected stream
        self.panic_at = None    # position of the operation that must panic
        self.why = None         # "neg" | "high" | "double"
        self.m = {"xs": init_vals(self.kind, self.n)}
        self.tmp = 0
        self.labels = set()

    # -- helpers
    def arg(self, v):
        self.args.append(int(v))
        return f"p{len(self.args) - 1}"

    def fresh(self, base):
        self.tmp += 1
        return f"{base}{self.tmp}"

    def emit(self, tag, val):
        if self.panic_at is None:
            self.exp.append((tag, val))

    def line(self, text, ind=1):
        self.lines.append("    " * ind + text)

    def report(self, expr, val, ind=1, kind=None):
        """source + expected events for reporting one element-valued expression"""
        kind = kind or self.kind
        if kind == "int":
            self.line(f'result("v", {expr})', ind)
        elif kind == "tup":
            self.line(f'result("v0", {expr}[0])', ind)
            self.line(f'result("v1", {expr}[1])', ind)
        else:
            self.line(f'result("w", {expr})', ind)
        if self.live():
            self._ev(val, kind)

    def check_idx(self, pos, idxs, length=None):
        """first index outside 0 <= i < length makes the operation panic"""
        length = self.n if length is None else length
        for i in idxs:
            if not 0 <= i < length:
                self.fail(pos, "neg" if i < 0 else "high")
                return False
        return True

    def fail(self, pos, why):
        if self.panic_at is None:
            self.panic_at = pos
            self.why = why

    def live(self):
        return self.panic_at is None

    def result_array(self, tag, var, vals, ind=1):
        """whole-array result of the array variable `var`; selene 0.4.3 corrupts its result stream on a
        zero-length array result (toolchain gap), so for length 0 the length is reported instead"""
        if len(vals) == 0:
            self.line(f'result("len0", len({var}))', ind)
            self.emit("len0", 0)
        else:
            self.line(f'result("{tag}", {var})', ind)
            self.emit(tag, list(vals))

    def dump_index(self, var, vals, kind=None):
        for k, v in enumerate(vals):
            self.report(f"{var}[{k}]", v, kind=kind)

    # -- operations
    def run(self):
        s, kind, n = self.s, self.kind, self.n
        ty = TYPES[kind]
        var0 = "qs" if kind == "qubit" else "xs"
        if kind == "qubit":
            self.m = {"qs": [0] * n}
            if n == 0:
                self.line("qs: array[qubit, 0] = array()")
            else:
                self.line(f"qs = array(qubit() for _ in range({n}))")
        elif n == 0:
            self.line(f"xs: array[{ty}, 0] = array()")
        else:
            self.line("xs = array(" + ", ".join(elem_lit(kind, v) for v in self.m["xs"]) + ")")
        for pos, op in enumerate(s["ops"]):
            self.marker(pos)
            getattr(self, "op_" + op[0])(pos, *op[1:])
        pos = len(s["ops"])
        self.marker(pos)
        if "ys" in self.m:   # the copy is dumped before the original is consumed
            self.dump_index("ys", self.m["ys"])
        getattr(self, "fin_" + s["final"][0])(var0, *s["final"][1:])
        self.line('result("end", 0)')
        self.emit("end", 0)
        return self

    def marker(self, pos):
        """position marker; as a barrier it is wrapped in an `if` on a run-time flag: the statements
        before and after it then live in different basic blocks (HUGR leaves a `result` and an
        independent array operation of the same block unordered, see the module docstring)"""
        if pos in self.barriers:
            self.line("if g:")
            self.line(f'result("pos", {pos})', 2)
        else:
            self.line(f'result("pos", {pos})')
        self.emit("pos", pos)

    def op_read(self, pos, v, i):
        a = self.arg(i)
        ok = self.check_idx(pos, [i])
        self.report(f"{v}[{a}]", self.m[v][i] if ok and self.live() else None)

    def op_write(self, pos, v, i, val):
        a = self.arg(i)
        if self.kind == "int":
            self.line(f"{v}[{a}] = {self.arg(val)}")
        else:
            self.line(f"{v}[{a}] = ({self.arg(val[0])}, {bool(val[1])})")
        if self.check_idx(pos, [i]) and self.live():
            self.m[v][i] = val if self.kind == "int" else [val[0], int(val[1])]

    def op_aug(self, pos, v, i, val):
        self.line(f"{v}[{self.arg(i)}] += {self.arg(val)}")
        if self.check_idx(pos, [i]) and self.live():
            self.m[v][i] += val

    def op_swap(self, pos, v, i, j):
        a, b = self.arg(i), self.arg(j)
        if self.kind in ("int", "tup") and (i == j or pos % 2 == 0):
            t = self.fresh("t")
            self.line(f"{t} = {v}[{a}]")
            self.line(f"{v}[{a}] = {v}[{b}]")
            self.line(f"{v}[{b}] = {t}")
            ok = self.check_idx(pos, [i, j])
        else:
            self.line(f"mem_swap({v}[{a}], {v}[{b}])")
            ok = self.check_idx(pos, [i, j])
            if ok and i == j:
                self.fail(pos, "double")
                ok = False
        if ok and self.live():
            self.m[v][i], self.m[v][j] = self.m[v][j], self.m[v][i]

    def op_swap2(self, pos, v, i, j):
        self.line(f"swap2({v}[{self.arg(i)}], {v}[{self.arg(j)}])")
        ok = self.check_idx(pos, [i, j])
        if ok and i == j:
            self.fail(pos, "double")
            ok = False
        if ok and self.live():
            self.m[v][i], self.m[v][j] = self.m[v][j], self.m[v][i]

    def op_rd2(self, pos, v, i, k):
        a, b = self.arg(i), self.arg(k)
        ok = self.check_idx(pos, [i]) and self.check_idx(pos, [k], 2)
        self.line(f'result("v", {v}[{a}][{b}])')
        if ok:
            self.emit("v", self.m[v][i][k])

    def op_wr2(self, pos, v, i, k, val):
        self.line(f"{v}[{self.arg(i)}][{self.arg(k)}] = {self.arg(val)}")
        if self.check_idx(pos, [i]) and self.check_idx(pos, [k], 2) and self.live():
            self.m[v][i][k] = val

    def op_len(self, pos, v):
        self.line(f'result("len", len({v}))')
        self.emit("len", len(self.m[v]))

    def op_copy(self, pos):
        self.line("ys = xs.copy()")
        self.m["ys"] = [list(e) if isinstance(e, list) else e for e in self.m["xs"]]
        self.labels.add("copy")

    def op_dump(self, pos, v, style):
        vals = self.m[v]
        if style == "index":
            self.dump_index(v, vals)
        elif style == "range":
            k = self.fresh("k")
            self.line(f"for {k} in range({len(vals)}):")
            if self.kind == "tup":
                self.line(f'result("v0", {v}[{k}][0])', 2)
                self.line(f'result("v1", {v}[{k}][1])', 2)
            else:
                self.line(f'result("{"v" if self.kind == "int" else "w"}", {v}[{k}])', 2)
            for e in vals:
                self._ev(e)
        elif style == "for_copy":
            e_ = self.fresh("e")
            self.line(f"for {e_} in {v}.copy():")
            self._rep_loopvar(e_)
            for e in vals:
                self._ev(e)
            self.labels.add("for")
        else:  # whole-array result (int only)
            self.result_array("arr", v, vals)

    def _ev(self, e, kind=None):
        kind = kind or self.kind
        if kind == "int":
            self.emit("v", e)
        elif kind == "tup":
            self.emit("v0", e[0])
            self.emit("v1", int(e[1]))
        else:
            self.emit("w", list(e))

    def _rep_loopvar(self, name, ind=2):
        if self.kind == "tup":
            self.line(f'result("v0", {name}[0])', ind)
            self.line(f'result("v1", {name}[1])', ind)
        else:
            self.line(f'result("{"v" if self.kind == "int" else "w"}", {name})', ind)

    def op_comp(self, pos, v, style):
        vals = self.m[v]
        z = self.fresh("zs")
        self.labels.add("comprehension")
        if style == "plus":      # int
            self.line(f"{z} = array(e + 1 for e in {v}.copy())")
            out, okind = [e + 1 for e in vals], "int"
        elif style == "idx":     # int / tup: borrowed capture inside the comprehension
            self.line(f"{z} = array({v}[k] for k in range({len(vals)}))")
            out, okind = list(vals), self.kind
        elif style == "ident":   # int / tup
            self.line(f"{z} = array(e for e in {v}.copy())")
            out, okind = list(vals), self.kind
        else:                    # nest: idx2
            self.line(f"{z} = array({v}[k][1] for k in range({len(vals)}))")
            out, okind = [e[1] for e in vals], "int"
        self.dump_index(z, out, kind=okind)

    def _unpack(self, src_expr, vals, left, star, right, how, qubit=False):
        names = [self.fresh("a") for _ in range(left)]
        r = self.fresh("r") if star else None
        rnames = [self.fresh("b") for _ in range(right)]
        pat = names + ([f"*{r}"] if star else []) + rnames
        self.line(f"[{', '.join(pat)}] = {src_expr}" if len(pat) == 1 and star else
                  f"{', '.join(pat)}{',' if len(pat) == 1 else ''} = {src_expr}")
        self.labels.add("unpack:" + ("no star" if not star else "star only" if not (left or right) else
                                     "star first" if not left else "star last" if not right else "star middle"))
        mid = vals[left:len(vals) - right]

        def rep1(name, val):
            if qubit:
                self.line(f'result("m", measure({name}))')
                self.emit("m", val)
            else:
                self.report(name, val)

        for nm, val in zip(names, vals[:left]):
            rep1(nm, val)
        if star:
            if qubit and how == "measure_array":
                b_ = self.fresh("bs")
                self.line(f"{b_} = measure_array({r})")
                self.result_array("mb", b_, mid)
            elif how == "index" and not qubit:
                self.line(f'result("len", len({r}))')
                self.emit("len", len(mid))
                self.dump_index(r, mid)
            else:
                e_ = self.fresh("e")
                self.line(f"for {e_} in {r}:")
                if qubit:
                    self.line(f'result("m", measure({e_}))', 2)
                    for b in mid:
                        self.emit("m", b)
                else:
                    self._rep_loopvar(e_)
                    for e in mid:
                        self._ev(e)
        for nm, val in zip(rnames, vals[len(vals) - right:] if right else []):
            rep1(nm, val)

    def op_unpack_copy(self, pos, v, left, star, right, how):
        self._unpack(f"{v}.copy()", self.m[v], left, star, right, how)

    # qubit operations
    def op_x(self, pos, i):
        self.line(f"x(qs[{self.arg(i)}])")
        if self.check_idx(pos, [i]) and self.live():
            self.m["qs"][i] ^= 1

    def op_reset(self, pos, i):
        self.line(f"reset(qs[{self.arg(i)}])")
        if self.check_idx(pos, [i]) and self.live():
            self.m["qs"][i] = 0

    def op_cx(self, pos, i, j):
        self.line(f"cx(qs[{self.arg(i)}], qs[{self.arg(j)}])")
        ok = self.check_idx(pos, [i, j])
        if ok and i == j:
            self.fail(pos, "double")
            ok = False
        if ok and self.live():
            self.m["qs"][j] ^= self.m["qs"][i]

    def op_qswap(self, pos, i, j):
        self.line(f"mem_swap(qs[{self.arg(i)}], qs[{self.arg(j)}])")
        ok = self.check_idx(pos, [i, j])
        if ok and i == j:
            self.fail(pos, "double")
            ok = False
        if ok and self.live():
            q = self.m["qs"]
            q[i], q[j] = q[j], q[i]

    # final phases
    def fin_drop(self, var):
        if self.kind == "qubit":
            self.line("discard_array(qs)")

    def fin_for(self, var):
        self.labels.add("for")
        self.line(f"for e in {var}:")
        if self.kind == "qubit":
            self.line('result("m", measure(e))', 2)
            for b in self.m[var]:
                self.emit("m", b)
        else:
            self._rep_loopvar("e")
            for e in self.m[var]:
                self._ev(e)

    def fin_comp(self, var):
        self.labels.add("comprehension")
        if self.kind == "qubit":
            self.line("bs = array(measure(q) for q in qs)")
            self.result_array("mb", "bs", self.m[var])
        else:
            self.line(f"zs = array(e for e in {var})")
            self.dump_index("zs", self.m[var])

    def fin_measure_array(self, var):
        self.line("bs = measure_array(qs)")
        self.result_array("mb", "bs", self.m[var])

    def fin_unpack(self, var, left, star, right, how):
        self._unpack(var, self.m[var], left, star, right, how, qubit=self.kind == "qubit")


def interpret(script):
    """two passes: the first finds the operation that must panic, the second renders with barrier
    markers right before and after it (plus the drawn ones)"""
    drawn = {k for k in range(len(script["ops"]) + 1) if script.get("bars", 0) >> k & 1}
    it = Interp(script, drawn).run()
    if it.panic_at is not None:
        it = Interp(script, drawn | {it.panic_at, it.panic_at + 1}).run()
    return it


def render(idx, it):
    params = ", ".join(["g: bool"] + [f"p{k}: int" for k in range(len(it.args))])
    return f"@guppy\ndef s{idx}({params}) -> None:\n" + "\n".join(it.lines) + "\n"


def lit(v):
    return str(v) if v >= 0 else f"-{-v}"


def program(scripts):
    """-> (source, [Interp])"""
    its = [interpret(s) for s in scripts]
    parts = [header()]
    main = ["@guppy\ndef main() -> None:\n"]
    for i, it in enumerate(its):
        parts.append(render(i, it))
        main.append(f'    result("script", {i})\n    s{i}({", ".join(["True"] + [lit(a) for a in it.args])})\n')
    main.append('    result("done", 0)\n')
    return "\n".join(parts) + "\n" + "".join(main), its


def split(stream):
    segs = {}
    cur = None
    for t, v in stream:
        if t == "script":
            cur = v
            segs[cur] = []
        elif t == "done":
            cur = None
        elif cur is not None:
            segs[cur].append((t, v))
    return segs


def op_at(script, exp, k):
    """name of the operation during which stream position k is produced"""
    pos = None
    for t, v in exp[:k + 1]:
        if t == "pos":
            pos = v
    if pos is None:
        return "init"
    if pos >= len(script["ops"]):
        return "final_" + script["final"][0]
    return script["ops"][pos][0]


def judge(script, it, seg, panicked, message):
    """seg: this script's part of the stream; panicked: the program panicked while this script was
    the running one.  -> None | (bucket, detail)"""
    exp = it.exp
    kind = script["kind"]
    src = "\n".join(it.lines)
    call = f"args {it.args}"
    if it.panic_at is None:
        if seg == exp:
            if panicked:   # full stream incl. the end marker, then a panic: cannot happen inside the script
                return (f"{kind}.panic_after_end", f"panic ({message}) after the script's end marker\n{src}\n{call}")
            return None
    else:
        # must panic: the stream is the model's up to and including the marker of the failing operation
        # (that marker and the next one are barriers, so nothing can be pending or run ahead)
        what = script["ops"][it.panic_at][0]
        if seg == exp:
            if not panicked:
                return (f"{what}.no_panic.{it.why}",
                        f"operation #{it.panic_at} {script['ops'][it.panic_at]} must panic ({it.why}) but the program "
                        f"ended without a panic after {seg[-3:]}\n{src}\n{call}")
            if not message.strip():
                return (f"{kind}.empty_panic_message", src)
            return None
    # first difference
    k = 0
    while k < len(seg) and k < len(exp) and seg[k] == exp[k]:
        k += 1
    if it.panic_at is not None and k == len(exp):
        what = script["ops"][it.panic_at][0]
        return (f"{what}.no_panic.{it.why}",
                f"operation #{it.panic_at} ({script['ops'][it.panic_at]}) must panic ({it.why}); instead the program went on: "
                f"{seg[k:k + 6]}" + (f" and panicked later: {message}" if panicked else " and finished") +
                f"\n{src}\n{call}")
    where = op_at(script, exp, min(k, len(exp) - 1))
    if k == len(seg) and panicked:
        return (f"{kind}.{where}.unexpected_panic",
                f"panic ({message}) after {seg[max(0, k - 3):k]}; the model continues with {exp[k:k + 4]}\n{src}\n{call}")
    return (f"{kind}.{where}.wrong_value",
            f"stream position {k}: observed {seg[k:k + 4]} expected {exp[k:k + 4]}"
            + (f" (then panic: {message})" if panicked else "") + f"\n{src}\n{call}")


def run_scripts(scripts):
    """-> (verdicts, status): verdict None | (bucket, detail) | "unreached" | "unsupported";
    status "ok" | ("harness", msg)"""
    from vlib import runner

    src, its = program(scripts)
    out, lm = runner.run_source(src, n_qubits=N_QUBITS)
    if lm is not None:
        lm.dispose()
    if out.kind == "unsupported":
        return ["unsupported"] * len(scripts), "ok"
    if out.kind == "rejected":
        return None, ("harness", f"generated program rejected: {out.message[-1500:]}\n{src}")
    if out.kind in ("crash", "invalid"):
        b = ("compile.crash." + runner.crash_bucket(out.exc)) if out.kind == "crash" else "compile.invalid_hugr"
        if len(scripts) == 1:
            msg = out.message[-1200:] if out.kind == "crash" else out.message[:1200]
            return [(b, f"{msg}\n" + "\n".join(its[0].lines))], "ok"
        return ["unreached"] * len(scripts), "ok"   # judged one by one by the caller
    segs = split(out.stream)
    last = max(segs) if segs else None
    vs = []
    for i, (s, it) in enumerate(zip(scripts, its)):
        if i not in segs:
            vs.append("unreached")
            continue
        vs.append(judge(s, it, segs[i], out.kind == "panic" and i == last, out.message))
    if out.kind == "panic" and last is None:
        return None, ("harness", f"panic before the first script: {out.message}")
    return vs, "ok"


PICK = '''
@guppy
def pick3() -> int:
    """three fair coins from the simulator: which script of the set runs is decided at run time,
    so one selene build serves every script of the set (a panic ends the whole run)"""
    k = 0
    q = qubit()
    h(q)
    if measure(q):
        k += 1
    q = qubit()
    h(q)
    if measure(q):
        k += 2
    q = qubit()
    h(q)
    if measure(q):
        k += 4
    return k

'''


_SEED_FOR = None


def seed_table():
    """emulator seed -> value of pick3(), measured once per process with a program that only picks
    (the coins are the first thing every selection program does, so the table carries over; a run
    whose marker disagrees with the table is still judged by its own marker)"""
    global _SEED_FOR
    if _SEED_FOR is None:
        from vlib import qrun, runner

        _SEED_FOR = {}
        src = (header() + "from guppylang.std.quantum import h\n" + PICK +
               '@guppy\ndef main() -> None:\n    result("script", pick3())\n')
        lm = runner.load_module(src)
        try:
            out, pkg = runner.compile_def(lm.mod.main)
            built = qrun.build_pkg(pkg, N_QUBITS)[1] if out.kind == "ok" else None
        finally:
            lm.dispose()
        if built is not None:
            try:
                for seed in range(1, 61):
                    if len(_SEED_FOR) == 8:
                        break
                    o = built.run(seed)
                    if o.kind == "ok" and o.stream and o.stream[0][0] == "script":
                        _SEED_FOR.setdefault(o.stream[0][1], seed)
            finally:
                built.dispose()
    return _SEED_FOR


def run_select_set(scripts, max_runs=None):
    """Several scripts that each end the run with a panic, in ONE build: `main` draws k from three
    measured |+> qubits and runs only script k; the build is re-run under emulator seeds 1, 2, ...
    until every script was picked (or 5*len runs).  -> (verdicts, status) like run_scripts; scripts never
    picked are "unreached" (the caller runs them alone)."""
    from vlib import qrun, runner

    K = len(scripts)
    assert 1 <= K <= 8
    its = [interpret(s) for s in scripts]
    parts = [header(), "from guppylang.std.quantum import h\n", PICK]
    main = ["@guppy\ndef main() -> None:\n", f"    k = pick3() % {K}\n", '    result("script", k)\n']
    for i, it in enumerate(its):
        parts.append(render(i, it))
        main.append(f'    {"if" if i == 0 else "elif"} k == {i}:\n'
                    f'        s{i}({", ".join(["True"] + [lit(a) for a in it.args])})\n')
    main.append('    result("done", 0)\n')
    src = "\n".join(parts) + "\n" + "".join(main)
    try:
        lm = runner.load_module(src)
    except BaseException as e:  # noqa: BLE001
        return None, ("harness", f"generated module does not load: {e!r}\n{src}")
    try:
        out, pkg = runner.compile_def(lm.mod.main)
        if out.kind == "rejected":
            return None, ("harness", f"generated program rejected: {out.message[-1500:]}\n{src}")
        if out.kind != "ok":
            return ["unreached"] * K, "ok"     # crash: judged one by one by the caller
        v = runner.validate_pkg(pkg)
        if v.kind != "ok":
            return ["unreached"] * K, "ok"
        out, built = qrun.build_pkg(pkg, N_QUBITS)
        if built is None:
            return ["unsupported"] * K, "ok"
    finally:
        lm.dispose()
    vs = ["unreached"] * K
    try:
        table = seed_table()
        seeds = [table[k] for k in range(K) if k in table]
        seeds += [x for x in range(1, (max_runs or 5 * K) + 1) if x not in seeds]
        for seed in seeds:
            if "unreached" not in vs:
                break
            o = built.run(seed)
            if o.kind not in ("ok", "panic"):
                return None, ("harness", f"selection run failed: {o.brief()[:800]}")
            segs = split(o.stream)
            if len(segs) != 1:
                return None, ("harness", f"selection run without a script marker: {o.stream[:6]} {o.message}")
            (k, seg), = segs.items()
            if vs[k] == "unreached":
                vs[k] = judge(scripts[k], its[k], seg, o.kind == "panic", o.message.split("\n")[0])
    finally:
        built.dispose()
    return vs, "ok"


# ------------------------------------------------------------------------------- probes / replay
PROBES = {
    # [*r] = xs with xs: array[int, 0]  -> IndexError in StmtChecker._check_unpack_assign (rhs_elts[0])
    "compile.crash.IndexError@stmt_checker.py:_check_unpack_assign": {
        "scripts": [{"kind": "int", "n": 0, "ops": [], "final": ["unpack", 0, True, 0, "for"], "mode": "clean"}]},
}

GAP_PROBE = '''
@guppy
def main() -> None:
    xs = array(10, 11, 12, 13)
    a, *r = xs
    result("by_index", r[0])
    result("whole", r)
'''


def replay(case):
    if "probe" in case:
        case = PROBES[case["probe"]]
    if "src" in case:  # place-expression program (stage 2)
        from vlib.effects_eval import evaluate

        stt, bucket, detail = evaluate(case["src"])
        return ("place." + bucket, detail) if stt == "mismatch" else None
    vs, st = run_scripts(case["scripts"])
    if st != "ok":
        raise harness.HarnessError(st[1])
    for v in vs:
        if isinstance(v, tuple):
            return v
    return None


# ------------------------------------------------------------------------------- strategies
def strategies():
    from hypothesis import strategies as st

    val = st.integers(-50, 50)

    @st.composite
    def script(draw, mode):
        kind = draw(st.sampled_from(KINDS))
        n = draw(st.sampled_from([0, 1, 1, 2, 2, 3, 3, 4, 5, 6]))
        if mode == "double" and (kind not in ("nest", "qubit") or n == 0):
            kind = draw(st.sampled_from(["nest", "qubit"]))
            n = max(n, 1)
        idx = st.integers(0, n - 1) if n else None
        have_ys = False
        ops = []

        def var():
            return draw(st.sampled_from(["xs", "ys"])) if have_ys else "xs"

        def pair(distinct):
            i = draw(idx)
            j = draw(idx)
            if distinct and i == j:
                j = (i + 1 + draw(st.integers(0, n - 2))) % n
            return i, j

        for _ in range(draw(st.integers(0, 7))):
            if kind == "qubit":
                c = ["len"] + (["x", "x", "reset"] if n else []) + (["cx", "cx", "qswap"] if n >= 2 else [])
                o = draw(st.sampled_from(c))
                if o == "len":
                    ops.append(["len", "qs"])
                elif o in ("x", "reset"):
                    ops.append([o, draw(idx)])
                else:
                    ops.append([o, *pair(True)])
                continue
            c = ["len", "dump", "comp"]
            if kind != "nest":
                c += ["copy", "copy", "unpack_copy"]
            if n:
                c += ["read", "read", "swap"]
                c += {"int": ["write", "write", "write", "aug", "aug"], "tup": ["write", "write", "write"],
                      "nest": ["rd2", "wr2", "wr2", "swap2"]}[kind]
            o = draw(st.sampled_from(c))
            if o == "len":
                ops.append(["len", var()])
            elif o == "copy":
                if have_ys:
                    ops.append(["len", "ys"])
                else:
                    ops.append(["copy"])
                    have_ys = True
            elif o == "dump":
                styles = {"int": ["index", "range", "for_copy", "result"], "tup": ["index", "range", "for_copy"],
                          "nest": ["index", "range"]}[kind]
                ops.append(["dump", var(), draw(st.sampled_from(styles))])
            elif o == "comp":
                styles = {"int": ["plus", "idx", "ident"], "tup": ["idx", "ident"], "nest": ["idx2"]}[kind]
                ops.append(["comp", var(), draw(st.sampled_from(styles))])
            elif o == "unpack_copy":
                ops.append(["unpack_copy", var(), *draw(pattern(n))])
            elif o == "read":
                ops.append(["read", var(), draw(idx)])
            elif o == "write":
                v = draw(val) if kind == "int" else [draw(val), int(draw(st.booleans()))]
                ops.append(["write", var(), draw(idx), v])
            elif o == "aug":
                ops.append(["aug", var(), draw(idx), draw(val)])
            elif o == "swap":
                if kind == "nest":
                    if n < 2:
                        ops.append(["read", "xs", draw(idx)])
                    else:
                        ops.append(["swap", "xs", *pair(True)])
                else:
                    ops.append(["swap", var(), *pair(False)])
            elif o == "swap2":
                if n < 2:
                    ops.append(["rd2", "xs", draw(idx), draw(st.integers(0, 1))])
                else:
                    ops.append(["swap2", "xs", *pair(True)])
            elif o == "rd2":
                ops.append(["rd2", "xs", draw(idx), draw(st.integers(0, 1))])
            elif o == "wr2":
                ops.append(["wr2", "xs", draw(idx), draw(st.integers(0, 1)), draw(val)])

        if kind == "qubit":
            fin = draw(st.sampled_from(["measure_array", "for", "comp", "unpack", "unpack"]))
        else:
            fin = draw(st.sampled_from(["for", "comp", "unpack", "unpack", "drop"]))
        final = ["unpack", *draw(pattern(n, qubit=kind == "qubit"))] if fin == "unpack" else [fin]

        if mode != "clean":
            # exactly one inserted operation of the drawn failure class
            neg = st.integers(-n - 2, -1)
            high = st.integers(n, n + 2)
            bad = {"neg": neg, "high": high, "any": st.one_of(neg, high)}.get(mode)
            v = "xs" if kind != "qubit" else "qs"
            if mode == "double":
                i = draw(st.integers(0, n - 1))
                o = (["swap2", "xs", i, i] if draw(st.booleans()) else ["swap", "xs", i, i]) if kind == "nest" else \
                    (["cx", i, i] if draw(st.booleans()) else ["qswap", i, i])
            else:
                b = draw(bad)
                other = draw(idx) if n else draw(bad)
                two = [b, other] if draw(st.booleans()) else [other, b]
                if kind == "qubit":
                    o = draw(st.sampled_from([["x", b], ["reset", b], ["cx", *two], ["qswap", *two]]))
                elif kind == "nest":
                    inner_bad = draw(st.sampled_from([-3, -2, -1, 2, 3, 4]))
                    c = [["read", v, b], ["rd2", v, b, draw(st.integers(0, 1))], ["wr2", v, b, draw(st.integers(0, 1)), draw(val)],
                         ["swap", v, *two], ["swap2", v, *two]]
                    if n:
                        c += [["rd2", v, other, inner_bad], ["wr2", v, other, inner_bad, draw(val)]]
                    o = draw(st.sampled_from(c))
                else:
                    wv = draw(val) if kind == "int" else [draw(val), 1]
                    c = [["read", v, b], ["write", v, b, wv], ["swap", v, *two]]
                    if kind == "int":
                        c.append(["aug", v, b, draw(val)])
                    o = draw(st.sampled_from(c))
                    if have_ys and draw(st.booleans()):
                        o[1] = "ys"
            at = draw(st.integers(0, len(ops)))
            if o[0] != "copy" and len(o) > 1 and o[1] == "ys":
                # ys exists only after the copy
                first = next(k for k, x in enumerate(ops) if x[0] == "copy")
                at = max(at, first + 1)
            ops.insert(at, o)
        bars = draw(st.sampled_from([0, 0, 1, 2])) and draw(st.integers(0, 2 ** (len(ops) + 1) - 1))
        return {"kind": kind, "n": n, "ops": ops, "final": final, "mode": mode, "bars": bars}

    def pattern(n, qubit=False):
        @st.composite
        def pat(draw):
            star = draw(st.sampled_from([True, True, True, False])) or n == 0
            if not star:
                left, right = n, 0
            else:
                left = draw(st.integers(0, n))
                right = draw(st.integers(0, n - left))
                if draw(st.integers(0, 3)) == 0:
                    left, right = draw(st.sampled_from([(0, 0), (n, 0), (0, n), (0, min(1, n)), (min(1, n), 0)]))
            how = draw(st.sampled_from(["for", "index", "measure_array"] if qubit else ["for", "index"]))
            if qubit and how == "index":
                how = "for"
            return [left, star, right, how]
        return pat()

    clean = script("clean")
    bad = st.sampled_from(["neg", "neg", "high", "high", "double", "double", "any"]).flatmap(script)
    mixed = st.sampled_from(["clean"] * 10 + ["neg", "neg", "high", "high", "double", "double", "double", "any"]).flatmap(script)
    return clean, bad, mixed


def labels_of(script, it):
    labs = {f"kind:{script['kind']}", f"n={script['n']}" if script["n"] in (0, 6) else "n=1..5"}
    labs |= it.labels
    if it.panic_at is not None:
        labs.add("must panic: " + {"neg": "negative index", "high": "index >= n", "double": "same element lent twice"}[it.why])
        if it.panic_at > 0:
            labs.add("panic after earlier operations")
    for op in script["ops"]:
        if op[0] in ("swap2", "cx", "qswap") or (op[0] == "swap" and script["kind"] == "nest"):
            labs.add("two elements lent to one call")
    if "copy" in it.labels and any(op[0] in ("write", "aug", "swap") for op in script["ops"]):
        labs.add("write after copy (aliasing would show)")
    star = any(lb.startswith("unpack:star") for lb in it.labels)
    nt = it.panic_at is not None or star
    return nt, sorted(labs)


# ------------------------------------------------------------------------------- worker
def worker(ctx):
    from hypothesis import strategies as st
    from vlib import runner

    ctx.notes["EXCLUDE"] = sorted(EXCLUDE)
    # toolchain probe: whole-array read of an array that went through pop_left (DESIGN 1.4 candidate)
    if ctx.shard == 0:
        o, lm = runner.run_source(runner.PRELUDE + GAP_PROBE, n_qubits=1)
        if lm is not None:
            lm.dispose()
        ctx.notes["toolchain:whole_array_read_after_pop_left"] = (
            f"{o.kind} {o.stream}  (correct would be by_index=11, whole=[11, 12, 13]; star remainders are "
            f"therefore never read through result(array)/copy() in generated scripts)")
        ctx.unsupported_case("result(array)/copy() of a starred-unpack remainder behind left patterns: not generated "
                             "(selene reads it from the wrong offset)")

    clean, bad, _mixed = strategies()
    NC = ctx.params["clean_batch"]
    # one Hypothesis example = one script: ~60 % clean (buffered, NC per program), ~40 % must panic (built alone)
    one = strategies()[2]
    NSEL = ctx.params["select_set"]
    first_seen = {}
    pending = []
    pending_bad = []

    def record(s, r):
        first_seen.setdefault(r[0], s)
        ctx.violation(r[0], {"scripts": [s]}, r[1])

    def count(s, v):
        it = interpret(s)
        nt, labs = labels_of(s, it)
        ctx.case(s, nt, labels=labs + (["nontrivial"] if nt else []),
                 sample={"script": s, "source": "\n".join(it.lines), "args": it.args,
                         "expected_stream": str(it.exp)[:300], "must_panic": it.why})

    def eval_program(scripts, depth=0):
        if not scripts:
            return
        vs, stt = run_scripts(scripts)
        if stt != "ok":
            ctx.harness_error(stt[1])
            return
        redo = []
        for i, (s, v) in enumerate(zip(scripts, vs)):
            if v == "unreached":
                redo.append(s)
                continue
            if v == "unsupported":
                ctx.unsupported_case("selene could not build/run the program")
                continue
            count(s, v)
            if v:
                if len(scripts) > 1:
                    v1, st1 = run_scripts([s])   # confirm alone so that the replay case is self-contained
                    if st1 == "ok" and isinstance(v1[0], tuple):
                        record(s, v1[0])
                    else:
                        ctx.violation(v[0] + "@batch-only", {"scripts": scripts}, v[1])
                else:
                    record(s, v)
        if redo and depth < 6:
            if len(redo) == len(scripts):
                # nothing was judged (the program did not compile): one by one
                for s in redo:
                    eval_program([s], depth + 1)
            else:
                eval_program(redo, depth + 1)

    def eval_select(scripts):
        """scripts that must panic: one build, the running script selected at run time"""
        vs, stt = run_select_set(scripts)
        if stt != "ok":
            ctx.harness_error(stt[1])
            return
        ctx.label("select-set builds")
        for s, v in zip(scripts, vs):
            if v == "unsupported":
                ctx.unsupported_case("selene could not build/run the program")
            elif v == "unreached" or v:
                # never picked, or a mismatch: run it in a program of its own (self-contained replay case)
                ctx.label("must-panic script run alone")
                eval_program([s])
            else:
                count(s, v)

    def admit(s):
        if uses_starred_len0(s):
            ctx.label("starred unpack of a length-0 array drawn")
            if "unpack.starred_len0" in EXCLUDE:
                ctx.exclude("unpack.starred_len0: starred unpacking of a length-0 array (compiler crash class)")
                return False
        return True

    def body(s):
        if not admit(s):
            return
        if s["mode"] == "clean":
            if not s["ops"] and s["n"] == 0 and pending:
                ctx.exclude("degenerate script (Hypothesis' minimal example: empty array, no operations) not built twice")
                return
            pending.append(s)
            if len(pending) >= NC:
                batch = list(pending)
                del pending[:]
                eval_program(batch)
        else:
            pending_bad.append(s)
            if len(pending_bad) >= NSEL:
                batch = list(pending_bad)
                del pending_bad[:]
                eval_select(batch)

    # ---- stage 2: element places with computed indices.  GenEffects statements whose subject is an array
    # element (xs[i] = v, xs[i] op= v, xss[i][j] op= v, an inner array xss[i] / xsss[i][j] lent to a call, an
    # index that is itself an element `sel[0]` which the right-hand side changes), the indices being
    # expression trees over reporting helpers: the element read, written or given back must be the one
    # CPython touches and every index expression runs exactly once.
    from vlib.effects_eval import evaluate
    from vlib.gen import effects

    def place_body(b):
        stt, bucket, detail = evaluate(b["src"])
        parts = b["parts"]
        verdicts = [("ok", None, None)] * len(parts) if stt == "ok" else [evaluate(p_["src"]) for p_ in parts]
        for p_, (st1, b1, d1) in zip(parts, verdicts):
            src = p_["src"]
            for e in p_["excluded"]:
                ctx.exclude("place programs: C05 known class " + e)
            if st1 == "generr":
                ctx.harness_error(d1 + "\n" + src)
                continue
            if st1 == "unsupported":
                ctx.unsupported_case("selene could not build/run the program")
                continue
            if st1 in ("outside", "toolong"):
                ctx.label("place:outside:" + str(b1))
                continue
            ctx.case(src, st1 == "ok", labels=["place"] + ["place:" + l for l in p_["labels"] if l.startswith("stmt:")],
                     sample={"place_program": src[src.index("def p"):] if "def p" in src else src[src.index("def main"):]})
            if st1 == "mismatch":
                ctx.violation("place." + b1, {"src": src}, d1 + "\n" + src[src.index("def main"):])

    def run_place(n_batches, time_frac, extra_seed):
        if n_batches:
            harness.hyp_search(ctx, effects.program_batches(k=5, allow_known=False, kinds=effects.PLACE_KINDS), place_body,
                               max_examples=n_batches, chunk=5, time_frac=time_frac, extra_seed=extra_seed)

    # half of the place programs run before the scripts, the rest afterwards, so that a slow machine cannot
    # squeeze this stage out
    run_place((ctx.params.get("n_place", 0) + 1) // 2, 0.25, 11)


    harness.hyp_search(ctx, one, body, max_examples=ctx.params["n"], chunk=50, time_frac=0.75)
    if pending and not ctx.out_of_time(0.9):
        eval_program(list(pending))
        del pending[:]
    if pending_bad and not ctx.out_of_time(0.9):
        eval_select(list(pending_bad))
        del pending_bad[:]

    run_place(ctx.params.get("n_place", 0) // 2, 0.9, 12)

    n_unsup = sum(v for k, v in ctx.unsupported.items() if k.startswith("selene could not"))
    if n_unsup > 0.1 * max(1, ctx.evaluations + n_unsup):
        ctx.harness_error(f"{n_unsup} scripts could not be built/run by selene ({ctx.evaluations} judged): the generator "
                          "produces a shape the toolchain cannot execute")

    # minimise every new bucket: drop operations one at a time while the bucket stays
    for bucket, s0 in list(first_seen.items()):
        if ctx.out_of_time(0.9):
            break
        cur = s0
        changed = True
        while changed and not ctx.out_of_time(0.9):
            changed = False
            for k in range(len(cur["ops"])):
                cand = dict(cur, ops=cur["ops"][:k] + cur["ops"][k + 1:], bars=0)
                if any(len(o) > 1 and o[1] == "ys" for o in cand["ops"]) and not any(o[0] == "copy" for o in cand["ops"]):
                    continue
                if any(o[0] == "copy" for o in cand["ops"]):
                    ci = next(i for i, o in enumerate(cand["ops"]) if o[0] == "copy")
                    if any(len(o) > 1 and o[1] == "ys" for o in cand["ops"][:ci]):
                        continue
                try:
                    r = replay({"scripts": [cand]})
                except harness.HarnessError:
                    continue
                if r and r[0] == bucket:
                    cur = cand
                    changed = True
                    ctx.violation(bucket, {"scripts": [cur]}, r[1])
                    break

    for k, (b, case) in enumerate(sorted(PROBES.items())):
        if k % ctx.nshards != ctx.shard:
            continue
        try:
            r = replay(case)
        except BaseException as e:  # noqa: BLE001
            ctx.notes["probe:" + b] = f"probe crashed: {e!r}"
            continue
        ctx.notes["probe:" + b] = (("still fails: " + r[1][-700:]) if r else "passes now") + (
            f"  [bucket now {r[0]}]" if r and r[0] != b else "")


SPEC = harness.Spec(
    PROP, worker, replay,
    rule=("one Hypothesis example = one script of 0-8 operations + a consuming final phase over one array of n in 0..6 elements (int, tuple[int,bool], "
          "array[int,2], qubit), every index and written value a run-time function argument; modes: clean, or one inserted "
          "operation with a negative index, an index >= n (up to n+2), or the same element lent twice to one call. Clean "
          "scripts share a program, scripts that must panic are built alone. non-trivial = script that must panic or that "
          "contains a starred unpacking; distinct = distinct script. Stage 2 (place programs): GenEffects statements over "
          "element places with computed indices (xs[i] = v, xs[i] op= v, xss[i][j] op= v, inner arrays xss[i] / xsss[i][j] "
          "lent to a call, an index `sel[0]` that the right-hand side changes), 5 programs per build, emulator result "
          "stream compared with CPython's; non-trivial there = accepted and run"),
    assumptions=["oracle = Python list model restricted to 0 <= i < n; any other index or a double borrow must panic at that "
                 "operation: stream equal to the model's up to the operation's position marker, non-empty panic message",
                 "panic texts are not compared (borrow/return panics come from the runtime's borrow_array, the classical "
                 "get/set ones from guppylang's unwrap)",
                 "whole-element assignment to a non-copyable element (xs[i] = array(..) on nested arrays) panics "
                 "'Array already contains an element' by design and is not generated",
                 "selene 0.4.3 executes the lowered copy of the package (compat bridge); whole-array reads of pop_left "
                 "remainders are a toolchain gap and not generated",
                 "qubit arrays are observed in the computational basis only (X, CX, swap, reset on |0..0>)"],
    shards={"quick": 16, "thorough": 16},
    budget_s={"quick": 180, "thorough": 1500},
    params={"quick": {"n": 80, "clean_batch": 16, "select_set": 8, "n_place": 5},
            "thorough": {"n": 800, "clean_batch": 16, "select_set": 8, "n_place": 120}},
    min_nontrivial=40,
)

if __name__ == "__main__":
    harness.main(SPEC)
