"""C11 Compiling a definition does not depend on session history.

Domain: histories (Hypothesis-drawn lists of 3-14 steps) over one interpreter session holding a pool
of ~40 definitions: functions calling each other, a generic function and a generic struct at two
instantiations, a nested recursive capturing closure, comptime functions, an overloaded function,
arrays / comptime constants, a quantum function, two GenProg-drawn functions per pool, failing
definitions (type error, linearity error, Python exception and Guppy error inside a comptime body,
a comptime expression calling a Guppy function, broken structs, broken overload variants), and a
*scoped section* drawn per seed (scoped_specs): definitions created at module level and inside 2-3
Python functions (local scopes), each with 0-3 nested functions (recursive or not, capturing or not,
each possibly calling a module-level function) whose names, like the global names the bodies use, come
from one small universe - so a name is at the same time a module-level guppy function, a nested
function of a definition in another scope, a guppy function local to a Python scope, or bound nowhere.
Steps: check / compile / compile_function of any definition, definition of an unrelated new function,
(thorough) emulate.
Each history runs in a forked child of a pristine interpreter (guppylang imported, nothing defined or
compiled), so a history is exactly a session.
Oracle: the outcome of every step - canonical HUGR (JSON serial form, i.e. including the order of the
function definitions in the module, with generated %tmp names renumbered in first-occurrence order) or
rendered diagnostic / exception - equals the outcome of the same single step in a fresh interpreter
with empty history.  References are computed on demand (RefStore) and shared between the shards."""
import hashlib
import json
import os
import re
import subprocess
import sys

sys.path.insert(0, os.path.dirname(os.path.dirname(os.path.abspath(__file__))))
from vlib import harness  # noqa: E402

PROP = "C11"

POOL_HEAD = '''from guppylang import guppy
from guppylang.std.builtins import *
from guppylang.std.builtins import result, array, owned, comptime, nat, panic
from guppylang.std.quantum import qubit, measure, discard, h, cx
from typing import Generic

T = guppy.type_var("T")
n = guppy.nat_var("n")

@guppy.struct
class Box(Generic[T]):
    x: T
    k: int

@guppy
def gen(x: T, y: int) -> tuple[T, int]:
    return x, y + 1

@guppy
def useboxes(a: int, b: float) -> float:
    p = Box(a, 1)
    q = Box(b, 2)
    r, s = gen(p.x, q.k)
    u, v = gen(q.x, p.k)
    return u + r + s + v

@guppy
def closure(x: int) -> int:
    y = x if x > 0 else -x
    def inner(z: int) -> int:
        if z <= 0:
            return y
        return inner(z - 1) + 1
    return inner(y) + gen(3, 4)[1]

@guppy.comptime
def ct(x: int) -> int:
    acc = x
    for i in (0, 1, 2):
        acc = acc * 2 + i
    return acc

@guppy.comptime
def ct2(x: int, y: float) -> float:
    return ct(x) + y * 2

@guppy
def ov_i(x: int) -> int:
    return x + 1

@guppy
def ov_f(x: float) -> int:
    return 2

@guppy.overload(ov_i, ov_f)
def ov(): ...

@guppy
def arrs(k: int) -> int:
    xs = comptime([1, 2, 3])
    ys = array(i * k for i in range(4))
    s = 0
    for v in ys:
        s += v
    return s + xs[1] + ov(k) + ov(1.5)

@guppy
def quantum(q: qubit @owned, c: bool) -> bool:
    h(q)
    if c:
        r = qubit()
        cx(q, r)
        discard(r)
    return measure(q)

@guppy
def lenof(xs: array[int, n]) -> int:
    return len(xs)

@guppy
def main() -> None:
    result("a", closure(3) + ct(2))
    result("b", useboxes(1, 2.5))
    result("c", arrs(3) + lenof(array(1, 2)) + lenof(array(1, 2, 3)))
    result("d", ct2(1, 0.5))
    result("q", quantum(qubit(), True))

@guppy
def hi(x: int) -> int:
    return x

@guppy
def bad_type(x: int) -> bool:
    y = x + 1
    return y

@guppy
def bad_lin(c: bool) -> None:
    q = qubit()
    if c:
        discard(q)

@guppy.comptime
def bad_ct_py(x: int) -> int:
    y = [1, 2][5]
    return x

@guppy.comptime
def bad_ct_guppy(x: int) -> int:
    q = qubit()
    return x

@guppy
def bad_pycall() -> int:
    return comptime(hi(2))

@guppy
def bad_undef() -> int:
    return undefined_name + 1

@guppy
def calls_bad() -> int:
    return bad_undef() + hi(1)

@guppy
def bad_first(x: int) -> int:
    return x + "a"

@guppy
def bad_second(x: int) -> int:
    return x + 1.0

@guppy
def calls_two_bad(x: int) -> int:
    y = x + 1
    return bad_first(y) + bad_second(2)

@guppy
def ov_broken(x: bool) -> int:
    # the signature is fine (and does not match an int argument), the body is ill-typed
    return x + 1.5

@guppy.overload(ov_broken, ov_i)
def ov2(): ...

@guppy
def uses_ov2(k: int) -> int:
    return ov2(k) + 1

@guppy.struct
class BadS:
    xs: array[float]
    n: int

@guppy.struct
class HoldsBad:
    b: BadS
    m: int

@guppy
def uses_bad_struct(s: BadS) -> int:
    return s.n

@guppy
def uses_bad_struct2(h: HoldsBad) -> int:
    return h.m

@guppy
def makes_bad_struct() -> int:
    return HoldsBad(BadS(array(1.5), 1), 2).m
'''

# ----------------------------------------------------------------------------- scoped pool section
# Definitions created inside Python functions (local scopes) and definitions holding nested functions:
# a Hypothesis-drawn spec (see scoped_specs) rendered to source.  Bare names are drawn from a small
# universe so that the same name is frequently a module-level guppy function, a nested function of
# some definition in another scope, a local guppy function of a scope, or bound nowhere.
SC_GLOBALS = ["sg0", "sg1", "sg2", "sg3"]   # module-level guppy functions int -> int
SC_FREE = "sfree"                            # bound nowhere
SC_PRIVATE = ["p0", "p1", "p2"]              # names used for nested functions only

# Input classes left out by construction (AUTHORING requirement 1), each behind this switch:
#  same_scope_nested_name_clash: a non-capturing recursive nested function N of definition D is made
#    visible by writing N into the namespace of the frame D was created in (f_locals).  On the unchanged
#    tree that entry stays there for the rest of the session: every OTHER definition created by the same
#    frame (for module-level D: the whole module) that uses the bare name N as a global resolves it to
#    the consumed nested function of the earlier check (internal KeyError: DefId) - unless N is a local
#    variable of that Python function, which the next frame.f_locals sync restores.  Reported as a
#    finding (bucket ...nested_name_leak.same_scope); the generator renames such nested functions to a
#    private name while the switch is set.
EXCLUDE = set()  # {"same_scope_nested_name_clash"} was excluded until the defect was fixed in /repo (3ae49ce)


def scoped_specs(st, max_local_scopes=3):
    gname = st.sampled_from(SC_GLOBALS * 3 + [SC_FREE])
    nname = st.sampled_from(SC_GLOBALS * 2 + [SC_FREE] + SC_PRIVATE)
    nested = st.fixed_dictionaries({
        "name": nname, "rec": st.sampled_from([True, True, False]), "cap": st.sampled_from([False, False, False, True]),
        "calls": st.sampled_from(SC_GLOBALS * 2 + [None])})
    defn = st.fixed_dictionaries({
        "nested": st.lists(nested, min_size=0, max_size=3, unique_by=lambda n: n["name"]),
        "uses": st.lists(gname, min_size=1, max_size=2, unique=True),
        "dep": st.integers(-4, 4),  # which earlier visible scoped definition is called (mod count; <= 0: none)
        "noarg": st.booleans()})

    @st.composite
    def spec(draw):
        scopes = [{"level": "module", "shadows": [], "defs": draw(st.lists(defn, min_size=2, max_size=2))}]
        for _ in range(draw(st.integers(2, max_local_scopes))):
            scopes.append({"level": "local",
                           "shadows": draw(st.lists(st.sampled_from(SC_GLOBALS), max_size=1)),
                           "defs": draw(st.lists(defn, min_size=2, max_size=2))})
        return {"scopes": scopes}

    return spec()


def scoped_normalise(spec, exclude=EXCLUDE):
    """name the definitions, resolve the `dep` draws, drop uses shadowed by an own nested function and
    (while excluded) rename nested functions that would clash within their own frame.
    -> (spec, number of renamed nested functions)"""
    spec = json.loads(json.dumps(spec))
    mod_names = []
    for si, sc in enumerate(spec["scopes"]):
        earlier = []
        for di, d in enumerate(sc["defs"]):
            d["id"] = f"s{si}d{di}"
            own = {n["name"] for n in d["nested"]}
            d["uses"] = [u for u in d["uses"] if u not in own]
            for n in d["nested"]:
                if n["calls"] in own:
                    n["calls"] = None
            visible = earlier + ([] if sc["level"] == "module" else mod_names)
            k = d.pop("dep", 0) if "dep" in d else None
            if k is not None:
                d["calls_defs"] = [visible[(k - 1) % len(visible)]] if (k > 0 and visible) else []
            earlier.append(d["id"])
        if sc["level"] == "module":
            mod_names += earlier
    renamed = 0
    if "same_scope_nested_name_clash" in exclude:
        for sc in spec["scopes"]:
            for d in sc["defs"]:
                for n in d["nested"]:
                    if n["cap"] or not n["rec"] or n["name"] in SC_PRIVATE:
                        continue
                    if sc["level"] == "module":
                        clash = True   # the module namespace is what every definition of the module reads
                    else:
                        others = set()
                        for d2 in sc["defs"]:
                            if d2 is not d:
                                others |= set(d2["uses"]) | {m["calls"] for m in d2["nested"]}
                        clash = n["name"] in others and n["name"] not in sc["shadows"]
                    if clash:
                        free = [p for p in SC_PRIVATE + ["p3", "p4", "p5"] if p not in {m["name"] for m in d["nested"]}]
                        n["name"] = free[0]
                        renamed += 1
    return spec, renamed


def draw_scoped(st, pool_ctx, max_local_scopes):
    """normalised specs (with the number of renamed nested functions) among 100 seeded draws that hold the
    two targeted classes: several non-capturing nested functions pulling in different globals, and a
    recursive non-capturing nested function whose name is used as a global name from another scope
    (and in which at most a third of the definitions fail because they use the unbound name)"""
    specs = []
    want = {"several_pending_nested", "nested_name_used_in_other_scope", "mostly_well_formed"}

    def keep(sp):
        t = scoped_normalise(sp)
        if want <= scoped_classes(t[0]):
            specs.append(t)

    harness.hyp_search(pool_ctx, scoped_specs(st, max_local_scopes), keep, max_examples=100, chunk=100, time_frac=1.0, extra_seed=5)
    return specs


def scoped_index(spec):
    """id -> (scope index, definition)"""
    return {d["id"]: (si, d) for si, sc in enumerate(spec["scopes"]) for d in sc["defs"]}


def scoped_render(spec):
    idx = scoped_index(spec)
    out = []
    for i, g in enumerate(SC_GLOBALS):
        out += ["@guppy", f"def {g}(x: int) -> int:", f"    return x * {i + 2} + {i + 1}", ""]

    def render_def(d, ind):
        L = [ind + "@guppy"]
        if d["noarg"]:
            L += [ind + f"def {d['id']}() -> int:", ind + "    x = 3"]
        else:
            L += [ind + f"def {d['id']}(x: int) -> int:"]
        L.append(ind + "    y = x + 1")
        for n in d["nested"]:
            cap = " + y" if n["cap"] else ""
            L.append(ind + f"    def {n['name']}(k: int) -> int:")
            if n["rec"]:
                L += [ind + "        if k <= 0:", ind + f"            return 1{cap}",
                      ind + f"        return {n['name']}(k - 1) + " + (f"{n['calls']}(k)" if n["calls"] else "1")]
            else:
                L.append(ind + "        return " + (f"{n['calls']}(k)" if n["calls"] else "k") + f" + 2{cap}")
        L.append(ind + "    r = y")
        for n in d["nested"]:
            L.append(ind + f"    r = r + {n['name']}(x)")
        for u in d["uses"]:
            L.append(ind + f"    r = r + {u}(y)")
        for c in d["calls_defs"]:
            L.append(ind + f"    r = r + {c}(" + ("" if idx[c][1]["noarg"] else "r") + ")")
        L += [ind + "    return r", ""]
        return L

    for si, sc in enumerate(spec["scopes"]):
        if sc["level"] == "module":
            for d in sc["defs"]:
                out += render_def(d, "")
            continue
        out.append(f"def _scope{si}():")
        for k, g in enumerate(sc["shadows"]):
            out += ["    @guppy", f"    def {g}(x: int) -> int:", f"        return x - {7 + si + k}", ""]
        for d in sc["defs"]:
            out += render_def(d, "    ")
        ids = [d["id"] for d in sc["defs"]]
        out += [f"    return [{', '.join(ids)}]", "", f"{', '.join(ids)}, = _scope{si}()", ""]
    return "\n".join(out) + "\n"


def scoped_closure(spec, did):
    """definitions checked when `did` is checked: itself and everything it calls (transitively)"""
    idx = scoped_index(spec)
    seen, todo = [], [did]
    while todo:
        x = todo.pop()
        if x in idx and x not in seen:
            seen.append(x)
            todo += idx[x][1]["calls_defs"]
    return seen


def scoped_leak_class(spec, earlier, did):
    """root-cause class of a history-dependent outcome of `did`: does a definition processed earlier
    hold a non-capturing recursive nested function whose name `did` (or something it calls) uses as a
    global name?  -> "" | ".nested_name_leak.same_scope" | ".nested_name_leak.other_scope" """
    if spec is None:
        return ""
    idx = scoped_index(spec)
    if did not in idx:
        return ""
    published = set()   # (scope index, name)
    for e in earlier:
        for x in scoped_closure(spec, e):
            si, d = idx[x]
            published |= {(si, n["name"]) for n in d["nested"] if n["rec"] and not n["cap"]}
    best = ""
    for x in scoped_closure(spec, did):
        si, d = idx[x]
        reads = set(d["uses"]) | {n["calls"] for n in d["nested"]}
        for (pi, name) in published:
            if name in reads:
                if pi == si or spec["scopes"][pi]["level"] == "module":
                    return ".nested_name_leak.same_scope"
                best = ".nested_name_leak.other_scope"
    return best


def scoped_classes(spec):
    """which of the targeted input classes a (normalised) spec contains"""
    out = set()
    for si, sc in enumerate(spec["scopes"]):
        for d in sc["defs"]:
            plain = [n for n in d["nested"] if not n["cap"]]
            if len({n["calls"] for n in plain if n["calls"]}) >= 2:
                out.add("several_pending_nested")
            if any(n["cap"] and n["rec"] for n in d["nested"]):
                out.add("capturing_recursive_nested")
            for n in plain:
                if not n["rec"] or n["name"] in SC_PRIVATE:
                    continue
                for sj, sc2 in enumerate(spec["scopes"]):
                    for d2 in sc2["defs"]:
                        if d2 is not d and n["name"] in set(d2["uses"]) | {m["calls"] for m in d2["nested"]}:
                            if sj != si and sc["level"] == "local":
                                out.add("nested_name_used_in_other_scope")
                            elif n["name"] in sc["shadows"]:
                                out.add("nested_name_is_scope_local")
                            else:
                                out.add("nested_name_used_in_same_scope")
    if any(sc["shadows"] for sc in spec["scopes"]):
        out.add("local_shadows_module_function")
    ids = list(scoped_index(spec))
    ill = [d for d in ids if any(SC_FREE in scoped_index(spec)[x][1]["uses"] for x in scoped_closure(spec, d))]
    if 3 * len(ill) <= len(ids):
        out.add("mostly_well_formed")   # at most a third of the definitions use the unbound name
    return out


GOOD = ["gen", "useboxes", "closure", "ct", "ct2", "ov_i", "ov", "arrs", "quantum", "lenof", "main", "hi", "g0", "g1"]
BAD = ["bad_type", "bad_lin", "bad_ct_py", "bad_ct_guppy", "bad_pycall", "bad_undef", "calls_bad", "calls_two_bad",
       "uses_bad_struct", "uses_bad_struct2", "makes_bad_struct", "uses_ov2", "bad_first", "bad_second"]
DEFS = GOOD + BAD
OPS = ["check", "compile_function", "compile"]

_TMP = re.compile(r"%tmp\d+|__WithBlock__\(\d+\)")


def canonical(pkg):
    s = json.dumps(pkg._to_serial().model_dump(mode="json"), sort_keys=True)
    seen = {}

    def rep(m):
        k = m.group(0)
        if k not in seen:
            seen[k] = f"%gen{len(seen)}"
        return seen[k]

    return hashlib.sha256(_TMP.sub(rep, s).encode()).hexdigest()


def func_order(pkg):
    """names of the function definitions / declarations of the module in child order (digits dropped);
    only for readable details - the comparison is on the canonical hash"""
    try:
        names = []
        for h in pkg.modules:
            for nd in h.children(h.module_root):
                nm = getattr(h[nd].op, "f_name", None)
                if nm is not None:
                    names.append(str(nm).rsplit(".", 1)[-1])
        return ",".join(names)[:300]
    except BaseException as e:  # noqa: BLE001
        return f"<{type(e).__name__}>"


# ----------------------------------------------------------------------------- sessions
def run_history(pool, history):
    """execute the steps in THIS interpreter (called in a forked child whose parent has imported
    guppylang but never defined or compiled anything: the same state as a fresh interpreter)"""
    import guppylang_internals.experimental as ex
    from guppylang_internals.error import GuppyComptimeError, GuppyError

    from vlib import runner

    ex.enable_experimental_features()
    lm = runner.load_module(pool, name="c11pool")
    out = []
    extra = 0
    for step in history:
        op = step[0]
        try:
            if op == "redefine":
                extra += 1
                src = (f"from guppylang import guppy\n@guppy\ndef extra{extra}(x: int) -> int:\n"
                       f"    y = x * {step[1]}\n    if y > 3:\n        return y\n    return x\n")
                m2 = runner.load_module(src, name=f"c11extra{extra}")
                with runner.quiet():
                    getattr(m2.mod, f"extra{extra}").compile_function()
                out.append(["ok", "redefined"])
                continue
            d = getattr(lm.mod, step[1])
            with runner.quiet():
                if op == "check":
                    d.check()
                    out.append(["ok", "checked"])
                elif op == "compile_function":
                    pkg = d.compile_function()
                    out.append(["ok", canonical(pkg), func_order(pkg)])
                elif op == "compile":
                    pkg = d.compile()
                    out.append(["ok", canonical(pkg), func_order(pkg)])
                elif op == "emulate":
                    r = d.emulator(n_qubits=3).with_seed(1).run()
                    out.append(["ok", json.dumps([[t, str(v)] for t, v in r.results[0].entries])])
        except GuppyError as e:
            try:
                msg = runner.render_error(e)
            except BaseException as e2:  # noqa: BLE001
                msg = f"<render failed {e2!r}>"
            out.append(["guppy_error", msg])
        except GuppyComptimeError as e:
            out.append(["comptime_error", str(e)[:400]])
        except BaseException as e:  # noqa: BLE001
            if isinstance(e, (KeyboardInterrupt, SystemExit)):
                raise
            out.append(["exception", type(e).__name__ + ": " + str(e)[:300]])
    return out


_PRISTINE = [True]
_WARM = [False]


def warm_imports():
    """import (only import) everything the pool module imports, so forked sessions do not pay for
    it again; importing the standard library is what any fresh session does first anyway"""
    if not _WARM[0]:
        import guppylang  # noqa: F401
        import guppylang.std.builtins  # noqa: F401
        import guppylang.std.quantum  # noqa: F401
        import guppylang_internals.experimental  # noqa: F401
        import guppylang.emulator  # noqa: F401
        import hugr.cli  # noqa: F401

        from vlib import runner  # noqa: F401

        # modules guppylang imports lazily at the first check / compile of a session
        import guppylang_internals.checker.linearity_checker  # noqa: F401
        import guppylang_internals.tracing.builtins_mock  # noqa: F401
        import guppylang_internals.tracing.frozenlist  # noqa: F401
        import guppylang_internals.tracing.function  # noqa: F401
        import guppylang_internals.tracing.unpacking  # noqa: F401

        # two interpreter-level (not guppylang) caches that make a forked session cheaper without changing
        # what it computes (page faults are what bounds the number of sessions per run here):
        # inspect's file -> module table, which the first @guppy of a module not yet listed rebuilds by
        # walking all of sys.modules - the names the sessions will use are entered beforehand; and a frozen
        # GC generation (no copy-on-write traffic from collections in the children)
        import gc
        import inspect

        inspect.getmodule(sys._getframe())
        for name in ["c11pool"] + [f"c11extra{i}" for i in range(1, 41)]:
            fn = f"/verifgen/{name}.py"
            inspect.modulesbyfile[fn] = name
            inspect._filesbymodname[name] = fn
        gc.collect()
        gc.freeze()
        _WARM[0] = True


def run_child(pool, history, tag):
    """one session = one forked child of this (pristine) process"""
    if not _PRISTINE[0]:
        raise harness.HarnessError("parent process is no longer pristine")
    warm_imports()
    r, w = os.pipe()
    sys.stdout.flush()
    sys.stderr.flush()
    pid = os.fork()
    if pid == 0:
        code = 0
        try:
            os.close(r)
            try:
                data = json.dumps(run_history(pool, history)).encode()
            except BaseException as e:  # noqa: BLE001
                import traceback

                data = json.dumps({"child_error": traceback.format_exc()[-1500:]}).encode()
            with os.fdopen(w, "wb") as f:
                f.write(data)
        finally:
            os._exit(code)
    os.close(w)
    chunks = []
    with os.fdopen(r, "rb") as f:
        while True:
            c = f.read(65536)
            if not c:
                break
            chunks.append(c)
    os.waitpid(pid, 0)
    try:
        out = json.loads(b"".join(chunks).decode())
    except ValueError:
        raise harness.HarnessError("session child produced no result")
    if isinstance(out, dict):
        raise harness.HarnessError("session child failed: " + out.get("child_error", ""))
    return out


def applicable(op, d):
    if op == "compile":  # entrypoint compile only makes sense for argument-less functions; others raise the
        return True      # documented EntrypointArgsError, which is just another reproducible outcome
    return True


def judge_history(pool, history, refs, scoped=None):
    """-> None or (bucket, detail); `scoped` = normalised spec of the scoped pool section (only used to
    name the root-cause class of a mismatch)"""
    got = run_child(pool, history, "h")
    if len(got) != len(history):
        return ("history.truncated", f"{len(got)} outcomes for {len(history)} steps")
    if hasattr(refs, "offer") and history and history[0][0] != "redefine":
        refs.offer(history[0], got[0])   # the first step of a session is a single step in a fresh session
    for i, (step, out) in enumerate(zip(history, got)):
        if step[0] == "redefine":
            if out[0] != "ok":
                return ("redefine.failed", f"step {i} {step}: {out}")
            continue
        ref = refs.get((step[0], step[1]))
        if ref is None:
            continue
        if out[:2] != ref[:2]:   # (a third element is a rendering for the detail text only)
            failed_before = [h for h, o in zip(history[:i], got[:i]) if o[0] != "ok"]
            kind = f"{ref[0]}->{out[0]}"
            cause = "after_failure" if failed_before else ("repeat" if step in history[:i] else "after_success")
            if kind == "ok->ok" and len(out) > 2 and len(ref) > 2 and sorted(out[2].split(",")) == sorted(ref[2].split(",")):
                # two HUGRs with the same functions: in a different order, or differing below the function list
                leak = ".function_order" if out[2] != ref[2] else ""
            else:
                leak = scoped_leak_class(scoped, [h[1] for h in history[:i] if h[0] != "redefine"], step[1])
            return (f"history_dependent.{kind}.{cause}{leak}",
                    f"step {i} {step} gave\n  {str(out)[:700]}\nbut in a fresh session it gives\n  {str(ref)[:700]}\nhistory: {history}")
    return None


def references(pool, ops, defs=None):
    refs = {}
    for d in (defs or DEFS):
        for op in ops:
            out = run_child(pool, [[op, d]], "ref")
            refs[(op, d)] = out[0]
    return refs


class RefStore:
    """fresh-session outcomes of single steps, computed when first needed (one forked fresh interpreter
    each) and shared between the shards through files in the run's work directory.  The first step of
    any history is by construction a single step in a fresh session, so its outcome is entered as well
    (`offer`) and saves a dedicated reference session."""

    def __init__(self, ctx, pool, on_new=None):
        self.ctx = ctx
        self.skipped = 0
        work = os.environ.get("VERIF_WORK") or os.path.join(harness.VERIF, ".work")
        self.dir = os.path.join(work, f"c11refs_{ctx.seed}_{ctx.tier}_{hashlib.sha1(pool.encode()).hexdigest()[:12]}")
        os.makedirs(self.dir, exist_ok=True)
        self.pool = pool
        self.mem = {}
        self.on_new = on_new
        self.computed = 0
        self.harvested = 0

    def _path(self, key):
        return os.path.join(self.dir, f"{key[0]}__{key[1]}.json")

    def _load(self, key):
        try:
            with open(self._path(key)) as f:
                return json.load(f)
        except (OSError, ValueError):
            return None

    def _store(self, key, out):
        tmp = self._path(key) + f".{os.getpid()}.tmp"
        with open(tmp, "w") as f:
            json.dump(out, f)
        os.replace(tmp, self._path(key))
        self.mem[key] = out
        if self.on_new:
            self.on_new(key, out)

    def get(self, key):
        key = (key[0], key[1])
        if key not in self.mem:
            out = self._load(key)
            if out is None:
                if self.ctx.out_of_time(0.8):   # no new reference sessions at the end of the budget:
                    self.skipped += 1           # the step is left unjudged (judge_history skips it)
                    return None
                out = run_child(self.pool, [list(key)], "ref")[0]
                self.computed += 1
                self._store(key, out)
            else:
                self.mem[key] = out
                if self.on_new:
                    self.on_new(key, out)
        return self.mem[key]

    def offer(self, key, out):
        key = (key[0], key[1])
        if key not in self.mem and self._load(key) is None:
            self.harvested += 1
            self._store(key, out)

    def __setitem__(self, key, out):
        self.mem[(key[0], key[1])] = out


def minimise(pool, history, refs, bucket, scoped=None):
    """greedy step removal keeping the same bucket"""
    h = list(history)
    i = 0
    while i < len(h) - 1 and len(h) > 1:
        cand = h[:i] + h[i + 1:]
        r = judge_history(pool, cand, refs, scoped)
        if r and r[0] == bucket:
            h = cand
        else:
            i += 1
    return h


def replay(case):
    refs = {}
    for step in case["history"]:
        if step[0] != "redefine" and (step[0], step[1]) not in refs:
            refs[(step[0], step[1])] = run_child(case["pool"], [step], "ref")[0]
    return judge_history(case["pool"], case["history"], refs, case.get("scoped"))


def worker(ctx):
    from hypothesis import strategies as st

    # two GenProg-drawn functions complete the pool (a pure function of seed and shard)
    sys.path.insert(0, harness.VERIF)
    from vlib.gen import prog

    drawn = []
    pool_ctx = harness.Ctx(PROP, 0, 1, ctx.seed, ctx.tier, ctx.budget_s, ctx.params)  # same pool in every shard
    harness.hyp_search(pool_ctx, prog.programs(n_funcs=(2, 2), max_depth=2, size=0.6), drawn.append, max_examples=1, chunk=1,
                       time_frac=1.0, extra_seed=3)
    body = drawn[0]["src"] if drawn else prog.STRUCT_SRC
    # rename its functions f0/f1/main -> g0/g1/gmain so they do not clash with the pool
    body = re.sub(r"\bf0\b", "g0", body)
    body = re.sub(r"\bf1\b", "g1", body)
    body = re.sub(r"\bmain\b", "gmain", body)
    if "def g1" not in body:
        body += "\n@guppy\ndef g1(x: int) -> int:\n    return x\n"
    if "def g0" not in body:
        body += "\n@guppy\ndef g0(x: int) -> int:\n    return x\n"
    # the scoped section: definitions created in local Python scopes / holding nested functions (same in
    # every shard; a pure function of the seed).  The first draws of a Hypothesis run are the simplest
    # ones, so a few are drawn and the last one that holds the targeted classes is kept.
    specs = draw_scoped(st, pool_ctx, ctx.params.get("local_scopes", 3))
    if not specs:
        ctx.harness_error("no scoped pool section with the targeted classes among 100 draws")
        return
    scoped, renamed = specs[-1]
    if renamed and ctx.shard == 0:
        ctx.exclude("same_scope_nested_name_clash: nested function renamed to a private name", renamed)
    sc_defs = sorted(scoped_index(scoped))
    pool = POOL_HEAD + "\n" + body + "\n" + scoped_render(scoped)
    ctx.notes["scoped_section"] = {"spec": scoped, "classes": sorted(scoped_classes(scoped))}
    ops = OPS + (["emulate"] if ctx.params.get("emulate") else [])
    # references are computed when first needed and shared between the shards (RefStore); the pool
    # classification is verified on every compile_function reference that becomes known
    # (comptime bodies are only traced by compile, so classification uses compile_function)
    wrong = {}

    def classify(key, out):
        if key[0] == "compile_function" and ((key[1] in BAD and out[0] == "ok") or (key[1] in GOOD and out[0] != "ok")):
            wrong[key[1]] = out

    refs = RefStore(ctx, pool, on_new=classify)
    if ctx.params.get("emulate"):
        refs[("emulate", "main")] = run_child(pool, [["emulate", "main"]], "ref")[0]

    step = st.one_of(
        st.tuples(st.sampled_from(OPS), st.sampled_from(DEFS)).map(list),
        st.tuples(st.sampled_from(OPS), st.sampled_from(BAD)).map(list),
        st.tuples(st.just("redefine"), st.integers(2, 5)).map(list),
        *([st.just(["emulate", "main"])] if ctx.params.get("emulate") else []),
    )

    scoped_ix = scoped_index(scoped)
    related = [[a, b] for a in sc_defs for b in sc_defs if a != b and scoped_leak_class(scoped, [a], b)]

    @st.composite
    def histories(draw):
        h = draw(st.lists(step, min_size=3, max_size=ctx.params["steps"]))
        # definitions of the scoped section (local Python scopes, nested functions) in between ...
        for _ in range(draw(st.integers(0, 3))):
            h.insert(draw(st.integers(0, len(h))), [draw(st.sampled_from(OPS)), draw(st.sampled_from(sc_defs))])
        # ... and two of them that are related by a bare name (one holds a recursive nested function
        # called N, the other one uses a global called N), in this order, anywhere in the history
        # (both before the biases below, whose adjacent pairs must stay adjacent)
        if related and draw(st.booleans()):
            d1, d2 = draw(st.sampled_from(related))
            i = draw(st.integers(0, len(h)))
            j = draw(st.integers(i, len(h)))
            h.insert(j, [draw(st.sampled_from(OPS)), d2])
            h.insert(i, [draw(st.sampled_from(OPS)), d1])
        # make repeats and "good after bad" frequent
        if draw(st.booleans()) and h:
            h.append(list(draw(st.sampled_from(h))))
        if draw(st.booleans()):
            h.insert(draw(st.integers(0, len(h) - 1)), [draw(st.sampled_from(OPS)), draw(st.sampled_from(BAD))])
            h.append([draw(st.sampled_from(OPS)), draw(st.sampled_from(GOOD))])
        # the same definition processed by two different operations back to back (e.g. a failed
        # check directly followed by a compile of the same definition)
        for _ in range(draw(st.integers(0, 2))):
            d = draw(st.sampled_from(BAD + BAD + GOOD))
            o1, o2 = draw(st.permutations(OPS))[:2]
            i = draw(st.integers(0, len(h)))
            h[i:i] = [[o1, d], [o2, d]]
        return h

    found = {}

    done = set()

    def body_fn(h):
        key = json.dumps(h)
        if key in done:   # (every chunk of a Hypothesis run, in every shard, starts with the same simplest history)
            return
        done.add(key)
        try:              # ... so a history is evaluated by the first shard that draws it only
            os.close(os.open(os.path.join(refs.dir, "seen_" + hashlib.sha1(key.encode()).hexdigest()), os.O_CREAT | os.O_EXCL | os.O_WRONLY))
        except FileExistsError:
            return
        r = judge_history(pool, h, refs, scoped)
        named = [s for s in h if s[0] != "redefine"]
        sc_steps = [s[1] for s in named if s[1] in sc_defs]
        sc_labels = []
        if sc_steps:
            sc_labels.append("scoped")
        if len(set(sc_steps)) >= 2:
            sc_labels.append("scoped:two_definitions")
        if any(scoped_leak_class(scoped, sc_steps[:k], sc_steps[k]) for k in range(1, len(sc_steps))):
            sc_labels.append("scoped:nested_name_then_user")
        if any(len([n for n in scoped_ix[d][1]["nested"] if not n["cap"]]) >= 2 for d in sc_steps):
            sc_labels.append("scoped:several_nested")
        repeat = len({tuple(s) for s in named}) < len(named)
        fail_then_ok = any(s[1] in BAD for s in named[:-1]) and any(s[1] in GOOD for s in named[1:])
        ctx.case(h, len(h) >= 4 and (repeat or fail_then_ok),
                 labels=[f"len:{min(len(h), 12)}"] + (["repeat"] if repeat else []) + (["fail_then_good"] if fail_then_ok else [])
                 + sorted({"op:" + s[0] for s in h}) + sc_labels,
                 sample={"history": h})
        if r:
            if r[0] not in found or len(h) < len(found[r[0]][0]):
                found[r[0]] = (h, r[1])

    harness.hyp_search(ctx, histories(), body_fn, max_examples=ctx.params["n"], chunk=10, time_frac=0.7)
    for bucket, (h, detail) in found.items():
        if not ctx.out_of_time(0.9):
            h2 = minimise(pool, h, refs, bucket, scoped)
            r = judge_history(pool, h2, refs, scoped)
            if r and r[0] == bucket:
                h, detail = h2, r[1]
        ctx.violation(bucket, {"pool": pool, "history": h, "scoped": scoped}, detail)
    ctx.notes["reference_outcomes"] = {f"{op}:{d}": v[0] for (op, d), v in sorted(refs.mem.items())}
    ctx.notes["reference_sessions"] = {"dedicated": refs.computed, "first_step_of_a_history": refs.harvested,
                                       "steps_left_unjudged_at_end_of_budget": refs.skipped}
    if wrong:
        ctx.harness_error(f"pool classification wrong (failing definition accepted / good definition rejected in a fresh session): "
                          + str(wrong)[:1500])


SPEC = harness.Spec(
    PROP, worker, replay,
    rule=("a history is a list of 3-14 steps (check / compile_function / compile of one of ~40 pool definitions: 28 fixed ones incl. 14 "
          "failing ones, 2 GenProg-drawn ones and 6-8 drawn per seed that are created at module level and inside Python functions and "
          "hold nested functions whose names clash with global names used from other scopes; definition+compile of an unrelated new "
          "function; thorough: emulate) executed in ONE fresh interpreter; each step's outcome "
          "(canonical HUGR hash, rendered diagnostic, or exception) is compared with the outcome of that single step in a fresh "
          "interpreter. Histories are biased to contain repeats, a failing step before a successful one, back-to-back operations on one "
          "definition, and a definition holding a recursive nested function N before one that uses a global N. non-trivial = history of "
          "length >= 4 with a repeated step or a failing definition processed before a good one; distinct = distinct history"),
    assumptions=["canonical form = JSON serial form of the package with %tmpN / __WithBlock__(N) names renumbered in first-occurrence order",
                 "diagnostics are compared as rendered text; module names are identical in every session",
                 "each history runs in its own interpreter process, so the session is exactly the history",
                 "the first step of a history is a single step in a fresh session, so its outcome may serve as the reference of that step",
                 "excluded by construction (EXCLUDE, reported as a finding): a non-capturing recursive nested function whose name another "
                 "definition created by the same frame (module-level: any definition of the module) uses as a global name"],
    shards={"quick": 16, "thorough": 16},
    budget_s={"quick": 100, "thorough": 1200},
    params={"quick": {"n": 60, "steps": 10, "local_scopes": 2}, "thorough": {"n": 1500, "steps": 14, "emulate": True}},
    min_nontrivial=5,
)

if __name__ == "__main__":
    harness.main(SPEC)
