"""C14 Copy/drop classification is structural and matches HUGR bounds.

Part 1 (types): GenTypes trees (nesting <= 4) over qubit / numerics / bool / str / None / function
types with tuples, arrays, options, frozenarrays, generated `@guppy.struct` definitions (generic
or not, legacy `Generic[...]` and PEP 695 syntax, incl. a struct with a qubit field, a generic box
and phantom parameters) and type variables of all four copy/drop bounds.  Every tree is turned
into a Guppy type twice (direct constructors / `check_instantiate`, and the user path
`type_from_ast` on the rendered annotation); at every node `.copyable`, `.droppable`,
`.hugr_bound` and `.to_hugr(ctx).type_bound()` are compared with a structural recursion written
from the property statement.

Part 1b (sequences): "exactly when all of its fields, elements and type arguments are" makes the
classification a function of the type's constituents.  One drawn type shape is instantiated 2-3
times so that the instantiations *print alike* but differ in copy/drop kind: type variables named
`T`/`U`/`V` whose bounds are drawn per item (the type parameters of different generic functions
`def f[T: Copy](..)`, `def g[T](..)`), and non-generic struct arguments swapped for a second struct
definition of the same class name (defined in another scope) that holds an int.  The items are
classified one after the other, in drawn order, against one freshly loaded module; each must agree
with the same structural recursion.  A mismatch that disappears when the item is classified alone
is filed as `order_dependent.<bucket>` with the shortest reproducing (earlier, later) pair.

Part 2 (programs): for affine types from the same generator a function receives (@owned) or
creates (declared `make()`, or a literal expression) a value and never uses it: it must compile,
validate and contain a `tket.guppy.drop` op fed by that value; copyable values and values that are
returned / passed to an @owned parameter / only borrowed must not be fed into a drop op.  Created
values live in the function body itself or (drawn) in an inner body: a `with control(q)` /
`with dagger` / `with power(2)` block, or a nested function that is plain, capturing, recursive or
both (experimental features are switched on for that).
"""
import ast
import os
import sys

sys.path.insert(0, os.path.dirname(os.path.dirname(os.path.abspath(__file__))))
from vlib import harness  # noqa: E402

PROP = "C14"

# Input classes left out by construction (AUTHORING requirement 1).
#  phantom_type_arg: a struct instantiation whose non-copyability stems only from a type argument
#  that occurs in no field outside a function type (`class P[T]: n: int`, `P[qubit]`).  The
#  statement makes the Guppy type non-copyable (type arguments count) and at the same time asks for
#  a non-copyable HUGR type, but the struct lowers to the tuple of its fields, which is copyable.
#  With the switch on, the HUGR side of such types is only checked in the sound direction
#  (Guppy copyable => HUGR copyable) and no drop is demanded for them; remove the entry to see the
#  bucket `hugr_bound.phantom_type_arg`.
EXCLUDE = {"phantom_type_arg"}

BOTH = ["int", "nat", "float", "bool", "str", "None"]
BOUNDS = {"L": (False, False), "A": (False, True), "C": (True, False), "B": (True, True)}
LEGACY_VARS = [f"T{k}{j}" for k in "LACB" for j in (0, 1)]
MAX_DEPTH = 4


# =========================================================================== oracle
def bound_of(v):
    """copy/drop bound of a type variable, encoded in its name (TL0, PA1, ...)."""
    return BOUNDS[v[1]]


def oracle(t, S, env=None, type_args_count=True):
    """(copyable, droppable) of type tree `t` by the property statement.  `S`: struct name ->
    definition, `env`: classification of the struct parameters while looking at a field.
    `type_args_count=False` gives the fields/elements-only reading used for the HUGR type of the
    excluded class `phantom_type_arg`."""
    k = t[0]
    if k == "b":
        return (False, False) if t[1] == "qubit" else (True, True)
    if k == "fn":
        return (True, True)
    if k == "v":
        return env[t[1]] if env is not None and t[1] in env else bound_of(t[1])
    if k == "array":
        return (False, oracle(t[1], S, env, type_args_count)[1])
    if k in ("opt", "farr"):
        parts = [oracle(t[1], S, env, type_args_count)]
    elif k == "tuple":
        parts = [oracle(x, S, env, type_args_count) for x in t[1]]
    else:  # struct instantiation
        args = [oracle(x, S, env, type_args_count) for x in t[2]]
        inner = dict(zip(S[t[1]]["params"], args))
        parts = (args if type_args_count else []) + [
            oracle(f, S, inner, type_args_count) for _, f in S[t[1]]["fields"]]
    return (all(c for c, _ in parts), all(d for _, d in parts))


def cls_name(cd):
    return {(False, False): "linear", (False, True): "affine", (True, False): "copyonly",
            (True, True): "both"}[tuple(cd)]


# =========================================================================== tree helpers
def children(t):
    k = t[0]
    if k in ("b", "v"):
        return []
    if k == "tuple":
        return list(t[1])
    if k in ("array", "opt", "farr"):
        return [t[1]]
    if k == "st":
        return list(t[2])
    return [x for x, _ in t[1]] + [t[2]]  # fn: inputs then output


def depth(t):
    ch = children(t)
    return 0 if not ch else 1 + max(depth(c) for c in ch)


def walk_trees(t):
    for c in children(t):
        yield from walk_trees(c)
    yield t


def struct_names(t, S, acc=None):
    """structs reachable from t (transitively through field types)"""
    acc = set() if acc is None else acc
    for n in walk_trees(t):
        if n[0] == "st" and n[1] not in acc:
            acc.add(n[1])
            for _, f in S[n[1]]["fields"]:
                struct_names(f, S, acc)
    return acc


def subst(t, m, S=None):
    """replace type variables; with `S`, `@owned` flags of function inputs that became copyable are
    removed (`int @owned` is not a valid annotation)"""
    k = t[0]
    if k == "v":
        return m.get(t[1], t)
    if k == "b":
        return t
    if k == "tuple":
        return ["tuple", [subst(x, m, S) for x in t[1]]]
    if k in ("array", "farr"):
        return [k, subst(t[1], m, S), t[2]]
    if k == "opt":
        return ["opt", subst(t[1], m, S)]
    if k == "st":
        return ["st", t[1], [subst(x, m, S) for x in t[2]]]
    ins = [[subst(x, m, S), o] for x, o in t[1]]
    if S is not None:
        ins = [[x, o and not oracle(x, S)[0]] for x, o in ins]
    return ["fn", ins, subst(t[2], m, S)]


SHORT = "TUV"


def var_display(v, disp=False):
    """display name of a type variable: its token (`TL0`, bound encoded) or, with `disp`, the short
    name `T`/`U`/`V` picked by the token's index only - variables of different bounds then print alike"""
    return SHORT[int(v[2:])] if disp else v


def ann(t, disp=False):
    """annotation source of a type tree (`disp`: type variables under their short display names)"""
    k = t[0]
    if k == "b":
        return t[1]
    if k == "v":
        return var_display(t[1], disp)
    if k == "tuple":
        return "tuple[()]" if not t[1] else "tuple[" + ", ".join(ann(x, disp) for x in t[1]) + "]"
    if k == "array":
        return f"array[{ann(t[1], disp)}, {t[2]}]"
    if k == "farr":
        return f"frozenarray[{ann(t[1], disp)}, {t[2]}]"
    if k == "opt":
        return f"Option[{ann(t[1], disp)}]"
    if k == "st":
        return t[1] + ("[" + ", ".join(ann(x, disp) for x in t[2]) + "]" if t[2] else "")
    ins = ", ".join(ann(x, disp) + (" @owned" if o else "") for x, o in t[1])
    return f"Callable[[{ins}], {ann(t[2], disp)}]"


def node_kind(t, S):
    if t[0] == "st":
        return "struct.generic" if S[t[1]]["params"] else "struct.plain"
    if t[0] in ("b", "v"):
        return t[0] + "." + (t[1] if t[0] == "b" else t[1][1])
    return t[0]


def features(t, S):
    noncopy_leaf = generic = False
    labs = set()
    for n in walk_trees(t):
        k = n[0]
        if (k == "b" and n[1] == "qubit") or k == "array" or (k == "v" and not bound_of(n[1])[0]):
            noncopy_leaf = True
        if k in ("tuple", "opt", "array", "farr") or (k == "st" and S[n[1]]["params"]):
            generic = True
        if k == "v":
            labs.add("var:" + n[1][1])
        elif k == "st":
            labs.add("has:" + node_kind(n, S))
        elif k != "b":
            labs.add("has:" + k)
        elif n[1] == "qubit":
            labs.add("has:qubit")
    return noncopy_leaf, generic, labs


# =========================================================================== module source
HEADER = "from __future__ import annotations\n"
IMPORTS = ("from typing import Generic, Callable\n"
           "from guppylang.std.option import Option, some, nothing\n"
           + "".join(f'{v} = guppy.type_var("{v}", copyable={bound_of(v)[0]}, droppable={bound_of(v)[1]})\n'
                     for v in LEGACY_VARS))
PY312_BOUND = {"L": "", "A": ": Drop", "C": ": Copy", "B": ": (Copy, Drop)"}


def render_struct(s):
    if s.get("cls") and s["cls"] != s["name"]:
        # a struct whose class name (= the name its type prints as) differs from the name it is bound
        # to: defined in a local scope, as two same-named definitions of one module have to be
        inner = render_struct(dict(s, name=s["cls"], cls=None))
        return (f"def _mk_{s['name']}():\n" + "".join("    " + ln + "\n" for ln in inner.rstrip("\n").split("\n"))
                + f"    return {s['cls']}\n\n{s['name']} = _mk_{s['name']}()\n\n")
    if s["py312"]:
        head = s["name"] + ("[" + ", ".join(p + PY312_BOUND[p[1]] for p in s["params"]) + "]"
                            if s["params"] else "")
    else:
        head = s["name"] + ("(Generic[" + ", ".join(s["params"]) + "])" if s["params"] else "")
    body = "".join(f"    {n}: {ann(f)}\n" for n, f in s["fields"]) or "    pass\n"
    return f"@guppy.struct\nclass {head}:\n{body}\n"


def render_module(structs, extra=""):
    from vlib import runner

    return HEADER + runner.PRELUDE + IMPORTS + "\n" + "".join(render_struct(s) for s in structs) + extra


def prune(structs, trees):
    S = {s["name"]: s for s in structs}
    need = set()
    for t in trees:
        struct_names(t, S, need)
    return [s for s in structs if s["name"] in need]


class GenReject(Exception):
    """the code under test rejected an oracle-valid type because of its copy/drop rules"""


def _classify_guppy_error(e):
    """-> bucket suffix if the rejection is about copyability/droppability, else None"""
    from vlib import runner

    try:
        msg = runner.render_error(e)
    except Exception:  # noqa: BLE001
        msg = repr(e)
    low = msg.lower()
    if "copyable" in low or "droppable" in low or "@owned" in low or "owned" in low:
        return type(e.error).__name__, msg
    return None, msg


class Mod:
    """A loaded module with the struct definitions of one struct set."""

    def __init__(self, structs):
        from guppylang_internals.checker.core import Globals
        from guppylang_internals.engine import DEF_STORE, ENGINE
        from vlib import runner

        self.structs = structs
        self.S = {s["name"]: s for s in structs}
        self.src = render_module(structs)
        self.lm = runner.load_module(self.src)
        self.checked = {n: ENGINE.get_checked(getattr(self.lm.mod, n).id) for n in self.S}
        self.qubit_def = ENGINE.get_checked(self.lm.mod.qubit.id)
        self.frame_id = self.lm.mod.TL0.id
        self.globals = Globals(DEF_STORE.frames[self.frame_id])
        self.key = harness.case_hash(structs)

    def dispose(self):
        self.lm.dispose()


# =========================================================================== building types
_LOC = ast.parse("T", mode="eval").body  # dummy location for diagnostics of check_instantiate


def build_direct(t, M, idx, disp=False):
    """Guppy type from internal constructors / `check_instantiate`."""
    from guppylang_internals.tys import builtin as B
    from guppylang_internals.tys import ty as T
    from guppylang_internals.tys.arg import ConstArg, TypeArg
    from guppylang_internals.tys.const import ConstValue

    k = t[0]
    if k == "b":
        n = t[1]
        if n == "qubit":
            return M.qubit_def.check_instantiate([])
        return {"int": B.int_type, "nat": B.nat_type, "float": B.float_type, "bool": B.bool_type,
                "str": B.string_type, "None": T.NoneType}[n]()
    if k == "v":
        c, d = bound_of(t[1])
        return T.BoundTypeVar(var_display(t[1], disp), idx.setdefault(t[1], len(idx)), c, d)
    if k == "tuple":
        return T.TupleType([build_direct(x, M, idx, disp) for x in t[1]])
    if k in ("array", "farr"):
        defn = B.array_type_def if k == "array" else B.frozenarray_type_def
        return defn.check_instantiate(
            [TypeArg(build_direct(t[1], M, idx, disp)), ConstArg(ConstValue(B.nat_type(), t[2]))], _LOC)
    if k == "opt":
        return B.option_type_def.check_instantiate([TypeArg(build_direct(t[1], M, idx, disp))], _LOC)
    if k == "st":
        return M.checked[t[1]].check_instantiate([TypeArg(build_direct(x, M, idx, disp)) for x in t[2]], _LOC)
    ins = []
    for x, o in t[1]:
        ty = build_direct(x, M, idx, disp)
        flags = T.InputFlags.Owned if o else (
            T.InputFlags.NoFlags if oracle(x, M.S)[0] else T.InputFlags.Inout)
        ins.append(T.FuncInput(ty, flags))
    return T.FunctionType(ins, build_direct(t[2], M, idx, disp))


def build_parsed(t, M, disp=False):
    """Guppy type through the user path: annotation text -> type_from_ast.  With `disp` the type
    variables are the type parameters of an enclosing generic function (`def f[T: Copy, U](..)`): short
    names resolved through the parameter mapping of the parsing context instead of module-level
    `guppy.type_var`s."""
    from guppylang_internals.tys.param import TypeParam
    from guppylang_internals.tys.parsing import TypeParsingCtx, type_from_ast

    node = ast.parse(ann(t, disp), mode="eval").body
    params = {}
    if disp:
        for n in walk_trees(t):
            if n[0] == "v" and var_display(n[1], True) not in params:
                nm = var_display(n[1], True)
                params[nm] = TypeParam(len(params), nm, *bound_of(n[1]))
    return type_from_ast(node, TypeParsingCtx(M.globals, params, allow_free_vars=not disp))


def sub_types(ty):
    from guppylang_internals.tys.arg import TypeArg

    return [a.ty for a in getattr(ty, "args", ()) if isinstance(a, TypeArg)]


def walk_pairs(t, ty):
    """post-order (tree node, Guppy subtype) pairs (subtypes located through `.args`, only used to
    localise a mismatch); a shape disagreement is a harness problem"""
    ch, sub = children(t), sub_types(ty)
    if len(ch) != len(sub):
        raise harness.HarnessError(f"shape mismatch at {ann(t)} vs {ty}: {len(ch)} / {len(sub)} children")
    for c, s in zip(ch, sub):
        yield from walk_pairs(c, s)
    yield t, ty


def hugr_contexts():
    import hugr.build.function as hf
    from guppylang_internals.compiler.core import CompilerContext
    from guppylang_internals.tys.common import QuantifiedToHugrContext

    return [("compiler", CompilerContext(hf.Module())), ("quantified", QuantifiedToHugrContext([]))]


_CTXS = None


def check_node(t, ty, S, path):
    """compare one (sub)type with the oracle -> None | (bucket, detail, excluded_flag)"""
    from hugr import tys as ht

    global _CTXS
    if _CTXS is None:
        _CTXS = hugr_contexts()
    oc, od = oracle(t, S)
    kind = node_kind(t, S)
    got = (bool(ty.copyable), bool(ty.droppable))
    if got[0] != oc:
        return (f"copyable.{kind}", f"[{path}] `{ann(t)}`: .copyable={got[0]}, statement says {oc}", False)
    if got[1] != od:
        return (f"droppable.{kind}", f"[{path}] `{ann(t)}`: .droppable={got[1]}, statement says {od}", False)
    fc = oracle(t, S, None, type_args_count=False)[0]
    phantom = fc != oc  # fields copyable, a phantom type argument is not
    accept = {oc}
    if phantom and "phantom_type_arg" in EXCLUDE:
        accept = {oc, fc}
    obs = [("hugr_bound_attr", lambda: ty.hugr_bound)]
    for nm, c in _CTXS:
        obs.append((f"to_hugr[{nm}].type_bound", lambda c=c: ty.to_hugr(c).type_bound()))
    for nm, f in obs:
        try:
            b = f()
        except Exception as e:  # noqa: BLE001
            return (f"to_hugr.raises.{type(e).__name__}.{kind}", f"[{path}] `{ann(t)}` {nm}: {e!r}", False)
        hc = b == ht.TypeBound.Copyable
        if hc not in accept:
            root = "hugr_bound_attr" if nm == "hugr_bound_attr" else "hugr_bound"
            b_kind = "phantom_type_arg" if phantom else kind
            return (f"{root}.{b_kind}",
                    f"[{path}] `{ann(t)}`: Guppy copyable={oc} but {nm} = {b}", False)
    if phantom:
        return ("", "", True)
    # requires_drop (the predicate insert_drops uses on HUGR types) must single out exactly the
    # droppable-but-not-copyable types; types that are not droppable are never dropped (unspecified)
    if oc or od:
        from guppylang_internals.compiler.core import requires_drop

        for nm, c in _CTXS:
            try:
                rd = requires_drop(ty.to_hugr(c))
            except Exception as e:  # noqa: BLE001
                return (f"requires_drop.raises.{type(e).__name__}.{kind}", f"[{path}] `{ann(t)}` {nm}: {e!r}", False)
            if rd != (not oc):
                return (f"requires_drop.{kind}", f"[{path}] `{ann(t)}` (copyable={oc}, droppable={od}): "
                        f"requires_drop(to_hugr[{nm}]) = {rd}", False)
    return None


def eval_type(M, tree, disp=False):
    """-> (violations [(bucket, culprit_tree, detail)], n_phantom_nodes)"""
    from guppylang_internals.error import GuppyError

    out, nph = [], 0
    for path, build in (("direct", lambda: build_direct(tree, M, {}, disp)),
                        ("parsed", lambda: build_parsed(tree, M, disp))):
        try:
            ty = build()
        except GuppyError as e:
            what, msg = _classify_guppy_error(e)
            if what is None:
                raise harness.HarnessError(f"generated type `{ann(tree)}` rejected ({path}): {msg}") from e
            out.append((f"type.rejected.{what}", tree, f"[{path}] oracle-valid type `{ann(tree)}` rejected:\n{msg}"))
            continue
        except harness.HarnessError:
            raise
        except Exception as e:  # noqa: BLE001
            out.append((f"type.build_raises.{type(e).__name__}", tree, f"[{path}] building `{ann(tree)}`: {e!r}"))
            continue
        for t, sty in walk_pairs(tree, ty):
            r = check_node(t, sty, M.S, path)
            if r is None:
                continue
            if r[2]:
                nph += 1
                continue
            out.append((r[0], t, r[1]))
            break  # deepest mismatching node = root-cause localisation
    return out, nph


# =========================================================================== sequences
UPGRADES = {"L": "LACB", "A": "AB", "C": "CB", "B": "B"}  # bounds at least as permissive


def twin_of(s):
    """a second struct definition that prints like the non-generic struct `s` (same class name, defined
    in a scope of its own) but holds an int only: copyable and droppable"""
    return {"name": s["name"] + "t", "cls": s["name"], "py312": s["py312"], "params": [],
            "fields": [["v", ["b", "int"]]], "best": [True, True]}


def retarget(t, vmap, smap, S):
    """same shape and same printed form (under display names), other constituents: type variables
    renamed by `vmap` (to variables of a more permissive bound), non-generic structs by `smap` (to their
    twins); `@owned` flags of inputs that became copyable are removed"""
    k = t[0]
    if k == "b":
        return t
    if k == "v":
        return ["v", vmap.get(t[1], t[1])]
    if k == "tuple":
        return ["tuple", [retarget(x, vmap, smap, S) for x in t[1]]]
    if k in ("array", "farr"):
        return [k, retarget(t[1], vmap, smap, S), t[2]]
    if k == "opt":
        return ["opt", retarget(t[1], vmap, smap, S)]
    if k == "st":
        if not t[2] and t[1] in smap:
            return ["st", smap[t[1]], []]
        return ["st", t[1], [retarget(x, vmap, smap, S) for x in t[2]]]
    ins = [[retarget(x, vmap, smap, S), o] for x, o in t[1]]
    ins = [[x, o and not oracle(x, S)[0]] for x, o in ins]
    return ["fn", ins, retarget(t[2], vmap, smap, S)]


def expand_seq(structs, base, maps):
    """-> (struct list incl. the twins used, [type tree per item])"""
    names = sorted({sm for _, smap in maps for sm in smap})
    S0 = {s["name"]: s for s in structs}
    structs = list(structs) + [twin_of(S0[n]) for n in names]
    S = {s["name"]: s for s in structs}
    return structs, [retarget(base, vmap, {n: n + "t" for n in smap}, S) for vmap, smap in maps]


def M_print(t, structs):
    """printed form of a tree: variables under display names, structs under their class names"""
    cls = {s["name"]: s.get("cls") or s["name"] for s in structs}
    out = ann(t, True)
    for n in sorted(cls, key=len, reverse=True):
        if cls[n] != n:
            out = out.replace(n, cls[n])
    return out


def eval_seq(structs, items):
    """the items (type trees, variables under their short display names) are classified one after the
    other against ONE freshly loaded module -> None | (index, bucket, culprit tree, detail) of the
    first item that disagrees with the statement's recursion"""
    M = Mod(structs)
    try:
        for i, t in enumerate(items):
            viol, _ = eval_type(M, t, disp=True)
            if viol:
                return (i,) + tuple(viol[0])
    finally:
        M.dispose()
    return None


def judge_seq(structs, items):
    """-> None | (bucket, minimal case dict, detail).  A mismatch that disappears when the item is
    classified alone (fresh module) is filed as `order_dependent.<bucket>`: the statement makes the
    classification a function of the type's constituents, not of what was classified before."""
    r = eval_seq(structs, items)
    if r is None:
        return None
    i, b, culprit, detail = r
    if i == 0 or eval_seq(structs, [items[i]]) is not None:
        best, bucket = [culprit], b
    else:
        bucket = "order_dependent." + b
        pos = [k for k, n in enumerate(walk_trees(items[i])) if n is culprit][0]
        best = items[: i + 1]
        for j in range(i):  # smallest reproducing pair: the corresponding subtrees, else the two items
            found = False
            for cand in ([list(walk_trees(items[j]))[pos], culprit], [items[j], items[i]]):
                rr = eval_seq(prune(structs, cand), cand)
                if rr is not None and rr[0] == 1 and rr[1] == b:
                    best, found = cand, True
                    break
            if found:
                break
        detail = (f"after classifying {[ann(x) for x in best[:-1]]} in the same module (both print as "
                  f"`{M_print(best[-1], structs)}`; alone the type is classified correctly): " + detail)
    case = {"kind": "seq", "bucket": bucket, "structs": prune(structs, best), "items": best}
    return bucket, case, detail


# =========================================================================== strategies
def make_strategies():
    from hypothesis import strategies as st

    def geq(b, need):
        return b[0] >= need[0] and b[1] >= need[1]

    def gen(draw, structs, S, vars_, d, need, top=False):
        """type tree of nesting <= d whose oracle classification is >= need (constructive)."""
        nc, nd = need
        leaves = [["b", b] for b in BOTH]
        if not nc and not nd:
            leaves += [["b", "qubit"]] * 6
        for v in vars_:
            if geq(bound_of(v), need):
                leaves += [["v", v]] * 4
        kinds = ["leaf"]
        elig = []
        if d > 0:
            kinds = ["tuple", "tuple", "opt", "farr", "fn"] + ([] if top else ["leaf", "leaf"])
            if not nc:
                kinds += ["array", "array"]
            elig = [s for s in structs if geq(s["best"], need)]
            if elig:
                kinds += ["st"] * 4
        k = draw(st.sampled_from(kinds))
        if k == "leaf":
            return draw(st.sampled_from(leaves))
        if k == "tuple":
            n = draw(st.sampled_from([0, 1, 2, 2, 3]))
            return ["tuple", [gen(draw, structs, S, vars_, d - 1, need) for _ in range(n)]]
        if k == "opt":
            return ["opt", gen(draw, structs, S, vars_, d - 1, need)]
        if k == "farr":
            return ["farr", gen(draw, structs, S, vars_, d - 1, (True, True)), draw(st.integers(0, 3))]
        if k == "array":
            return ["array", gen(draw, structs, S, vars_, d - 1, (False, nd)), draw(st.integers(0, 3))]
        if k == "st":
            s = draw(st.sampled_from(elig))
            args = []
            for p in s["params"]:
                pc, pd = bound_of(p)
                args.append(gen(draw, structs, S, vars_, d - 1, (pc or nc, pd or nd)))
            return ["st", s["name"], args]
        ins = []
        for _ in range(draw(st.integers(0, 2))):
            x = gen(draw, structs, S, vars_, d - 1, (False, False))
            ins.append([x, (not oracle(x, S)[0]) and draw(st.booleans())])
        return ["fn", ins, gen(draw, structs, S, vars_, d - 1, (False, False))]

    def finish(s, S):
        s["best"] = list(oracle(["st", s["name"], [["b", "int"] for _ in s["params"]]], S))
        return s

    @st.composite
    def struct_set(draw):
        structs = [
            {"name": "S0", "py312": False, "params": [], "fields": [["q", ["b", "qubit"]], ["n", ["b", "int"]]]},
            {"name": "S1", "py312": False, "params": ["TL0"], "fields": [["x", ["v", "TL0"]]]},
            {"name": "S2", "py312": True, "params": ["PL0"], "fields": [["n", ["b", "int"]]]},
        ]
        S = {}
        for s in structs:
            S[s["name"]] = s
            finish(s, S)
        for i in range(3, 3 + draw(st.integers(3, 5))):
            py312 = draw(st.booleans())
            kinds = draw(st.lists(st.sampled_from("LLACB"), max_size=2))
            params = []
            for kch in kinds:
                params.append(f"{'P' if py312 else 'T'}{kch}{sum(1 for p in params if p[1] == kch)}")
            fields = []
            for j, p in enumerate(params):  # most parameters occur in a field
                if draw(st.integers(0, 5)):
                    shape = draw(st.sampled_from(["v", "v", "tuple", "array", "opt", "fn"]))
                    v = ["v", p]
                    f = {"v": v, "tuple": ["tuple", [v, ["b", "int"]]], "array": ["array", v, 2],
                         "opt": ["opt", v], "fn": ["fn", [[v, False]], ["b", "int"]]}[shape]
                    fields.append([f"p{j}", f])
            for j in range(draw(st.integers(0, 2))):
                fields.append([f"f{j}", gen(draw, structs, S, params, 2, (False, False))])
            s = {"name": f"S{i}", "py312": py312, "params": params, "fields": fields}
            S[s["name"]] = s
            structs.append(finish(s, S))
        return structs

    def type_case(mods):
        @st.composite
        def strat(draw):
            mi = draw(st.integers(0, len(mods) - 1))
            M = mods[mi]
            vars_ = draw(st.lists(st.sampled_from(LEGACY_VARS), max_size=3, unique=True))
            need = draw(st.sampled_from([(False, False)] * 6 + [(False, True)] * 2 + [(True, False), (True, True)]))
            d = draw(st.sampled_from([1, 2, 2, 3, 3, 4, 4]))
            return mi, gen(draw, M.structs, M.S, vars_, d, need, top=True)
        return strat()

    def seq_case(mods):
        """one type shape, 2-3 instantiations of it that print alike (type variables `T`/`U`/`V` of
        per-item bounds, same-named struct definitions) in drawn order"""
        @st.composite
        def strat(draw):
            mi = draw(st.integers(0, len(mods) - 1))
            M = mods[mi]
            vars_ = [f"T{draw(st.sampled_from('LLLACB'))}{j}" for j in range(draw(st.sampled_from([1, 1, 2, 3])))]
            plain = [x for x in M.structs if not x["params"] and x["best"] != [True, True]]
            generic = [x for x in M.structs if x["params"]]
            if generic and draw(st.integers(0, 2)):
                s = draw(st.sampled_from(generic))
                args = []
                for p in s["params"]:
                    cands = [["v", v] for v in vars_ if geq(bound_of(v), bound_of(p))]
                    cands += [["st", x["name"], []] for x in plain if geq(x["best"], bound_of(p))]
                    if cands and draw(st.integers(0, 5)):
                        args.append(draw(st.sampled_from(cands)))
                    else:
                        args.append(gen(draw, M.structs, M.S, vars_, 1, bound_of(p)))
                base = ["st", s["name"], args]
                base = draw(st.sampled_from([base, base, ["tuple", [base, ["b", "int"]]], ["opt", base],
                                             ["array", base, 2], ["fn", [[base, False]], base]]))
            else:
                base = gen(draw, M.structs, M.S, vars_, draw(st.sampled_from([1, 2, 2, 3])), (False, False), top=True)
            used_v = sorted({n[1] for n in walk_trees(base) if n[0] == "v"})
            names = {x["name"] for x in plain}
            used_s = sorted({n[1] for n in walk_trees(base) if n[0] == "st" and n[1] in names})
            # per variable a drawn order of the admissible bounds, per struct a drawn phase of original /
            # twin: consecutive items differ wherever they can (independent draws mostly coincide)
            order = {v: draw(st.permutations(UPGRADES[v[1]])) for v in used_v}
            phase = {n: draw(st.integers(0, 1)) for n in used_s}
            maps = []
            for i in range(draw(st.sampled_from([2, 2, 3]))):
                vmap = {v: "T" + order[v][i % len(order[v])] + v[2:] for v in used_v}
                maps.append([vmap, [n for n in used_s if (i + phase[n]) % 2]])
            return mi, base, maps
        return strat()

    MODES_AFFINE = ["recv_unused"] * 4 + ["make_unused", "make_unused", "make_stmt", "expr_unused", "expr_stmt",
                                          "recv_returned", "recv_sunk", "recv_borrowed", "recv_borrowed",
                                          "make_returned", "make_sunk"]
    MODES_COPY = ["recv_unused", "make_unused", "make_stmt", "expr_unused"]

    def prog_case(mods):
        @st.composite
        def strat(draw):
            mi = draw(st.integers(0, len(mods) - 1))
            M = mods[mi]
            slots = []
            cond = draw(st.integers(0, 6)) == 0  # one value, consumed on one branch only
            for _ in range(1 if cond else draw(st.sampled_from([1, 1, 2, 3]))):
                affine = cond or draw(st.integers(0, 4)) > 0
                pool = [v for v in LEGACY_VARS if bound_of(v)[1] and (affine or bound_of(v)[0])]
                vars_ = draw(st.lists(st.sampled_from(pool), max_size=2, unique=True))
                d = draw(st.sampled_from([0, 1, 2, 2, 3, 4])) if vars_ else draw(st.sampled_from([1, 2, 2, 3, 4]))
                if affine:
                    # affine = droppable and not copyable: wrap a droppable type so that an array
                    # or an affine variable occurs
                    t = gen(draw, M.structs, M.S, vars_, d, (False, True))
                    if oracle(t, M.S)[0]:
                        inner = t if depth(t) < MAX_DEPTH else ["b", "int"]
                        t = ["array", inner, draw(st.integers(0, 2))]
                else:
                    t = gen(draw, M.structs, M.S, vars_, d, (True, True))
                mode = "cond_sunk" if cond else draw(st.sampled_from(MODES_AFFINE if affine else MODES_COPY))
                if not cond and draw(st.integers(0, 3)) == 0:
                    # a value whose only non-copyable / droppable-only part is a type variable
                    v = ["v", draw(st.sampled_from(["TA0", "TA1"] if affine else ["TB0", "TB1"]))]
                    t = draw(st.sampled_from([v, ["tuple", [v, t if depth(t) < MAX_DEPTH else ["b", "int"]]],
                                              ["opt", v]]))
                    mode = draw(st.sampled_from(["recv_unused"] * 3 + (
                        ["recv_returned", "recv_sunk", "recv_borrowed"] if affine else [])))
                if not cond and draw(st.integers(0, 3)) == 0:
                    # a *packed* value (one wire): an affine part next to function-typed, generic or
                    # scalar components in drawn order, under an Option / inside a nested tuple /
                    # as a discarded call result
                    aff = t if (affine and depth(t) < MAX_DEPTH - 1) else ["array", ["b", "int"], 2]
                    others = [draw(st.sampled_from([["fn", [], ["b", "None"]], ["fn", [[["b", "int"], False]], ["b", "int"]],
                                                    ["v", "TB0"], ["v", "TB1"], ["b", "int"], ["b", "float"],
                                                    ["array", ["b", "bool"], 1]]))
                              for _ in range(draw(st.integers(1, 2)))]
                    parts = draw(st.permutations([aff] + others))
                    inner = ["tuple", list(parts)]
                    t = draw(st.sampled_from([["opt", inner], ["tuple", [inner, ["b", "int"]]], inner,
                                              ["opt", ["opt", inner]], ["tuple", [["b", "int"], ["opt", inner]]]]))
                    mode = draw(st.sampled_from(["recv_unused", "recv_unused", "make_stmt", "make_unused", "recv_sunk"]))
                # where the value lives: the function body itself, the body of a `with` modifier block or
                # a nested function (plain / capturing / recursive / both)
                where = "top"
                if mode in IN_CTX_MODES:
                    where = draw(st.sampled_from(["top"] * 3 + CONTEXTS))
                slots.append({"ty": t, "mode": mode, "where": where})
            return mi, slots
        return strat()

    return struct_set, type_case, prog_case, seq_case


# =========================================================================== programs
#: modes whose value is created (not received) and not returned: they can be placed in an inner body
IN_CTX_MODES = ("make_unused", "make_stmt", "expr_unused", "expr_stmt", "make_sunk")
CONTEXTS = ["control", "dagger", "power", "local", "closure", "rec_local", "rec_closure"]
_ready = [False]


def setup():
    """`with` modifier blocks and capturing nested functions are gated as experimental features"""
    if not _ready[0]:
        from guppylang_internals.experimental import enable_experimental_features

        enable_experimental_features()
        _ready[0] = True


def has_var(t):
    return any(n[0] == "v" for n in walk_trees(t))


def expr_of(t, S):
    """literal expression of type t, or None if not constructible without annotations"""
    k = t[0]
    if k == "b":
        return {"int": "1", "float": "1.5", "bool": "True", "str": '"s"'}.get(t[1])
    if k == "tuple":
        es = [expr_of(x, S) for x in t[1]]
        if any(e is None for e in es):
            return None
        return "(" + ", ".join(es) + ("," if len(es) == 1 else "") + ")"
    if k == "array":
        e = expr_of(t[1], S)
        return None if e is None or t[2] == 0 else "array(" + ", ".join([e] * t[2]) + ")"
    if k == "opt":
        e = expr_of(t[1], S)
        return None if e is None else f"some({e})"
    if k == "st":
        s = S[t[1]]
        m = dict(zip(s["params"], t[2]))
        for p in s["params"]:  # every parameter must be inferable from a field value
            if not any(any(n == ["v", p] for n in walk_trees(f)) for _, f in s["fields"]):
                return None
        es = [expr_of(subst(f, m), S) for _, f in s["fields"]]
        if any(e is None for e in es):
            return None
        return f"{t[1]}(" + ", ".join(es) + ")"
    return None


def constructible(t, S):
    """nearest type that `expr_of` can build: same shape, unconstructible parts replaced by parts of
    an equal or more permissive copy/drop class (so parameter bounds stay satisfied)"""
    k = t[0]
    if k == "b":
        return t if t[1] in ("int", "float", "bool", "str") else ["b", "int"]
    if k in ("v", "fn"):
        return ["b", "int"]
    if k == "tuple":
        return ["tuple", [constructible(x, S) for x in t[1]]]
    if k == "array":
        return ["array", constructible(t[1], S), max(t[2], 1)]
    if k == "farr":
        return ["tuple", [constructible(t[1], S)]]
    if k == "opt":
        return ["opt", constructible(t[1], S)]
    r = ["st", t[1], [constructible(x, S) for x in t[2]]]
    return r if expr_of(r, S) is not None else ["tuple", r[2]]


def mentions_qubit(t, S, _seen=None):
    """does the type mention qubit anywhere - as a leaf, inside a function type, in a field of a struct?"""
    _seen = set() if _seen is None else _seen
    for n in walk_trees(t):
        if n == ["b", "qubit"]:
            return True
        if n[0] == "st" and n[1] in S and n[1] not in _seen:
            _seen.add(n[1])
            if any(mentions_qubit(f, S, _seen) for _, f in S[n[1]]["fields"]):
                return True
    return False


def normalise_slots(slots, S):
    """make every slot's mode applicable to its type (deterministic adjustments)"""
    out = []
    multi = len(slots) > 1
    n_expr = 0
    for s in slots:
        t, mode = s["ty"], s["mode"]
        was_affine = not oracle(t, S)[0]
        if mode == "cond_sunk" and multi:
            mode = "recv_sunk"
        if mode.startswith("expr") and n_expr:
            mode = "make" + mode[4:]
        if mode.startswith("expr"):
            n_expr += 1
            t = constructible(t, S)
        elif mode.startswith("make") and has_var(t):  # a declared make() cannot bind type variables
            t = subst(t, {v: ["b", "int"] for v in LEGACY_VARS}, S)
        if was_affine and oracle(t, S)[0]:
            t = ["array", t if depth(t) < MAX_DEPTH else ["b", "int"], 1]
        where = s.get("where", "top") if mode in IN_CTX_MODES else "top"
        if where in ("control", "dagger", "power") and mentions_qubit(t, S):
            # make()/sink() are declared without unitary flags: handing them a value whose type mentions qubit
            # (even inside a function type) inside a modifier block is a unitary violation (C24), not a program
            # of this property's domain
            where = "top"
        if where == "dagger" and mode.endswith("_unused"):  # no assignments under dagger
            mode = mode[: -len("unused")] + "stmt"
        out.append({"ty": t, "mode": mode, "where": where})
    return out


def render_prog(structs, slots):
    """-> (source, expectations) ; expectations: list of dicts per slot with root + want"""
    S = {s["name"]: s for s in structs}
    decls, params, body, rets, exp = [], [], [], [], []
    need_q = need_n = False
    for i, s in enumerate(slots):
        t, mode = s["ty"], s["mode"]
        where = s.get("where", "top")
        stmts = []
        a = ann(t)
        oc, od = oracle(t, S)
        affine = (not oc) and od
        src, act = mode.split("_")
        if src == "recv":
            owned = affine and act != "borrowed"
            root = ["param", len(params)]
            params.append(f"p{i}: {a}" + (" @owned" if owned else ""))
            val = f"p{i}"
        elif src == "cond":
            root = ["any"]
            params.append(f"p{i}: {a} @owned")
            val = f"p{i}"
        elif src == "make":
            decls.append(f"@guppy.declare\ndef make{i}() -> {a}: ...\n")
            root = ["call", f"make{i}"]
            val = f"make{i}()"
        else:
            root = ["other"]
            val = expr_of(t, S)
        if src == "cond":
            decls.append(f"@guppy.declare\ndef sink{i}(x: {a} @owned) -> None: ...\n")
            params.append("flag: bool")
            stmts += ["if flag:", f"    sink{i}({val})"]
        elif act == "unused":
            if src != "recv":
                stmts.append(f"v{i} = {val}")
        elif act == "stmt":
            stmts.append(f"{val}")
        elif act == "returned":
            if src == "make":
                stmts.append(f"v{i} = {val}")
                val = f"v{i}"
            rets.append((val, a))
        elif act == "sunk":
            decls.append(f"@guppy.declare\ndef sink{i}(x: {a} @owned) -> None: ...\n")
            stmts.append(f"sink{i}({val})")
        if where != "top" and (not stmts or src in ("recv", "cond") or act == "returned"):
            raise harness.HarnessError(f"slot {s} cannot be placed in an inner body")
        if where in ("control", "dagger", "power"):
            need_q = need_q or where == "control"
            head = {"control": "with control(cq):", "dagger": "with dagger:", "power": "with power(2):"}[where]
            stmts = [head] + ["    " + ln for ln in stmts]
        elif where != "top":
            # nested function: `closure` captures the parameter nn of f, `rec_*` calls itself
            need_n = True
            ret = "nn" if "closure" in where else "k + 1"
            tail = [f"return {ret}"] if not where.startswith("rec") else [
                "if k <= 0:", f"    return {ret}", f"return go{i}(k - 1)"]
            stmts = [f"def go{i}(k: int) -> int:"] + ["    " + ln for ln in stmts + tail] + [f"go{i}(nn)"]
        body += ["    " + ln for ln in stmts]
        want = "some" if affine and (act in ("unused", "stmt") or src == "cond") else "none"
        phantom = want == "some" and oracle(t, S, None, False)[0]  # HUGR type is a copyable tuple
        if phantom and "phantom_type_arg" in EXCLUDE:
            want = "excluded"
        tag = mode + ("" if where == "top" else ".in_" + where)
        exp.append({"slot": i, "root": root, "want": want, "ann": a, "mode": mode, "where": where,
                    "tag": "phantom_type_arg" if phantom else tag})
    if need_q:
        params.append("cq: qubit")
    if need_n:
        params.append("nn: int")
    if rets:
        body.append("    return " + ", ".join(v for v, _ in rets))
        rty = rets[0][1] if len(rets) == 1 else "tuple[" + ", ".join(a for _, a in rets) + "]"
    else:
        rty = "None"
    if not body:
        body.append("    pass")
    extra = "".join(decls) + f"\n@guppy\ndef f({', '.join(params)}) -> {rty}:\n" + "\n".join(body) + "\n"
    return render_module(structs, extra), exp


def drop_roots(h):
    """for every tket.guppy.drop op: the origins of its operand (list of roots)"""
    from hugr import ops

    def src_of(node, i):
        ps = list(h.linked_ports(node.inp(i)))
        return ps[0] if ps else None

    def trace(p, fuel=200):
        """set of origins of the value on out-port p, looking through tuple packing/unpacking"""
        if p is None:
            return [["unconnected"]]
        node, op = p.node, h[p.node].op
        if fuel <= 0:
            return [["other", "deep"]]
        if isinstance(op, ops.UnpackTuple):
            return trace(src_of(node, 0), fuel - 1)
        if isinstance(op, (ops.MakeTuple, ops.Tag)) and h.num_in_ports(node) > 0:
            acc = []
            for i in range(h.num_in_ports(node)):
                q = src_of(node, i)
                if q is not None:
                    acc += [r for r in trace(q, fuel - 1) if r not in acc]
            return acc or [["other", type(op).__name__]]
        if isinstance(op, ops.Input):
            par = h[node].parent
            pop = h[par].op
            if isinstance(pop, ops.FuncDefn):
                if pop.f_name.startswith(("go", "__WithBlock__")):  # an inner body, not f itself
                    return [["inner-param", pop.f_name, p.offset]]
                return [["param", p.offset]]
            if isinstance(pop, ops.DataflowBlock) and h.children(h[par].parent)[0] == par:
                return trace(src_of(h[par].parent, p.offset), fuel - 1)
            return [["block-input"]]
        if isinstance(op, ops.Call):
            for i in range(h.num_in_ports(node)):
                q = src_of(node, i)
                if q is not None and isinstance(h[q.node].op, (ops.FuncDecl, ops.FuncDefn)):
                    return [["call", h[q.node].op.f_name]]
            return [["call", "?"]]
        return [["other", type(op).__name__]]

    roots = []
    for n in h:
        op = h[n].op
        name = None
        if isinstance(op, ops.ExtOp):
            name = op.op_def().qualified_name()
        elif isinstance(op, ops.Custom):
            name = f"{op.extension}.{op.op_name}"
        if name == "tket.guppy.drop":
            rs = trace(src_of(n, 0))
            roots.append([r for r in rs if r[0] != "other"] or rs)  # prefer specific origins
    return roots


def eval_prog(structs, slots):
    """-> list of (bucket, detail)"""
    from vlib import runner

    setup()
    src, exp = render_prog(structs, slots)
    try:
        lm = runner.load_module(src)
    except Exception as e:  # noqa: BLE001
        o = runner.classify_exception(e)
        return [("program.load." + (o.title or o.kind), f"{o.brief()}\n{src}")], src, exp
    try:
        out, pkg = runner.compile_def(lm.mod.f, entry=False)
        if out.kind == "rejected":
            return [(f"program.rejected.{type(out.exc.error).__name__}", out.message + "\n" + src)], src, exp
        if out.kind != "ok":
            return [("program.crash." + runner.crash_bucket(out.exc), out.message[-1500:] + "\n" + src)], src, exp
        v = runner.validate_pkg(pkg)
        res = []
        if v.kind != "ok":
            res.append(("program.invalid_hugr", v.message[:1200] + "\n" + src))
        roots = drop_roots(pkg.modules[0])
        used = [False] * len(roots)
        for e in exp:
            mine = []
            for j, rs in enumerate(roots):
                if e["root"] == ["any"] or any(r[: len(e["root"])] == e["root"] for r in rs):
                    mine.append(j)
                    used[j] = True
            if e["want"] == "some" and not mine:
                res.append((f"drop.missing.{e['tag']}",
                            f"unused affine value `{e['ann']}` ({e['mode']}) is not fed into a tket.guppy.drop op; "
                            f"drops found: {roots}\n{src}"))
            if e["want"] == "none" and mine:
                res.append((f"drop.unexpected.{e['mode']}" + ("" if e["where"] == "top" else ".in_" + e["where"]),
                            f"value `{e['ann']}` ({e['mode']}) is fed into {len(mine)} tket.guppy.drop op(s) "
                            f"although it is copyable / consumed / borrowed\n{src}"))
        stray = [r for j, r in enumerate(roots) if not used[j]]
        if stray:
            res.append(("drop.spurious", f"drop op(s) fed by no unused affine value: {stray}\n{src}"))
        return res, src, exp
    finally:
        lm.dispose()


# =========================================================================== replay / worker
def replay(case):
    structs = case["structs"]
    if case["kind"] == "type":
        from guppylang_internals.error import GuppyError

        try:
            M = Mod(structs)
        except GuppyError as e:
            what, msg = _classify_guppy_error(e)
            return (f"struct_def.rejected.{what}", msg)
        out, _ = eval_type(M, case["ty"])
        want = case.get("bucket")
        for b, _, d in out:
            if want is None or b == want:
                return (b, d)
        return (out[0][0], out[0][2]) if out else None
    if case["kind"] == "seq":
        r = judge_seq(structs, case["items"])
        return None if r is None else (r[0], r[2])
    res, _, _ = eval_prog(structs, normalise_slots(case["slots"], {st_["name"]: st_ for st_ in structs}))
    return res[0] if res else None


def worker(ctx):
    from guppylang_internals.error import GuppyError

    struct_set, type_case, prog_case, seq_case = make_strategies()
    p = ctx.params

    # ---- stage 0: struct sets (drawn through Hypothesis, loaded once per worker)
    mods = []

    def add_set(structs):
        if len(mods) >= p["sets"]:
            return
        try:
            mods.append(Mod(structs))
        except GuppyError as e:
            what, msg = _classify_guppy_error(e)
            if what is None:
                ctx.harness_error(f"generated struct module rejected: {msg}")
            else:
                ctx.violation(f"struct_def.rejected.{what}", {"kind": "type", "structs": structs, "ty": ["b", "int"]},
                              "oracle-valid struct definitions rejected:\n" + msg)

    def rich(structs):
        gen_used = sum(1 for s in structs if s["params"] and any(f[0].startswith("p") for f in s["fields"]))
        return gen_used >= 2 and sum(len(s["fields"]) for s in structs) >= 8

    harness.hyp_search(ctx, struct_set(), lambda ss: add_set(ss) if rich(ss) else None,
                       max_examples=p["sets"] * 8 + 4, chunk=p["sets"] * 8 + 4, time_frac=0.5, extra_seed=1)
    if not mods:
        ctx.harness_error("no struct set could be loaded")
        return
    ctx.notes["t_sets_s"] = round(ctx.elapsed(), 2)
    ctx.notes["struct_set_sample"] = "".join(render_struct(s) for s in mods[0].structs)[:3000]

    # ---- stage 1: type level
    def body_t(c):
        mi, tree = c
        M = mods[mi]
        cd = oracle(tree, M.S)
        ncl, gen_, labs = features(tree, M.S)
        dp = depth(tree)
        viol, nph = eval_type(M, tree)
        labels = ["T", "cls:" + cls_name(cd), "top:" + node_kind(tree, M.S).split(".")[0] + f"/{min(dp, 4)}"]
        labels += sorted(labs)
        if nph:
            labels.append("phantom_type_arg")
            ctx.exclude("phantom_type_arg: HUGR bound of struct with non-copyable phantom argument "
                        "checked in the sound direction only", nph)
        nontriv = dp >= 2 and ncl and gen_
        ctx.case(["t", M.key, tree], nontriv, labels=labels)
        if nontriv and len(ctx.samples) < 6:
            ctx.sample("T:" + cls_name(cd) + ":" + node_kind(tree, M.S),
                       {"type": ann(tree), "oracle": cls_name(cd), "depth": dp})
        for b, culprit, detail in viol:
            ctx.violation(b, {"kind": "type", "bucket": b, "structs": prune(M.structs, [culprit]), "ty": culprit},
                          detail)

    harness.hyp_search(ctx, type_case(mods), body_t, max_examples=p["n_types"], chunk=500, time_frac=0.65,
                       extra_seed=2)

    ctx.notes["t_types_s"] = round(ctx.elapsed(), 2)

    # ---- stage 1b: the classification of a type does not depend on what was classified before
    def body_q(c):
        mi, base, maps = c
        M = mods[mi]
        structs, items = expand_seq(M.structs, base, maps)
        structs = prune(structs, items)
        S = {s["name"]: s for s in structs}
        # generic-struct nodes whose classification differs between two items (they print alike)
        cls = [[oracle(n, S) for n in walk_trees(t) if n[0] == "st" and n[2]] for t in items]
        differ = any(a != b for a in cls for b in cls)
        later_permissive = any(any(y[0] > x[0] or y[1] > x[1] for x, y in zip(cls[i], cls[j]))
                               for i in range(len(cls)) for j in range(i + 1, len(cls)))
        labels = ["Q", f"items:{len(items)}"] + (["Q:differ"] if differ else []) + (
            ["Q:later_more_permissive"] if later_permissive else [])
        if any(n[0] == "st" and n[1].endswith("t") for t in items for n in walk_trees(t)):
            labels.append("Q:same_named_structs")
        if any(n[0] == "v" for n in walk_trees(base)):
            labels.append("Q:same_named_vars")
        ctx.case(["q", structs, items], differ, labels=labels)
        if later_permissive and sum(1 for k in ctx.samples if str(k).startswith("Q")) < 3:
            ctx.sample("Q:" + M_print(items[0], structs), {"printed": M_print(items[0], structs), "items": [ann(t) for t in items],
                                                    "oracle": [cls_name(oracle(t, S)) for t in items]})
        try:
            r = judge_seq(structs, items)
        except GuppyError as e:
            ctx.harness_error("sequence module rejected: " + _classify_guppy_error(e)[1] + "\n" + render_module(structs))
            return
        if r is not None:
            ctx.violation(r[0], r[1], r[2])

    harness.hyp_search(ctx, seq_case(mods), body_q, max_examples=p["n_seqs"], chunk=100, time_frac=0.72,
                       extra_seed=4)
    ctx.notes["t_seqs_s"] = round(ctx.elapsed(), 2)
    # ---- stage 2: program level
    def body_p(c):
        mi, slots = c
        M = mods[mi]
        slots = normalise_slots(slots, M.S)
        structs = prune(M.structs, [s["ty"] for s in slots])
        res, src, exp = eval_prog(structs, slots)
        wants = [e["want"] for e in exp]
        labels = ["P"] + sorted({"mode:" + e["mode"] for e in exp}) + sorted({"want:" + w for w in wants})
        labels += sorted({"in:" + e["where"] + ("/dropped" if e["want"] == "some" else "") for e in exp})
        labels.append(f"slots:{len(slots)}")
        for w in wants:
            if w == "excluded":
                ctx.exclude("phantom_type_arg: no drop demanded for an affine struct whose HUGR type is copyable")
        ctx.case(["p", structs, slots], "some" in wants, labels=labels)
        if "some" in wants:
            ctx.sample("P:" + "+".join(sorted(e["mode"] for e in exp)),
                       {"program": src.split("TB1 = guppy.type_var", 1)[1].split("\n", 1)[1].strip()[-1200:],
                        "expect": [[e["mode"], e["want"]] for e in exp]})
        for b, d in res:
            ctx.violation(b, {"kind": "prog", "structs": structs, "slots": slots}, d)

    harness.hyp_search(ctx, prog_case(mods), body_p, max_examples=p["n_progs"], chunk=50, time_frac=0.95,
                       extra_seed=3)
    ctx.notes["t_progs_s"] = round(ctx.elapsed(), 2)


SPEC = harness.Spec(
    PROP, worker, replay,
    rule=("per shard: `sets` struct sets (3 fixed structs: qubit field, generic box, phantom parameter; 3-5 drawn "
          "generic/non-generic structs in Generic[...] or PEP 695 syntax with parameters of all four copy/drop bounds) "
          "are drawn and loaded; type cases = Hypothesis type trees of nesting <= 4 over those structs, qubit, int, nat, "
          "float, bool, str, None, Callable, tuple, array, Option, frozenarray and the 8 module-level type variables, "
          "generated constructively so that frozenarray elements / struct arguments satisfy their bounds; each tree is "
          "built directly and through type_from_ast and every subtree is compared with the statement's recursion "
          "(.copyable, .droppable, .hugr_bound, to_hugr(ctx).type_bound() under a CompilerContext and a "
          "QuantifiedToHugrContext). program cases = 1-3 values of affine (or copyable) generated types, each "
          "received @owned / created by a declared make() / a literal expression and left unused, returned, passed to "
          "an @owned sink, only borrowed, or sunk on one branch; a created value sits in the body of f or (7 in 10) in "
          "a with control/dagger/power block or a plain/capturing/recursive/capturing+recursive nested function; "
          "compile_function + hugr validate + provenance of every tket.guppy.drop operand. sequence cases = one type "
          "shape (2 in 3: a generic struct applied to type variables / non-generic structs, else a general tree) "
          "instantiated 2-3 times with per-item variable bounds under the shared display names T/U/V and per-item "
          "swaps of non-generic structs for same-named all-int twins, classified in drawn order in one fresh module; "
          "non-trivial sequence = some generic-struct node is classified differently in two items. non-trivial type = nesting >= 2 with a non-copyable leaf (qubit, array, non-copyable "
          "variable) under a generic constructor; non-trivial program = contains an unused affine value. distinct = "
          "distinct (struct set, tree) / (structs, slots)"),
    assumptions=[
        "function types are copyable and droppable whatever their inputs/outputs (statement: functions are both)",
        "frozenarray/Option/tuple/struct follow the conjunction rule; frozenarray elements are copyable+droppable by "
        "its parameter bound, so only valid instantiations are generated",
        "EXCLUDE phantom_type_arg: for a struct whose non-copyability stems only from a type argument occurring in no "
        "field outside a function type, a Copyable HUGR type is accepted and no drop op is demanded (statement "
        "sentences 1 and 2 cannot both hold for the field-tuple lowering)",
        "sequence items use type variables that print alike although their bounds differ (as type parameters of "
        "different generic functions do) and two struct definitions with one class name in different scopes; the "
        "statement's recursion applies to each item on its own, whatever was classified before",
        "inside `with dagger` no assignment is allowed, so unused values there are expression statements",
        "'fed by that value' = the drop operand traces back through UnpackTuple / entry-block inputs to the function "
        "parameter, the make() call or the constructing op",
    ],
    shards={"quick": 16, "thorough": 16},
    budget_s={"quick": 150, "thorough": 900},
    params={"quick": {"sets": 3, "n_types": 3000, "n_seqs": 200, "n_progs": 32},
            "thorough": {"sets": 10, "n_types": 60000, "n_seqs": 3000, "n_progs": 500}},
    min_nontrivial=1500,
)

if __name__ == "__main__":
    harness.main(SPEC)
