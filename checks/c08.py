"""C08 Use-before-definition and path-dependent types are rejected exactly.

Domain GenScope (vlib/gen/scope.py): functions that only assign and read int/bool/float
variables (<= 4 names, type may differ per assignment) under nested if/elif/else/while/for/
break/continue/return (nesting <= 4, <= 20 statements); reads (`result("r", x)`, `y = x`,
`if x:`/`while x:`, nested `def`s reading outer variables) are placed freely.  Conditions are
mostly opaque bool parameters; literal True/False conditions, `while True` and code after
return/break/continue are generated as separate label classes.

Oracle scopemodel (vlib/scopemodel.py): explicit path search on its own statement-level CFG
of the *source text* (parsed with CPython's ast).  A read is undefined iff a path from the
entry reaches it without an assignment, mistyped iff assignments of two different types reach
it; both outcomes of every condition are possible, literal or not; a read no path reaches is
never a problem.  Expected: "Variable not defined" iff some read is undefined, "Different
types" iff some read is mistyped (either title if both), accepted otherwise.
"""
import os
import sys

sys.path.insert(0, os.path.dirname(os.path.dirname(os.path.abspath(__file__))))
from vlib import harness  # noqa: E402

PROP = "C08"
ND = "Variable not defined"
DT = "Different types"

# Input classes on which the unchanged tree deliberately departs from the statement's reading
# (see the final report / `assumptions`).  While a key is listed here the class is *tolerated*:
# the program is counted with ctx.exclude(key) and judged against the bounds that hold under
# every reading (scopemodel.acceptable) instead of the exact verdict, so the search goes on
# behind the finding.  VERIF_C08_EXCLUDE=none (or a comma list) overrides, e.g. to re-produce
# the findings:  VERIF_C08_EXCLUDE=none /venv/bin/python checks/c08.py --tier quick
EXCLUDE = {
    # `if True:` / `while True:` / `if False: ... else:` — the compiler treats a literal
    # condition as an unconditional jump, so a variable assigned only on the taken side is
    # accepted although the statement ignores condition values (missed.undefined.literal_true_branch,
    # missed.mistyped.literal_true_branch).  Tolerated class: programs whose verdict changes when
    # literal conditions are folded.
    "literal_folding",
    # code no path reaches (after return/break/continue) is still checked as if the jump fell
    # through (false.undefined.unreachable_code, false.mistyped.unreachable_code).  Tolerated
    # class: programs whose verdict changes when jumps may also fall through into dead code.
    "dead_code_checked",
}


def active_exclusions():
    env = os.environ.get("VERIF_C08_EXCLUDE")
    if env is None:
        return frozenset(EXCLUDE)
    if env in ("", "none"):
        return frozenset()
    return frozenset(k for k in env.split(",") if k in ("literal_folding", "dead_code_checked"))


# Fixed inputs of the tolerated classes, judged by the exact (statement) reading in shard 0 and
# reported in evidence notes; they are also the probes proposed for known_findings.json.
PROBES = {
    "literal_true_branch": ("missed.undefined.literal_true_branch",
                            "if True:\n    a = 1\nresult(\"r\", a)\n"),
    "literal_true_retype": ("missed.mistyped.literal_true_branch",
                            "a = 1\nif True:\n    a = True\nelse:\n    pass\nresult(\"r\", a)\n"),
    "read_after_return": ("false.undefined.unreachable_code",
                          "return\nresult(\"r\", a)\na = 1\n"),
    "read_after_all_branches_return": ("false.undefined.unreachable_code",
                                       "if c0:\n    a = 1\n    return\nelse:\n    a = 2\n    return\nresult(\"r\", a)\n"),
    "retype_after_return": ("false.mistyped.unreachable_code",
                            "a = 1\nreturn\nif c0:\n    a = True\nresult(\"r\", a)\n"),
}


def probe_src(body):
    from vlib.gen import scope

    return scope.HEADER + "".join("    " + ln + "\n" for ln in body.strip("\n").split("\n"))


_ready = [False]


def setup():
    if not _ready[0]:
        from guppylang_internals.experimental import enable_experimental_features

        enable_experimental_features()  # nested defs that capture outer variables
        _ready[0] = True


def run_guppy(src):
    """-> (outcome, line, var, message, label): outcome in ok | ND | DT | outside:<title> |
    crash:<bucket>; line is relative to `src` (1 = first line of the function text); label is
    'might' ("might be undefined") / 'isnot' ("is not defined") for ND."""
    from vlib import runner

    setup()
    lm = runner.load_module(runner.PRELUDE + src)
    try:
        out = runner.check_def(lm.mod.f)
    finally:
        lm.dispose()
    if out.kind == "ok":
        return "ok", None, None, "", None
    if out.kind == "crash":
        return "crash:" + runner.crash_bucket(out.exc), None, None, out.message, None
    if out.kind != "rejected":
        return "outside:" + out.kind, None, None, out.message, None
    line = var = label = None
    try:
        from guppylang_internals.span import to_span

        err = out.exc.error
        line = to_span(err.span).start.line - runner.PRELUDE.count("\n")
        var = getattr(err, "var", None)
        if var is None and hasattr(err, "ident"):
            ident = err.ident
            var = ident.split("`")[1] if "`" in ident else None
        label = {"VarMaybeNotDefinedError": "might", "VarNotDefinedError": "isnot"}.get(type(err).__name__)
    except Exception:  # noqa: BLE001
        pass
    if out.title in (ND, DT):
        return out.title, line, var, out.message, label
    return "outside:" + out.title, line, var, out.message, label


def judge(src, exclude):
    """-> dict(status=ok|violation|outside|crash|generr, bucket, detail, model, outcome)"""
    from vlib import scopemodel as sm

    try:
        m = sm.Model(src)
    except (sm.ModelError, SyntaxError) as e:
        return {"status": "generr", "bucket": None, "detail": f"scopemodel cannot read generated program: {e!r}\n{src}",
                "model": None, "outcome": None}
    o, line, var, msg, label = run_guppy(src)
    res = {"model": m, "outcome": o, "bucket": None, "detail": None, "status": "ok"}
    if o.startswith("outside:"):
        res.update(status="outside", bucket=o, detail=msg[-1500:])
        return res
    if o.startswith("crash:"):
        # neither accepted nor rejected: the model always predicts one of the two
        res.update(status="violation", bucket="crash." + o[6:],
                   detail=f"compiler crashed; expected {sorted(m.verdict_A())}\n--- program\n{src}--- traceback\n{msg[-1500:]}")
        return res
    acc = m.acceptable(exclude)
    lit = "literal_folding" in exclude
    dead = "dead_code_checked" in exclude
    UL, TL = (m.U_L, m.T_L) if lit else (m.U_A, m.T_A)
    UH, TH = (m.U_M, m.T_M) if dead else (m.U_A, m.T_A)
    rep = m.read_at_line(line, var) if line is not None else None
    bucket = None
    if o not in acc:
        if o == "ok":
            which = "undefined" if UL else "mistyped"
            r = m.first_problem(which, "L") or m.first_problem(which, "A")
            f = sm._undef if which == "undefined" else sm._mist
            if r.live_lit and not f(r.tyL):
                shape = "literal_true_branch"  # the problem needs the never-taken side of a literal condition
            else:
                shape = r.shape()
            if which == "undefined":
                bucket = f"missed.undefined.{shape}"
            else:
                bucket = "missed.mistyped" + (f".{shape}" if shape.startswith(("literal", "unreachable")) else "")
            why = f"accepted, but line {r.line} reads `{r.var}` which is {which} (reaching: {sorted(r.tyL if lit and r.live_lit else r.tyA)})"
        elif o == ND:
            shape = rep.shape() if rep is not None else "not_a_local_read"
            bucket = "wrong_title" if TH and shape != "unreachable_code" else f"false.undefined.{shape}"
            why = (f"rejected with `{ND}` for `{var}` at line {line}, but no read is reached by a path without an "
                   f"assignment" + ("; a read is mistyped, so `Different types` was expected" if TH else ""))
        else:
            shape = rep.shape() if rep is not None else "not_a_local_read"
            bucket = "wrong_title" if UH and shape != "unreachable_code" else \
                "false.mistyped" + (f".{shape}" if shape.startswith(("literal", "unreachable")) else "")
            why = (f"rejected with `{DT}` for `{var}` at line {line}, but no read is reached by two assignments of "
                   f"different types" + ("; a read is undefined, so `Variable not defined` was expected" if UH else ""))
    elif o in (ND, DT):
        # the rejection must name a use that really has the problem (most tolerant universe)
        f = sm._undef if o == ND else sm._mist
        exact = m.acceptable(frozenset())  # the statement's own verdict, no tolerance
        if o not in exact:
            # the title is only acceptable through a tolerated (known-finding) reading; the model of
            # "jumps fall through" does not pin which use inside nested dead code is named there
            res["tolerated_location_unchecked"] = True
        elif rep is None or not f(rep.tyM):
            kind = "undefined" if o == ND else "mistyped"
            bucket = f"wrong_location.{kind}"
            why = (f"rejected with `{o}` naming `{var}` at line {line}, but that is not a read of `{var}` that is "
                   f"{kind} (model at that read: {sorted(rep.tyM) if rep is not None else 'no such read'})")
        elif o == ND and label is not None and m.label_ok(rep, label) is False:
            # "might be undefined" = an assignment lies on some path to the use, "is not defined" = on none
            bucket = "wrong_label." + label
            un, asg = m.assigned_before(m.predsL, rep.node, rep.var)
            why = (f"`{var}` at line {line} is reported as "
                   f"{'might be undefined' if label == 'might' else 'is not defined'}, but "
                   f"{'an' if asg else 'no'} assignment to `{var}` lies on a path to that use")
    if bucket:
        res.update(status="violation", bucket=bucket,
                   detail=f"{why}\nacceptable={sorted(acc)} observed={o}\n--- program\n{src}--- model (reaching types per read)\n"
                          f"{m.describe()}\n--- compiler\n{msg[-900:]}")
    return res


def replay(case):
    excl = frozenset(case["exclude"]) if "exclude" in case else active_exclusions()
    r = judge(case["src"], excl)
    if r["status"] == "violation":
        return (r["bucket"], r["detail"])
    return None


def worker(ctx):
    from vlib.gen import scope

    excl = active_exclusions()
    ctx.notes["active_exclusions"] = sorted(excl)
    strat = scope.programs()
    found = {}
    counts = {"n": 0, "outside": 0}

    if ctx.shard == 0:
        probes = {}
        for name, (bucket, body) in PROBES.items():
            r = judge(probe_src(body), frozenset())
            probes[name] = {"strict_bucket_expected": bucket,
                            "strict_result": r["bucket"] if r["status"] == "violation" else r["status"],
                            "compiler": r["outcome"]}
            if r["status"] == "violation" and excl:
                tol = judge(probe_src(body), excl)
                if tol["status"] == "violation":
                    ctx.harness_error(f"probe {name} is not covered by its exclusion: {tol['bucket']}")
        ctx.notes["statement_reading_probes"] = probes

    def body(p):
        src = p["src"]
        r = judge(src, excl)
        m = r["model"]
        if r["status"] == "generr":
            ctx.harness_error(r["detail"])
            return
        counts["n"] += 1
        a = m.verdict_A()
        exp = "ok" if a == {"ok"} else "both" if len(a) == 2 else "undefined" if ND in a else "mistyped"
        o = r["outcome"]
        labels = ["exp:" + exp, "out:" + {"ok": "accept", ND: "not_defined", DT: "different_types"}.get(o, o)]
        labels += m.labels()
        for k in m.excluded_classes(excl):
            ctx.exclude(k)
            labels.append("tolerated:" + k)
        nt = m.nontrivial()
        if nt:
            labels.append("nontrivial")
        ctx.case(src, nt, labels=labels, sample={"src": src, "expected": sorted(a), "compiler": o})
        if r["status"] == "outside":
            counts["outside"] += 1
            ctx.label(r["bucket"])
            ctx.sample(r["bucket"], {"src": src, "why": r["detail"]})
            ctx.harness_error(f"generated program rejected with an out-of-domain title {r['bucket']}:\n{src}\n{r['detail'][-600:]}")
        elif r["status"] == "violation":
            ctx.violation(r["bucket"], {"src": src, "exclude": sorted(excl), "bucket": r["bucket"]}, r["detail"])
            found.setdefault(r["bucket"], src)

    harness.hyp_search(ctx, strat, body, max_examples=ctx.params["n"], chunk=200, time_frac=0.7)

    # minimise each bucket (bounded); ctx.violation keeps the smallest case per bucket
    per = min(20.0, ctx.budget_s * 0.1)
    for i, bucket in enumerate(sorted(found)[:4]):
        if ctx.out_of_time(0.8):
            break

        def fails(p, _b=bucket):
            r = judge(p["src"], excl)
            if r["status"] == "violation" and r["bucket"] == _b:
                return (p["src"], r["detail"])
            return None

        got = harness.hyp_shrink(ctx, strat, fails, budget_s=per, max_examples=300, extra_seed=i)
        if got:
            src, detail = got[1]
            ctx.violation(bucket, {"src": src, "exclude": sorted(excl), "bucket": bucket}, detail)


SPEC = harness.Spec(
    PROP, worker, replay,
    rule=("GenScope draws functions over <=4 int/bool/float variables (type per assignment free in 80% of programs) with "
          "<=20 statements, nesting <=4: assignments, copies `y = x`, reads (`result`, copy source, variable conditions, "
          "nested defs capturing outer variables) placed freely, if/elif/else, while, for over range, break/continue/"
          "return anywhere (so dead code occurs), 40% of programs with literal True/False conditions / `while True`. "
          "Oracle = path search on the model's own statement CFG of the source text. non-trivial = (>=1 loop or >=2 "
          "ifs) and >=1 variable assigned on a strict subset of the entry->exit paths; distinct = distinct source text"),
    assumptions=[
        "error titles: 'Variable not defined' (both 'is not defined' and 'might be undefined') and 'Different types'; with "
        "several problems any predicted title is accepted; the reported use must be a read that has the problem",
        "a nested def counts as a read of every outer local its body reads, at the definition site (probed)",
        "`for x in range(2)` assigns x:int at the start of every iteration and may run zero times",
        "tolerated class literal_folding (EXCLUDE): where folding literal True/False conditions changes the verdict, the "
        "compiler may accept (only problems that exist along folded paths must be rejected)",
        "tolerated class dead_code_checked (EXCLUDE): where letting return/break/continue (or an if whose branches all "
        "jump) fall through into the dead code behind it changes the verdict, the compiler may reject with the title "
        "that reading predicts",
    ],
    shards={"quick": 16, "thorough": 16},
    budget_s={"quick": 90, "thorough": 900},
    params={"quick": {"n": 800}, "thorough": {"n": 20000}},
    min_nontrivial=400,
)

if __name__ == "__main__":
    harness.main(SPEC)
