"""C02 Rejected programs fail with a located user error, never a crash.

Domain: GenProg programs (well-typed by construction) put through 1-3 near-miss mutators chosen by
Hypothesis on the AST (vlib/gen/mutate.py).  Oracle: compiling `main` either succeeds or raises a
GuppyError whose diagnostic renders without raising and whose spans lie inside the generated
module's decorated source; any other exception is a violation, bucketed by
(exception type, innermost guppylang frame)."""
import ast
import os
import sys

sys.path.insert(0, os.path.dirname(os.path.dirname(os.path.abspath(__file__))))
from vlib import harness  # noqa: E402

PROP = "C02"

PRELUDE_EXTRA = ("from __future__ import annotations\n"
                 "from guppylang import guppy\n"
                 "from guppylang.std.builtins import *\n"
                 "from guppylang.std.builtins import result, array, owned, comptime, nat, panic, exit, py\n"
                 "from guppylang.std.quantum import qubit, measure, discard, reset, project_z, h, cx, x\n"
                 "from guppylang.std.option import Option, nothing, some\n"
                 "from collections.abc import Callable\n")


def decorated_ranges(src):
    """line ranges (1-based, inclusive) of the top-level decorated definitions"""
    out = []
    for n in ast.parse(src).body:
        if isinstance(n, (ast.FunctionDef, ast.ClassDef)) and n.decorator_list:
            start = min(d.lineno for d in n.decorator_list)
            out.append((start, n.end_lineno))
    return out


def check_spans(err, lm, src):
    """-> None or (bucket, detail)"""
    from guppylang_internals.span import to_span

    lines = src.split("\n")
    ranges = decorated_ranges(src)
    diag = err.error
    items = [("primary", diag)] + [(f"child{i}", c) for i, c in enumerate(getattr(diag, "children", []))]
    for name, d in items:
        if getattr(d, "span", None) is None:
            continue
        try:
            sp = to_span(d.span)
        except BaseException as e:  # noqa: BLE001
            return ("span.to_span_raises", f"{name}: to_span raised {e!r}")
        if sp.file != lm.file:
            if name == "primary":
                return ("span.primary_other_file", f"primary span is in {sp.file}, not in the decorated source")
            continue  # notes may point at library declarations
        for loc, which in ((sp.start, "start"), (sp.end, "end")):
            if not (1 <= loc.line <= len(lines)):
                return ("span.line_out_of_file", f"{name} {which} line {loc.line} outside 1..{len(lines)}")
            if not any(a <= loc.line <= b for a, b in ranges):
                return ("span.outside_decorated", f"{name} {which} {loc.line}:{loc.column} lies outside every decorated definition {ranges}")
            if not (0 <= loc.column <= len(lines[loc.line - 1])):
                return ("span.column_out_of_line", f"{name} {which} column {loc.column} outside line {loc.line} (len {len(lines[loc.line - 1])})")
        if (sp.start.line, sp.start.column) > (sp.end.line, sp.end.column):
            return ("span.inverted", f"{name} span starts after it ends: {sp}")
    return None


_FILE_ROT = [0]


def evaluate(body_src):
    """-> (status, bucket, detail): status ok|rejected|violation|pyerror"""
    from guppylang_internals.error import GuppyComptimeError, GuppyError

    from vlib import runner

    src = PRELUDE_EXTRA + body_src
    # the same few pseudo file names are reused with new contents, as when a user edits a file and
    # re-runs it in one session: diagnostics must be rendered from the current text
    _FILE_ROT[0] += 1
    try:
        lm = runner.load_module(src, name=f"c02mod_{os.getpid()}_{_FILE_ROT[0] % 3}")
    except GuppyError as e:
        return "rejected", "import-time", ""
    except BaseException as e:  # noqa: BLE001
        # plain Python error while executing the module (not a guppy matter)
        return "pyerror", type(e).__name__, repr(e)[:200]
    try:
        main = getattr(lm.mod, "main", None)
        if main is None or not hasattr(main, "compile"):
            return "pyerror", "no-main", ""
        try:
            with runner.quiet():
                main.compile()
        except GuppyError as e:
            try:
                msg = runner.render_error(e)
            except BaseException as e2:  # noqa: BLE001
                return "violation", "render.raises." + runner.crash_bucket(e2), (
                    f"rendering the diagnostic {type(e.error).__name__} raised {e2!r}")
            if not msg.strip():
                return "violation", "render.empty", f"{type(e.error).__name__} rendered to nothing"
            r = check_spans(e, lm, src)
            if r:
                return "violation", r[0], r[1] + "\n" + msg[-800:]
            # the rendered snippet must show the CURRENT text of the spanned line
            try:
                from guppylang_internals.span import to_span

                if getattr(e.error, "span", None) is not None:
                    sp = to_span(e.error.span)
                    text = src.split("\n")[sp.start.line - 1].strip()
                    if text and text not in msg:
                        return "violation", "render.source_line_missing", (
                            f"line {sp.start.line} of the decorated source is `{text}` but the rendered diagnostic does not show it:\n{msg[-800:]}")
            except Exception as e3:  # noqa: BLE001
                return "violation", "render.span_lookup_raises", repr(e3)
            return "rejected", type(e.error).__name__, msg[-300:]
        except GuppyComptimeError as e:
            return "rejected", "GuppyComptimeError", str(e)[:200]
        except RecursionError as e:
            return "violation", "crash.RecursionError", "RecursionError escaped compile()"
        except BaseException as e:  # noqa: BLE001
            if isinstance(e, (KeyboardInterrupt, SystemExit)):
                raise
            out = runner.classify_exception(e)
            return "violation", "crash." + runner.crash_bucket(e), out.message[-1500:]
        return "ok", None, None
    finally:
        lm.dispose()


def replay(case):
    st, bucket, detail = evaluate(case["src"])
    if st == "violation":
        return (bucket, detail)
    return None


def worker(ctx):
    from hypothesis import strategies as st

    from vlib.gen import mutate, prog

    @st.composite
    def mutants(draw):
        p = draw(prog.programs(n_funcs=(1, 2), max_depth=2, size=0.6))
        n = draw(st.sampled_from([1, 1, 1, 2, 2, 3]))
        src, labels = mutate.mutate(draw, p["src"], n)
        return {"src": src, "labels": labels}

    strat = mutants()
    found = {}

    # coverage-guided part: some shards run an atheris (libFuzzer) campaign over the same mutant
    # strategy (checks/c02_fuzz.py) instead of the plain Hypothesis search
    if ctx.shard < ctx.params.get("fuzz_shards", 0):
        import json
        import subprocess
        import tempfile

        deps = os.path.join(harness.VERIF, ".deps", "atheris")
        if not os.path.isdir(deps):
            ctx.notes["fuzz"] = "atheris not installed under .deps (run setup): coverage-guided part skipped on this shard"
        else:
            work = os.environ.get("VERIF_WORK") or os.path.join(harness.VERIF, ".work")
            d = tempfile.mkdtemp(prefix=f"fz{ctx.shard}_", dir=work)
            outp = os.path.join(d, "out.jsonl")
            secs = int(min(ctx.params["fuzz_s"], ctx.budget_s * 0.6))
            r = subprocess.run([sys.executable, os.path.join(harness.VERIF, "checks", "c02_fuzz.py"), outp, str(secs),
                                str(ctx.shard_seed("fuzz") % (2**31 - 1) + 1), os.path.join(d, "corpus")],
                               stdout=subprocess.DEVNULL, stderr=subprocess.DEVNULL, timeout=secs * 3 + 120)
            stats = {}
            if os.path.exists(outp + ".stats"):
                stats = json.load(open(outp + ".stats"))
            ctx.evaluations += int(stats.get("execs", 0))
            ctx.label("fuzz:execs", int(stats.get("execs", 0)))
            ctx.label("status:rejected", int(stats.get("rejected", 0)))
            ctx.notes[f"fuzz_shard{ctx.shard}"] = {"seconds": secs, "rc": r.returncode, **stats}
            if os.path.exists(outp):
                for line in open(outp):
                    f = json.loads(line)
                    st_, bucket, detail = evaluate(f["src"])  # confirm in this (uninstrumented) process
                    if st_ == "violation":
                        if bucket not in found or len(f["src"]) < len(found[bucket][0]):
                            found[bucket] = (f["src"], detail)
                        ctx.label("violation:" + bucket)
                        ctx.nontrivial.add(harness.case_hash(f["src"]))
            import shutil

            shutil.rmtree(d, ignore_errors=True)

    def body(m):
        st_, bucket, detail = evaluate(m["src"])
        labs = ["status:" + st_] + ["mut:" + l.split(":")[0] for l in m["labels"]]
        if st_ == "rejected":
            labs.append("err:" + str(bucket))
        ctx.case(m["src"], st_ in ("rejected", "violation"), labels=labs,
                 sample={"src": m["src"][-600:], "status": st_, "error": bucket} if st_ == "rejected" else None)
        if st_ == "violation":
            if bucket not in found or len(m["src"]) < len(found[bucket][0]):
                found[bucket] = (m["src"], detail)
            ctx.label("violation:" + bucket)

    harness.hyp_search(ctx, strat, body, max_examples=ctx.params["n"], chunk=100, time_frac=0.7)

    for bucket, (src, detail) in found.items():
        if not ctx.out_of_time(0.8):
            def fails(m, _b=bucket):
                s, b, d = evaluate(m["src"])
                return (m["src"], d) if s == "violation" and b == _b else None
            r = harness.hyp_shrink(ctx, strat, fails, budget_s=min(30, ctx.budget_s * 0.1), max_examples=200)
            if r and len(r[1][0]) < len(src):
                src, detail = r[1]
        ctx.violation(bucket, {"src": src}, detail + "\n--- program ---\n" + src)


SPEC = harness.Spec(
    PROP, worker, replay,
    rule=("a GenProg program (1-2 functions + main, well-typed by construction) is mutated 1-3 times on the AST: change an "
          "annotation, drop/duplicate/swap statements, rename a variable (undefined / other type), change call or signature arity, "
          "keyword/starred arguments, insert one of ~90 statement snippets (linearity violations, unsupported statements, bad "
          "unpacking, nested-function misuse, result/panic misuse, path-dependent types, ...) or replace an expression by one of ~110 "
          "expression snippets (unsupported expressions, comptime misuse, operator/type misuse, generics misuse, out-of-range "
          "literals ...), wrong return, unreachable code, non-bool conditions, shadowed parameters. The mutant always compiles as "
          "Python. non-trivial = the mutant is rejected (or crashes); distinct = distinct source"),
    assumptions=["GuppyError (and GuppyComptimeError for comptime expressions) are the user-facing compilation errors",
                 "span check: the primary span must lie in the generated module inside a decorated top-level definition and inside its line; "
                 "sub-diagnostic spans in other files (library declarations) are allowed",
                 "a plain Python error while executing the module body (before guppy sees the function) is outside the property"],
    shards={"quick": 16, "thorough": 16},
    budget_s={"quick": 90, "thorough": 1200},
    params={"quick": {"n": 400, "fuzz_shards": 4, "fuzz_s": 40}, "thorough": {"n": 12000, "fuzz_shards": 8, "fuzz_s": 600}},
    min_nontrivial=300,
)

if __name__ == "__main__":
    harness.main(SPEC)
