"""C20 Quantum operations implement their documented gates.

Domain: circuits of 1-12 operations over 1-4 qubits built from every gate of `std.quantum`
(imperative), `std.quantum.functional` and the `std.qsystem` natives, qubit arguments in any
order, angle expressions (dyadic / arbitrary float / `pi` multiples / `+ - * /` / negation),
optional product-state prefix, `state_result` on drawn orderings (and subsets) of the live
qubits; measurement part: measure / project_z / reset / measure_array / discard(+_array)
/ qubit methods / qsystem.reset / qfree / measure_leaked on basis states and superpositions.

Oracle: vlib/nsim.py - dense numpy simulation with the matrices of the gate *docstrings*;
states equal up to global phase within 1e-9 (max-abs amplitude difference after phase
alignment; reduced density matrices element-wise within 1e-9 when the reported qubits are
entangled with discarded ones); a recorded measurement outcome must have oracle probability
> 1e-9 and the state reported afterwards must equal the normalised projection; operations
whose outcome is not reported (reset) branch the oracle and the reported state must equal one
branch. The qubit order convention of `state_result` (first listed qubit = most or least
significant bit) is calibrated once per worker on asymmetric basis states.
"""
import os
import sys

sys.path.insert(0, os.path.dirname(os.path.dirname(os.path.abspath(__file__))))
from vlib import harness  # noqa: E402
from vlib import nsim  # noqa: E402

PROP = "C20"
EXCLUDE = set()  # input classes excluded by construction behind a finding (none)
BATCH = 64  # circuits per emulated program (amortises the selene build)

HEADER = """from guppylang import guppy
from guppylang.std.builtins import result, array
from guppylang.std.debug import state_result
from guppylang.std.angles import angle, pi
from guppylang.std.quantum import qubit, measure_array, discard_array
import guppylang.std.quantum as Q
import guppylang.std.quantum.functional as F
import guppylang.std.qsystem as S
"""

# gate name -> (arity, number of angle parameters); which namespaces export it
Q_GATES = ["h", "x", "y", "z", "s", "sdg", "t", "tdg", "v", "vdg", "rz", "rx", "ry",
           "cx", "cy", "cz", "ch", "crz", "toffoli"]
S_GATES = ["phased_x", "zz_phase", "zz_max", "rz"]
ALL_GATES = [("Q", g) for g in Q_GATES] + [("F", g) for g in Q_GATES] + [("S", g) for g in S_GATES]
# gates that map computational-basis states to basis states (up to phase)
BASIS_GATES = [(ns, g) for ns, g in ALL_GATES
               if g in ("x", "y", "z", "s", "sdg", "t", "tdg", "rz", "cx", "cy", "cz", "crz",
                        "toffoli", "zz_phase", "zz_max")]
MEAS_FORMS = {"measure": ["Q", "m", "leaked"], "project_z": ["Q", "F", "m"],
              "reset": ["Q", "F", "S"], "discard": ["Q", "m", "qfree"]}


# ------------------------------------------------------------------ angle expressions
def aval(e):
    """Value in half-turns, by the documented meaning of `angle` (struct of half-turns, `pi`
    = one half-turn, operators act on the half-turn count)."""
    t = e[0]
    if t == "lit":
        return float(e[1])
    if t == "frac":
        return e[1] / e[2]
    if t == "pi":
        return 1.0
    if t == "neg":
        return -aval(e[1])
    if t == "add":
        return aval(e[1]) + aval(e[2])
    if t == "sub":
        return aval(e[1]) - aval(e[2])
    if t == "mul":
        return aval(e[1]) * float(e[2])
    if t == "rmul":
        return aval(e[2]) * float(e[1])
    if t == "div":
        return aval(e[1]) / float(e[2])
    if t == "rdiv":
        return float(e[1]) / aval(e[2])
    raise ValueError(e)


def num_src(c):
    return repr(c)


def asrc(e):
    t = e[0]
    if t == "lit":
        return f"angle({num_src(e[1])})"
    if t == "frac":
        return f"angle({e[1]} / {e[2]})"
    if t == "pi":
        return "pi"
    if t == "neg":
        return f"(-{asrc(e[1])})"
    if t == "add":
        return f"({asrc(e[1])} + {asrc(e[2])})"
    if t == "sub":
        return f"({asrc(e[1])} - {asrc(e[2])})"
    if t == "mul":
        return f"({asrc(e[1])} * {num_src(e[2])})"
    if t == "rmul":
        return f"({num_src(e[1])} * {asrc(e[2])})"
    if t == "div":
        return f"({asrc(e[1])} / {num_src(e[2])})"
    if t == "rdiv":
        return f"({num_src(e[1])} / {asrc(e[2])})"
    raise ValueError(e)


def afeatures(e, out):
    t = e[0]
    if t == "lit":
        v = float(e[1])
        out.add("angle:dyadic" if (v * 64).is_integer() else "angle:float")
    elif t == "frac":
        out.add("angle:dyadic")
    else:
        out.add("angle:" + t)
        for x in e[1:]:
            if isinstance(x, list):
                afeatures(x, out)


def non_clifford(v):
    return abs(v * 2 - round(v * 2)) > 1e-9


# ------------------------------------------------------------------ circuits
def op_name(op):
    if op["k"] == "g":
        return f"{op['ns']}.{op['g']}"
    if "form" in op:
        return f"{op['k']}[{op['form']}]"
    return op["k"]


def normalise(circ):
    """Drop operations that refer to qubits no longer alive (used while minimising)."""
    live = set(range(circ["n"]))
    ops = []
    for op in circ["ops"]:
        k = op["k"]
        if k == "g":
            if not set(op["q"]) <= live:
                continue
        elif k in ("snap", "measure_array", "discard_array"):
            qs = [q for q in op["q"] if q in live]
            if not qs:
                continue
            op = dict(op, q=qs)
            if k != "snap":
                live -= set(qs)
        else:
            if op["q"] not in live:
                continue
            if k in ("measure", "discard"):
                live.discard(op["q"])
        ops.append(op)
    return dict(circ, ops=ops)


def plan(circ, k):
    """-> (source lines, steps) ; steps = [(op, tag|None)] in program order, including the
    final state_result over all live qubits in circ['final'] order."""
    n = circ["n"]
    v = [f"c{k}_{i}" for i in range(n)]
    lines = [f"{v[i]} = qubit()" for i in range(n)]
    steps = []
    live = list(range(n))
    nm = ns = 0
    for op in circ["ops"]:
        kind = op["k"]
        tag = None
        if kind == "g":
            qs = [v[i] for i in op["q"]]
            args = ", ".join(qs + [asrc(a) for a in op.get("a", [])])
            if op["ns"] == "F":
                lines.append(f"{', '.join(qs)} = F.{op['g']}({args})")
            else:
                lines.append(f"{op['ns']}.{op['g']}({args})")
        elif kind == "measure":
            tag = f"c{k}_m{nm}"
            nm += 1
            q = v[op["q"]]
            ex = {"Q": f"Q.measure({q})", "m": f"{q}.measure()",
                  "leaked": f"S.measure_leaked({q}).to_result().unwrap()"}[op["form"]]
            lines.append(f'result("{tag}", {ex})')
            live.remove(op["q"])
        elif kind == "project_z":
            tag = f"c{k}_m{nm}"
            nm += 1
            q = v[op["q"]]
            if op["form"] == "F":
                lines.append(f"{q}, b{k}_{nm} = F.project_z({q})")
                lines.append(f'result("{tag}", b{k}_{nm})')
            else:
                ex = f"Q.project_z({q})" if op["form"] == "Q" else f"{q}.project_z()"
                lines.append(f'result("{tag}", {ex})')
        elif kind == "reset":
            q = v[op["q"]]
            lines.append({"Q": f"Q.reset({q})", "F": f"{q} = F.reset({q})", "S": f"S.reset({q})"}[op["form"]])
        elif kind == "discard":
            q = v[op["q"]]
            lines.append({"Q": f"Q.discard({q})", "m": f"{q}.discard()", "qfree": f"S.qfree({q})"}[op["form"]])
            live.remove(op["q"])
        elif kind == "measure_array":
            tag = f"c{k}_m{nm}"
            nm += 1
            lines.append(f'result("{tag}", measure_array(array({", ".join(v[i] for i in op["q"])})))')
            for i in op["q"]:
                live.remove(i)
        elif kind == "discard_array":
            lines.append(f'discard_array(array({", ".join(v[i] for i in op["q"])}))')
            for i in op["q"]:
                live.remove(i)
        elif kind == "snap":
            tag = f"c{k}_s{ns}"
            ns += 1
            lines.append(f'state_result("{tag}", {", ".join(v[i] for i in op["q"])})')
        else:
            raise ValueError(kind)
        steps.append((op, tag))
    fin = [i for i in circ["final"] if i in live]
    if fin:
        tag = f"c{k}_s{ns}"
        lines.append(f'state_result("{tag}", {", ".join(v[i] for i in fin)})')
        steps.append(({"k": "snap", "q": fin}, tag))
    for i in live:
        lines.append(f"Q.discard({v[i]})")
    return lines, steps


def program(circs):
    """One function per circuit, called from a run-time loop in main(): the calls sit in different
    basic blocks, so the qubits of circuit k are freed before circuit k+1 allocates (inside one
    dataflow block nothing orders the QFree of one circuit before the QAlloc of the next and the
    emulator runs out of its n_qubits)."""
    parts = [HEADER]
    for k, c in enumerate(circs):
        lines, _ = plan(c, k)
        parts.append(f"\n@guppy\ndef circ{k}() -> None:\n" + "\n".join("    " + ln for ln in lines) + "\n")
    if len(circs) == 1:
        parts.append("\n@guppy\ndef main() -> None:\n    circ0()\n")
    else:
        disp = []
        for k in range(len(circs)):
            disp.append(f"        {'if' if k == 0 else 'elif'} k == {k}:\n            circ{k}()")
        parts.append(f"\n@guppy\ndef main() -> None:\n    for k in range({len(circs)}):\n" + "\n".join(disp) + "\n")
    return "\n".join(parts)


def circuit_source(circ):
    return "\n".join(plan(circ, 0)[0])


# ------------------------------------------------------------------ oracle walk
def _fmt(v):
    import numpy as np

    return np.array2string(np.asarray(v), precision=6, suppress_small=True, max_line_width=200)


def judge(circ, steps, results, states, msb, info=None, rhos=None):
    """Compare what the emulator reported for one circuit with nsim. -> None | (kind, detail)"""
    import numpy as np

    n = circ["n"]
    br = [(1.0, nsim.zero_state(n))]  # oracle branches (weight, state) over unreported outcomes
    info = info if info is not None else {}

    def observe(br, q, b):
        tot = sum(w for w, _ in br)
        new = []
        for w, s in br:
            p, s2 = nsim.project(s, q, b)
            if s2 is not None and w * p > 1e-12 * tot:
                new.append((w * p, s2))
        return new, sum(w for w, _ in new) / tot

    for idx, (op, tag) in enumerate(steps):
        k = op["k"]
        info["_step"] = idx  # on failure: index of the step at which the mismatch was seen
        if k == "g":
            u = nsim.matrix(op["g"], [aval(a) for a in op.get("a", [])])
            br = [(w, nsim.apply(s, u, op["q"])) for w, s in br]
        elif k in ("measure", "project_z", "measure_array"):
            if tag not in results:
                return ("result.missing", f"no result '{tag}' for step {idx} {op_name(op)}")
            got = results[tag]
            qs = op["q"] if k == "measure_array" else [op["q"]]
            bs = got if k == "measure_array" else [got]
            if not isinstance(bs, list) or len(bs) != len(qs) or any(b not in (0, 1) for b in bs):
                return ("result.shape", f"step {idx} {op_name(op)}: reported {got!r} for qubits {qs}")
            for q, b in zip(qs, bs):
                br, p = observe(br, q, b)
                info["meas:deterministic" if p > 1 - 1e-9 else "meas:superposed"] = 1
                if p < nsim.P_MIN or not br:
                    return ("outcome.impossible",
                            f"step {idx} {op_name(op)} on qubit {q}: reported outcome {b} has "
                            f"probability {p:.3e} in the reference state")
        elif k == "reset":
            q = op["q"]
            tot = sum(w for w, _ in br)
            new = []
            for w, s in br:
                for o in (0, 1):
                    p, s2 = nsim.project(s, q, o)
                    if s2 is None or w * p <= 1e-12 * tot:
                        continue
                    if o:
                        s2 = nsim.apply(s2, nsim.X, [q])  # |1> -> |0>
                    new.append((w * p, s2))
            br = new
        elif k in ("discard", "discard_array"):
            pass  # the qubit is never listed again: traced out at observation time
        elif k == "snap":
            if tag not in states:
                return ("state.missing", f"no state_result '{tag}' for step {idx}")
            dist = states[tag]
            d = 2 ** len(op["q"])
            if not dist or any(len(vv) != d for _, vv in dist):
                return ("state.shape", f"state_result '{tag}' on {len(op['q'])} qubits reported vectors of length "
                        f"{[len(vv) for _, vv in dist]}")
            ptot = sum(p for p, _ in dist)
            if abs(ptot - 1.0) > 1e-9 or any(abs(np.linalg.norm(vv) - 1.0) > 1e-9 for _, vv in dist):
                return ("state.unnormalised", f"state_result '{tag}': probabilities sum to {ptot}, norms "
                        f"{[float(np.linalg.norm(vv)) for _, vv in dist]}")
            rho_obs = (rhos or {}).get(tag)
            keep = []
            best = None
            for w, s in br:
                rho = nsim.reduced_density(s, op["q"], msb_first=msb)
                vec = nsim.pure_vector(rho)
                if vec is not None and len(dist) == 1:
                    dd = nsim.phase_distance(dist[0][1], vec)
                    shown = vec
                elif vec is not None or rho_obs is None:
                    # pure reference state but several reported states (or no raw density available)
                    dd = float(np.max(np.abs(nsim.density_of(dist) - rho)))
                    shown = None
                else:
                    # mixed reference state (listed qubits entangled with discarded ones): compare the
                    # reduced density matrix computed from the simulator's full statevector
                    dd = float(np.max(np.abs(rho_obs - rho)))
                    shown = None
                    info["snap:mixed"] = 1
                if dd <= nsim.TOL:
                    keep.append((w, s))
                if best is None or dd < best[0]:
                    best = (dd, shown, rho)
            if not keep:
                dd, shown, rho = best
                if shown is not None:
                    ph = np.vdot(shown, dist[0][1])
                    ph = ph / abs(ph) if abs(ph) > 1e-12 else 1.0
                    det = (f"reported {_fmt(dist[0][1])}\nexpected {_fmt(shown * ph)} (documented matrices, "
                           f"phase-aligned); distance {dd:.3e}")
                else:
                    det = (f"reported mixture {[(round(p, 9), _fmt(vv)) for p, vv in dist]}\nexpected reduced "
                           f"density diag {_fmt(np.diag(rho).real)}; max element difference {dd:.3e}")
                return ("state.mismatch", f"state_result '{tag}' (step {idx}, qubits {op['q']}, "
                        f"{len(br)} oracle branch(es)): {det}")
            br = keep
        else:
            raise ValueError(k)
    return None


# ------------------------------------------------------------------ running
_MSB = None


def calibrate():
    """-> (msb_first | None, message). Uses only `x` on basis states."""
    from vlib import qrun

    src = HEADER + """

@guppy
def main() -> None:
    a = qubit()
    b = qubit()
    c = qubit()
    Q.x(a)
    state_result("s0", a, b, c)
    state_result("s1", b, c, a)
    state_result("s2", c, a, b)
    Q.x(b)
    state_result("s3", a, b, c)
    state_result("s4", c, b, a)
    state_result("s5", a, c)
    Q.discard(a)
    Q.discard(b)
    Q.discard(c)
"""
    out = qrun.run_states(src, 3, seed=1)
    if out.kind != "ok":
        return None, f"calibration program did not run: {out.brief()}"
    # value of (a, b, c) and the listed order per tag
    spec = {"s0": ((1, 0, 0), "abc"), "s1": ((1, 0, 0), "bca"), "s2": ((1, 0, 0), "cab"),
            "s3": ((1, 1, 0), "abc"), "s4": ((1, 1, 0), "cba"), "s5": ((1, 1, 0), "ac")}
    ok = {True: True, False: True}
    seen = dict(out.extra["states"])
    for tag, (val, order) in spec.items():
        dist = seen.get(tag)
        if dist is None or len(dist) != 1:
            return None, f"calibration: state '{tag}' missing or mixed: {dist!r}"
        vec = dist[0][1]
        amax = int(abs(vec).argmax())
        if abs(abs(vec[amax]) - 1.0) > 1e-9:
            return None, f"calibration: state '{tag}' is not a basis state: {vec!r}"
        bits = [val["abc".index(ch)] for ch in order]
        msb_idx = int("".join(map(str, bits)), 2)
        lsb_idx = int("".join(map(str, bits[::-1])), 2)
        ok[True] &= amax == msb_idx
        ok[False] &= amax == lsb_idx
    if ok[True] == ok[False]:
        return None, f"calibration of the state_result qubit order is inconsistent: msb={ok[True]} lsb={ok[False]}"
    return ok[True], "msb-first" if ok[True] else "lsb-first"


def get_msb():
    global _MSB
    if _MSB is None:
        nsim.selfcheck()
        m, msg = calibrate()
        if m is None:
            raise harness.HarnessError(msg)
        _MSB = (m, msg)
    return _MSB[0]


def _trace(msg):
    if os.environ.get("VERIF_C20_TRACE"):
        import time

        print(f"[{time.strftime('%H:%M:%S')}] {msg}", flush=True)


def evaluate_batch(circs, seed):
    """-> list of verdicts, one per circuit: None (holds) | (kind, detail, info);
    kinds starting with '__' are not violations (__harness__, __unsupported__)."""
    from vlib import qrun

    msb = get_msb()
    src = program(circs)
    nq = max(c["n"] for c in circs)
    _trace(f"run {len(circs)} circuits, {len(src.splitlines())} lines")
    out = qrun.run_states(src, nq, seed=seed)
    _trace(f"  -> {out.kind} {out.message[:300] if out.kind != 'ok' else ''}")
    if out.kind == "unsupported":
        return [("__unsupported__", out.message[:300], {})] * len(circs)
    if out.kind in ("rejected", "crash", "invalid"):
        if len(circs) > 1:  # find the circuit(s) responsible by bisection
            h = len(circs) // 2
            return evaluate_batch(circs[:h], seed) + evaluate_batch(circs[h:], seed)
        return [("__harness__", f"generated program did not compile ({out.kind}): {out.message[-1200:]}\n{src}", {})]
    if out.kind == "panic":
        if len(circs) > 1:
            h = len(circs) // 2
            return evaluate_batch(circs[:h], seed) + evaluate_batch(circs[h:], seed)
        return [("run.panic", f"emulation panicked: {out.message[:500]}", {})]
    results = {}
    for t, v in out.stream:
        results[t] = v
    states = dict(out.extra["states"])
    rhos = out.extra.get("rho") or {}
    verdicts = []
    for k, c in enumerate(circs):
        _, steps = plan(c, k)
        info = {}
        r = judge(c, steps, results, states, msb, info, rhos)
        verdicts.append((r[0], r[1], info) if r else (None, "", info))
    return verdicts


def run_one(circ, seed):
    v = evaluate_batch([circ], seed)[0]
    return v


def replay(case):
    """Re-run one recorded circuit on its own: one build, the recorded emulator seed first and
    three more (measurement outcomes are random; the oracle follows whatever is reported)."""
    from vlib import qrun, runner

    circ = case["circ"]
    msb = get_msb()
    src = program([circ])
    lm = runner.load_module(src)
    try:
        out, pkg = runner.compile_def(lm.mod.main)
        if out.kind != "ok":
            raise harness.HarnessError(f"replay program did not compile: {out.brief()}")
        out, built = qrun.build_pkg(pkg, circ["n"])
        if built is None:
            raise harness.HarnessError(f"replay program did not build: {out.brief()}")
        try:
            s0 = int(case.get("seed", 1))
            for sd in (s0, s0 + 1, s0 + 2, s0 + 3):
                out = built.run(sd)
                if out.kind == "panic":
                    return (case.get("bucket") or "run.panic", f"seed {sd}: emulation panicked: {out.message[:500]}")
                if out.kind != "ok":
                    raise harness.HarnessError(f"replay run: {out.brief()}")
                _, steps = plan(circ, 0)
                r = judge(circ, steps, dict(out.stream), dict(out.extra["states"]), msb, {}, out.extra.get("rho"))
                if r:
                    return (case.get("bucket") or signature(r[0], circ),
                            f"seed {sd}: {r[1]}\n--- circuit\n{circuit_source(circ)}")
        finally:
            built.dispose()
    finally:
        lm.dispose()
    return None


# ------------------------------------------------------------------ minimisation / buckets
def circ_features(circ):
    names = set()
    af = set()
    for op in circ["ops"]:
        names.add(op_name(op))
        for a in op.get("a", []):
            f = set()
            afeatures(a, f)
            af |= {x for x in f if x not in ("angle:dyadic", "angle:float")}
    return names, af


def signature(kind, circ):
    names, af = circ_features(circ)
    names = sorted(x for x in names if x != "snap")
    return kind + ":" + "+".join(names[:5] + sorted(af)[:3])


def localise(circ, seed):
    """Root-cause localisation on a minimised circuit: report the state after every operation and
    take the first step at which emulator and reference disagree; the same with every angle
    expression replaced by its value tells whether the angle arithmetic or the gate is at fault.
    -> (kind, culprit op, angle_causal) | None"""
    def instrument(c):
        ops2 = []
        live = set(range(c["n"]))
        for op in c["ops"]:
            ops2.append(op)
            k = op["k"]
            if k == "snap":
                continue
            if k in ("measure", "discard"):
                live.discard(op["q"])
            elif k in ("measure_array", "discard_array"):
                live -= set(op["q"])
            if live:
                ops2.append({"k": "snap", "q": sorted(live), "loc": 1})
        return dict(c, ops=ops2)

    def first_bad(c2, verdict):
        kind, _, info = verdict
        if not kind or kind.startswith("__") or "_step" not in info:
            return None
        _, steps = plan(c2, 0)
        for j in range(min(info["_step"], len(steps) - 1), -1, -1):
            if steps[j][0]["k"] != "snap":
                return kind, steps[j][0]
        return None

    c_expr = instrument(circ)
    c_lit = instrument(simplify_angles(circ))
    if c_lit == c_expr:
        r = first_bad(c_expr, run_one(c_expr, seed))
        return (r[0], r[1], False) if r else None
    v_expr, v_lit = evaluate_batch([c_expr, c_lit], seed)
    r = first_bad(c_lit, v_lit)
    if r:
        return r[0], r[1], False
    r = first_bad(c_expr, v_expr)
    return (r[0], r[1], True) if r else None


def bucket_of(kind, circ, culprit, angle_causal=False):
    """-> (bucket name, op names, angle features) ; a later failing circuit that contains these op
    names and angle features is attributed to the same root cause without being minimised."""
    if culprit is not None:
        af = set()
        for a in (culprit.get("a", []) if angle_causal else []):
            f = set()
            afeatures(a, f)
            af |= {x for x in f if x not in ("angle:dyadic", "angle:float")}
        # angle operators that survived minimisation (replacing the expression by its value makes
        # the failure disappear) are the root cause rather than the gate they feed
        names = set() if af else {op_name(culprit)}
    else:
        names, af = circ_features(circ)
        names.discard("snap")
    return kind + ":" + "+".join(sorted(names)[:5] + sorted(af)[:3]), names, af


def angle_variants(e):
    """Expressions obtained from e by replacing exactly one non-literal node by its value."""
    out = []
    if e[0] in ("lit", "frac"):
        return out
    out.append(["lit", aval(e)])
    for i, x in enumerate(e):
        if i > 0 and isinstance(x, list):
            for v in angle_variants(x):
                out.append(e[:i] + [v] + e[i + 1:])
    return out


def simplify_angles(circ, which=None):
    ops = []
    for i, op in enumerate(circ["ops"]):
        if op.get("a") and (which is None or i == which):
            op = dict(op, a=[a if a[0] in ("lit", "frac") else ["lit", aval(a)] for a in op["a"]])
        ops.append(op)
    return dict(circ, ops=ops)


def drop_unused_qubits(circ):
    used = set()
    for op in circ["ops"]:
        q = op["q"]
        used |= set(q if isinstance(q, list) else [q])
    if not used:
        used = {0}
    keep = sorted(used)
    if len(keep) == circ["n"]:
        return circ
    ren = {o: i for i, o in enumerate(keep)}
    ops = []
    for op in circ["ops"]:
        q = op["q"]
        ops.append(dict(op, q=[ren[x] for x in q] if isinstance(q, list) else ren[q]))
    return {"n": len(keep), "ops": ops, "final": [ren[x] for x in circ["final"] if x in ren]}


def minimise(circ, seed, kind, deadline, clock):
    """Greedy delta-debugging over operations, angle expressions and qubits; every round
    evaluates all single-step candidates in one emulated program."""
    cur = normalise(circ)

    def still(cands):
        if not cands:
            return []
        vs = []
        for i in range(0, len(cands), 12):
            vs.extend(evaluate_batch(cands[i:i + 12], seed))
        return [v[0] == kind for v in vs]

    while clock() < deadline:
        cands = []
        for i in range(len(cur["ops"])):
            c = normalise(dict(cur, ops=cur["ops"][:i] + cur["ops"][i + 1:]))
            cands.append(("drop", i, c))
        sa = simplify_angles(cur)
        if sa != cur:
            cands.append(("angles", None, sa))
            nv = 0
            for i, op in enumerate(cur["ops"]):
                for j, ang in enumerate(op.get("a", [])):
                    for v in angle_variants(ang)[1:]:  # [0] = whole expression, covered per op below
                        if nv < 24:
                            nv += 1
                            ops = list(cur["ops"])
                            ops[i] = dict(op, a=op["a"][:j] + [v] + op["a"][j + 1:])
                            cands.append(("asub", None, dict(cur, ops=ops)))
                if op.get("a") and any(x[0] not in ("lit", "frac") for x in op["a"]):
                    cands.append(("aop", None, simplify_angles(cur, which=i)))
        dq = drop_unused_qubits(cur)
        if dq != cur:
            cands.append(("qubits", None, dq))
        if not cands:
            break
        flags = still([c for _, _, c in cands])
        good = [c for c, f in zip(cands, flags) if f]
        if not good:
            break
        drops = [i for (t, i, _) in good if t == "drop"]
        nxt = None
        if len(drops) > 1:
            allc = normalise(dict(cur, ops=[op for i, op in enumerate(cur["ops"]) if i not in drops]))
            if still([allc])[0]:
                nxt = allc
        if nxt is None:
            # prefer dropping operations (last first), then angle / qubit simplification
            rank = {"drop": 0, "angles": 1, "aop": 2, "asub": 3, "qubits": 4}
            order = sorted(good, key=lambda g: (rank[g[0]], -(g[1] or 0)))
            nxt = order[0][2]
        cur = nxt
    return cur


# ------------------------------------------------------------------ generator
def strategies():
    from hypothesis import strategies as st

    dyadic = st.builds(lambda k, m: (k, 2 ** m), st.integers(-40, 40), st.integers(0, 5))
    floats = st.one_of(
        st.floats(-8, 8, allow_nan=False, allow_infinity=False, allow_subnormal=False),
        st.sampled_from([0.1, 1 / 3, -0.7, 1e-3, 2.5, 3.625, -1.234567, 0.3183098861837907]),
    )
    factor = st.one_of(st.sampled_from([2, 3, 4, -1, 0.5, 1.5, -2.5, 8, 0.25]),
                       st.floats(-4, 4, allow_nan=False, allow_subnormal=False))
    divisor = st.one_of(st.sampled_from([2, 4, 8, -2, 3, 0.5, 1.5, -0.75, 16]),
                        st.floats(0.25, 16, allow_nan=False), st.floats(-16, -0.25, allow_nan=False))

    @st.composite
    def leaf(draw):
        c = draw(st.integers(0, 11))
        if c == 10:
            # whole and half numbers of half-turns written as float literals (CRz has period 4 pi, not 2 pi)
            return ["lit", draw(st.sampled_from([2.0, -2.0, 6.0, -6.0, 4.0, -4.0, 1.0, -1.0, 3.0, 0.0, 8.0, 10.0]))]
        if c == 11:
            # number / angle: the operators act on the half-turn count
            return ["rdiv", draw(st.sampled_from([0.5, 1, 2, 3, -1.5, 0.25])), draw(st.sampled_from([["pi"], ["mul", ["pi"], 4], ["lit", 0.5], ["frac", 1, 4], ["lit", -2.0]]))]
        if c <= 2:
            k, d = draw(dyadic)
            if draw(st.booleans()) and d > 1:
                return ["frac", k, d]
            return ["lit", k / d]
        if c <= 4:
            return ["lit", draw(floats)]
        if c == 5:
            return ["pi"]
        if c == 6:
            return ["mul", ["pi"], draw(factor)]
        if c == 7:
            return ["rmul", draw(factor), ["pi"]]
        return ["div", ["pi"], draw(divisor)]

    @st.composite
    def angle_expr(draw, depth=2):
        if depth == 0 or draw(st.integers(0, 9)) < 4:
            return draw(leaf())
        t = draw(st.sampled_from(["neg", "add", "sub", "mul", "rmul", "div", "neg", "add", "sub"]))
        if t == "neg":
            return ["neg", draw(angle_expr(depth - 1))]
        if t in ("add", "sub"):
            return [t, draw(angle_expr(depth - 1)), draw(angle_expr(depth - 1))]
        if t == "mul":
            return ["mul", draw(angle_expr(depth - 1)), draw(factor)]
        if t == "rmul":
            return ["rmul", draw(factor), draw(angle_expr(depth - 1))]
        return ["div", draw(angle_expr(depth - 1)), draw(divisor)]

    @st.composite
    def circuit(draw):
        n = draw(st.sampled_from([1, 2, 2, 3, 3, 3, 4, 4, 4, 4]))
        mode = draw(st.sampled_from(["unitary", "unitary", "unitary", "basis", "basis", "super", "super", "super"]))
        ops = []
        live = list(range(n))
        # optional product-state prefix
        if draw(st.integers(0, 2)):
            for q in range(n):
                if mode == "basis":
                    if draw(st.booleans()):
                        ops.append({"k": "g", "ns": "Q", "g": "x", "q": [q], "prep": 1})
                else:
                    c = draw(st.integers(0, 3))
                    if c == 1:
                        ops.append({"k": "g", "ns": "Q", "g": "h", "q": [q], "prep": 1})
                    elif c >= 2:
                        k1, d1 = draw(dyadic)
                        ops.append({"k": "g", "ns": "Q", "g": "ry", "q": [q], "a": [["lit", k1 / d1]], "prep": 1})
                        ops.append({"k": "g", "ns": "Q", "g": "rz", "q": [q], "a": [["lit", draw(floats)]], "prep": 1})
        nops = draw(st.integers(1, 12))
        pool = BASIS_GATES if mode == "basis" else ALL_GATES
        for _ in range(nops):
            if not live:
                break
            nonunitary = mode != "unitary" and draw(st.integers(0, 9)) < (5 if mode == "basis" else 3)
            if nonunitary:
                kind = draw(st.sampled_from(["measure", "project_z", "project_z", "reset", "discard",
                                             "measure_array", "discard_array", "snap", "snap"]))
                if kind in MEAS_FORMS:
                    q = draw(st.sampled_from(live))
                    ops.append({"k": kind, "form": draw(st.sampled_from(MEAS_FORMS[kind])), "q": q})
                    if kind in ("measure", "discard"):
                        live.remove(q)
                else:
                    perm = draw(st.permutations(live))
                    cnt = draw(st.integers(1, len(live)))
                    if kind == "snap" and draw(st.integers(0, 2)):
                        cnt = len(live)
                    qs = list(perm[:cnt])
                    ops.append({"k": kind, "q": qs})
                    if kind != "snap":
                        for q in qs:
                            live.remove(q)
                continue
            cands = [(ns, g) for ns, g in pool if nsim.ARITY[g] <= len(live)]
            # stratify: (arity, parametrised?) class first, then the binding inside the class, so that
            # rotations and multi-qubit gates (argument order!) keep a fixed share
            classes = {}
            for ns, g in cands:
                classes.setdefault((min(nsim.ARITY[g], 3), g in nsim.NPARAM), []).append((ns, g))
            weights = {(1, False): 3, (1, True): 3, (2, False): 3, (2, True): 2, (3, False): 1}
            menu = [k for k in sorted(classes) for _ in range(weights[k])]
            cands = classes[draw(st.sampled_from(menu))]
            ns, g = draw(st.sampled_from(cands))
            qs = list(draw(st.permutations(live))[: nsim.ARITY[g]])
            op = {"k": "g", "ns": ns, "g": g, "q": qs}
            if g in nsim.NPARAM:
                op["a"] = [draw(angle_expr()) for _ in range(nsim.NPARAM[g])]
                if draw(st.integers(0, 3 if nsim.ARITY[g] == 1 else 1)) == 0:
                    # periods differ between gates (2 pi for rx/ry/rz up to phase, 4 pi for crz, ...): whole and
                    # half numbers of half-turns, as literals and as arithmetic
                    w = draw(st.sampled_from([2.0, -2.0, 6.0, -6.0, 4.0, 1.0, -1.0, 3.0, 0.0, -4.0]))
                    op["a"][0] = draw(st.sampled_from([["lit", w], ["mul", ["pi"], w], ["add", ["lit", w - 1.0], ["pi"]]]))
            ops.append(op)
        final = list(draw(st.permutations(list(range(n)))))
        seed = draw(st.integers(1, 10**6))
        return {"n": n, "ops": ops, "final": final, "mode": mode, "seed": seed}

    return circuit()


def classify(circ):
    """-> (nontrivial, labels) by the stated rule."""
    labels = {"mode:" + circ.get("mode", "?"), f"n={circ['n']}"}
    swapped = nonclif = False
    for op in circ["ops"]:
        if op.get("prep"):
            labels.add("prefix")
            continue
        labels.add("op:" + op_name(op))
        if op["k"] == "g":
            if len(op["q"]) >= 2:
                qs = op["q"]
                if any(qs[i] > qs[i + 1] for i in range(len(qs) - 1)):
                    labels.add("2q:swapped")
                    swapped = True
                if any(abs(qs[i] - qs[i + 1]) > 1 for i in range(len(qs) - 1)):
                    labels.add("2q:nonadjacent")
                    swapped = True
            for a in op.get("a", []):
                f = set()
                afeatures(a, f)
                labels |= f
                if non_clifford(aval(a)):
                    nonclif = True
        elif op["k"] == "snap":
            labels.add("snap:mid-circuit")
    if nonclif:
        labels.add("nonclifford-angle")
    fin = circ["final"]
    if fin != sorted(fin):
        labels.add("final:permuted")
    return swapped and nonclif, labels


def worker(ctx):
    import time

    try:
        get_msb()
    except harness.HarnessError as e:
        ctx.harness_error(str(e))
        return
    ctx.notes["state_result_order"] = _MSB[1]
    ctx.notes["tolerance"] = nsim.TOL
    strategy = strategies()
    pending = []
    buckets = {}  # bucket -> (op names, angle features) of minimised root causes
    shrink_spent = [0.0]
    SHRINK_CAP = ctx.budget_s * 0.4
    SHRINK_ONE = ctx.budget_s * 0.3

    def attribute(kind, circ):
        names, af = circ_features(circ)
        for sig, (n2, a2) in buckets.items():
            if n2 <= names and a2 <= af:
                return sig
        return None

    def emit(sig, circ, seed, detail):
        case = {"circ": {"n": circ["n"], "ops": circ["ops"], "final": circ["final"]}, "seed": seed,
                "bucket": sig, "source": circuit_source(circ)}
        ctx.violation(sig, case, f"{detail}\n--- circuit (seed {seed})\n{circuit_source(circ)}")

    def handle_failures(fails, seed, batch):
        """fails: [(circ, kind, detail)] of one emulated program."""
        rest = []
        for c, kind, detail in fails:
            sig = attribute(kind, c)
            if sig:
                emit(sig, c, seed, detail)  # explained by an already minimised root cause
            else:
                rest.append((c, kind, detail))
        if not rest:
            return
        # confirm in a program of their own (not an artefact of the neighbouring circuits)
        vs = evaluate_batch([c for c, _, _ in rest], seed) if len(rest) < len(batch) else [
            (k, d, {}) for _, k, d in rest]
        confirmed = []
        for (c, kind, detail), (k1, d1, _) in zip(rest, vs):
            if k1 and not k1.startswith("__"):
                confirmed.append((c, k1, d1))
            else:
                ctx.violation(kind + ":batch-only", {"circ": {"n": c["n"], "ops": c["ops"], "final": c["final"]},
                                                     "seed": seed, "bucket": kind + ":batch-only"},
                              f"fails only inside a program with other circuits: {detail}")
        for c, kind, detail in sorted(confirmed, key=lambda x: len(x[0]["ops"])):
            sig = attribute(kind, c)
            small = c
            if sig is None:
                if shrink_spent[0] < SHRINK_CAP and not ctx.out_of_time(0.9):
                    t0 = time.monotonic()
                    deadline = t0 + min(SHRINK_ONE, SHRINK_CAP - shrink_spent[0])
                    small = minimise(c, seed, kind, deadline, time.monotonic)
                    shrink_spent[0] += time.monotonic() - t0
                    k2, d2, _ = run_one(small, seed)
                    if k2 == kind:
                        detail = d2
                    else:
                        small = normalise(c)
                    loc = localise(small, seed)
                    sig, names, af = (bucket_of(loc[0], small, loc[1], loc[2]) if loc
                                      else bucket_of(kind, small, None))
                    buckets[sig] = (names, af)
                else:
                    sig = kind + ":unminimised"
            emit(sig, small, seed, detail)

    def flush():
        if not pending:
            return
        circs = list(pending)
        pending.clear()
        seed = circs[0]["seed"]
        verdicts = evaluate_batch(circs, seed)
        fails = []
        for c, (kind, detail, info) in zip(circs, verdicts):
            nontriv, labels = classify(c)
            labels |= {x for x in info if not x.startswith("_")}
            if kind == "__unsupported__":
                ctx.unsupported_case(detail[:120])
                continue
            if kind == "__harness__":
                ctx.harness_error(detail)
                continue
            key = {"n": c["n"], "ops": c["ops"], "final": c["final"]}
            ctx.case(key, nontriv, labels=sorted(labels), sample=circuit_source(c))
            if kind:
                fails.append((c, kind, detail))
        if fails:
            handle_failures(fails, seed, circs)

    def body(circ):
        pending.append(circ)
        if len(pending) >= BATCH:
            flush()

    harness.hyp_search(ctx, strategy, body, max_examples=ctx.params["n"], chunk=200)
    if not ctx.out_of_time(0.97):
        flush()


SPEC = harness.Spec(
    PROP, worker, replay,
    rule=("Hypothesis draws circuits: 1-4 qubits, optional product-state prefix, 1-12 operations from the 42 gate "
          "bindings (19 std.quantum, their 19 std.quantum.functional forms, qsystem phased_x/zz_phase/zz_max/rz) with "
          "qubit arguments a random permutation of the live qubits and angle expressions (dyadic, float, pi multiples, "
          "+ - * / negation, depth <= 2), plus in modes 'basis'/'super' measure, project_z, reset, discard, measure_array, "
          "discard_array (all forms incl. qubit methods, qsystem.reset/qfree/measure_leaked) and mid-circuit state_result "
          "on permuted subsets; a final state_result lists all live qubits in a drawn order. 64 circuits share one emulated "
          "program. One evaluation = one circuit compared with nsim at every state_result and every reported outcome. "
          "non-trivial = circuit with >= 1 multi-qubit gate whose qubit arguments are swapped or non-adjacent and >= 1 "
          "rotation angle that is not a multiple of a quarter turn; distinct = distinct (n, ops, final order)"),
    assumptions=[
        "tolerance: amplitudes equal within 1e-9 (max-abs) after aligning the global phase; reduced density matrices within 1e-9 element-wise; a reported outcome needs reference probability > 1e-9",
        "state_result qubit order (first listed qubit = most/least significant bit) is calibrated per worker on X-prepared basis states, not assumed",
        "the 1/sqrt2 prefactor printed in front of the whole CH docstring matrix is read as applying to the H block only (controlled-H)",
        "reset reports no outcome: the oracle branches on both outcomes and the reported state must equal one branch; discard = the qubit is traced out",
        "when the listed qubits are entangled with discarded ones (mixed state) the observed reduced density matrix is taken from the simulator's full statevector (PartialVector._inner.get_density_matrix): selene's state_distribution() uses np.linalg.eig whose eigenvectors of a degenerate eigenvalue are not orthogonal, so sum p|v><v| of the public distribution does not reproduce the state; pure states go through the public state_distribution() API",
        "circuits of one program run one after the other (one function per circuit, called from a run-time loop); emulator seed drawn per program",
        "number / angle (angle.__rtruediv__) is read like the other operators, on the half-turn count: angle(number / halfturns)",
        "std.qsystem.measure / measure_and_reset are not executable on the installed selene (DESIGN 1.4) and are left out",
    ],
    shards={"quick": 8, "thorough": 16},
    budget_s={"quick": 90, "thorough": 840},
    params={"quick": {"n": 384}, "thorough": {"n": 6400}},
    min_nontrivial=100,
)

if __name__ == "__main__":
    harness.main(SPEC)
