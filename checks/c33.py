"""C33 Experimental features are gated and the gate state is restored.

Domain: histories over the public gate API (`guppylang.enable_experimental_features`,
`guppylang.experimental.disable_experimental_features`): plain calls, `with enable:` /
`with disable:` blocks opened and closed in LIFO order (construct + `__enter__`, later
`__exit__` with or without an exception, exactly what a `with` statement does), interleaved
with `check()` of a freshly loaded program using one gated feature (list literal / list
comprehension / list type, function tensor call, capturing closure, modifier block) or none
(control).  A Hypothesis RuleBasedStateMachine draws the histories; every history is a plain
list of steps that `replay` re-runs without Hypothesis.

Oracle (written from the statement, not from experimental.py): model = current flag + stack of
the values saved when each block was opened.  After every step the process-global flag equals
the model; a gated program is rejected with the experimental-feature diagnostic iff the model
says disabled and accepted otherwise; the control program is always accepted."""
import os
import sys
import warnings

sys.path.insert(0, os.path.dirname(os.path.dirname(os.path.abspath(__file__))))
from vlib import harness  # noqa: E402

PROP = "C33"

# --------------------------------------------------------------------------- programs
# feature -> source template.  `{k}` only varies constants so programs are distinct.
_TENSOR_DEFS = ("@guppy\ndef f(x: int) -> int:\n    return x + {k}\n\n"
                "@guppy\ndef g(x: int) -> int:\n    return x * 2\n\n")
PROGRAMS = {
    # --- lists
    "list_literal": "@guppy\ndef main() -> None:\n    [1, {k}, 3]\n",
    "list_assign": "@guppy\ndef main() -> int:\n    xs = [{k}, 2]\n    return 1\n",
    "list_comp": "@guppy\ndef main() -> None:\n    [i + {k} for i in range(4)]\n",
    "list_type": "@guppy\ndef main(x: list[int]) -> list[int]:\n    return x\n",
    # --- function tensors (synthesising and checking position)
    "tensor_stmt": _TENSOR_DEFS + "@guppy\ndef main() -> None:\n    (f, g)(1, {k})\n",
    "tensor_return": _TENSOR_DEFS + "@guppy\ndef main() -> tuple[int, int]:\n    return (f, g)({k}, 2)\n",
    # --- capturing closures
    "closure_local": ("@guppy\ndef main() -> int:\n    x = {k}\n    def inner() -> int:\n        return x\n"
                      "    return inner()\n"),
    "closure_arg": "@guppy\ndef main(y: int) -> None:\n    def inner() -> int:\n        return y + {k}\n",
    # --- modifier blocks
    "mod_dagger": "@guppy\ndef main() -> None:\n    with dagger:\n        pass\n",
    "mod_control": "@guppy\ndef main(q: qubit) -> None:\n    with control(q):\n        pass\n",
    "mod_power": "@guppy\ndef main() -> None:\n    with power({k}):\n        pass\n",
    # --- more shapes of every gated feature (each pinned: accepted with the gate open, rejected with the gate's
    # diagnostic when it is closed)
 "closure_recursive": "@guppy\ndef main(n: int) -> int:\n    x = {k}\n    def inner(m: int) -> int:\n        if m <= 0:\n            return x\n        return inner(m - 1) + x\n    return inner(n)\n",
    "closure_nested2": "@guppy\ndef main() -> int:\n    x = {k}\n    def outer() -> int:\n        def inner() -> int:\n            return x + 1\n        return inner()\n    return outer()\n",
    "closure_in_branch": "@guppy\ndef main(c: bool) -> int:\n    x = {k}\n    if c:\n        def inner() -> int:\n            return x\n        return inner()\n    return 0\n",
    "closure_two_caps": "@guppy\ndef main(a: int) -> int:\n    x = {k}\n    y = a + 1\n    def inner(z: int) -> int:\n        return x + y + z\n    return inner(1)\n",
    "list_arg": "@guppy\ndef main() -> int:\n    return len([1, {k}, 3])\n",
    "list_return": "@guppy\ndef main() -> list[int]:\n    return [1, {k}]\n",
    "list_in_branch": "@guppy\ndef main(c: bool) -> int:\n    if c:\n        xs = [1, {k}]\n    return 1\n",
    "list_nested_def": "@guppy\ndef main() -> int:\n    def inner(xs: list[int]) -> int:\n        return 1\n    return 2\n",
    "list_comp_call": "@guppy\ndef main() -> int:\n    return len([i for i in range({k})])\n",
    "tensor_in_call": "@guppy\ndef f(x: int) -> int:\n    return x + {k}\n\n@guppy\ndef g(x: int) -> int:\n    return x * 2\n\n@guppy\ndef h(a: int, b: int) -> int:\n    return a + b\n\n@guppy\ndef main() -> int:\n    a, b = (f, g)(1, {k})\n    return h(a, b)\n",
    "mod_two": "@guppy\ndef main(q: qubit) -> None:\n    with dagger, control(q):\n        pass\n",
    "mod_nested": "@guppy\ndef main(q: qubit) -> None:\n    with control(q):\n        with dagger:\n            pass\n",
    "mod_in_loop": "@guppy\ndef main() -> None:\n    for i in range({k}):\n        with dagger:\n            pass\n",
    "mod_in_nested_def": "@guppy\ndef main() -> None:\n    def inner() -> None:\n        with power({k}):\n            pass\n    inner()\n",
    "mod_in_branch": "@guppy\ndef main(c: bool) -> None:\n    if c:\n        with dagger:\n            pass\n",
    # --- ungated control: nested non-capturing def, tuple, ordinary calls, loop
    "control": ("@guppy\ndef h(x: int) -> int:\n    return x * 2\n\n"
                "@guppy\ndef main(a: int) -> tuple[int, int]:\n"
                "    def inner(z: int) -> int:\n        return z + {k}\n"
                "    s = 0\n    for i in range(3):\n        s += i\n"
                "    return (inner(a), h(s))\n"),
}
FAMILY = {"list_literal": "lists", "list_assign": "lists", "list_comp": "lists", "list_type": "lists",
          "tensor_stmt": "tensors", "tensor_return": "tensors",
          "closure_local": "closures", "closure_arg": "closures",
          "mod_dagger": "modifiers", "mod_control": "modifiers", "mod_power": "modifiers",
          "closure_recursive": "closures", "closure_nested2": "closures", "closure_in_branch": "closures",
          "closure_two_caps": "closures", "list_arg": "lists", "list_return": "lists", "list_in_branch": "lists",
          "list_nested_def": "lists", "list_comp_call": "lists", "tensor_in_call": "tensors", "mod_two": "modifiers",
          "mod_nested": "modifiers", "mod_in_loop": "modifiers", "mod_in_nested_def": "modifiers", "mod_in_branch": "modifiers",
          "control": "control"}
GATED = [f for f in PROGRAMS if f != "control"]


def program(feature, k):
    from vlib import runner

    return runner.PRELUDE + "\n" + PROGRAMS[feature].replace("{k}", str(int(k)))


def is_gate_diagnostic(feature, out):
    """The experimental-feature diagnostic of the statement.  For capturing closures the
    unchanged tree words the gate's own message as 'Unsupported: Capturing closures are not
    supported' (DESIGN C33) - accepted for that family only."""
    text = (out.title + "\n" + out.message).lower()
    if "experimental feature" in text:
        return True
    return FAMILY[feature] == "closures" and "capturing closures are not supported" in text


# --------------------------------------------------------------------------- interpreter
class Mismatch(Exception):
    def __init__(self, bucket, detail, history):
        super().__init__(f"{bucket}: {detail}")
        self.bucket, self.detail, self.history = bucket, detail, list(history)


class _Boom(Exception):
    """The exception 'raised inside the with block' for exceptional exits."""


def render(steps):
    out = []
    for s in steps:
        if s[0] == "open":
            out.append(f"with {s[1]}:")
        elif s[0] == "close":
            out.append("exit!" if s[1] else "exit")
        elif s[0] == "check":
            out.append(f"check({s[1]},{s[2]})")
        elif s[0] == "recheck":
            out.append(f"recheck(-{s[1] + 1})")
        else:
            out.append(s[0] + "()")
    return " ; ".join(out)


class Interp:
    """Runs steps against the real API next to the reference model."""

    def __init__(self):
        import guppylang
        import guppylang.experimental as pub
        import guppylang_internals.experimental as impl

        self.impl = impl
        self.ctor = {"enable": guppylang.enable_experimental_features,
                     "disable": pub.disable_experimental_features}
        if pub.enable_experimental_features is not guppylang.enable_experimental_features:
            raise harness.HarnessError("two different public enable_experimental_features")
        self.flag = False  # model: current setting
        self.saved = []  # model: value to restore for every open block (LIFO)
        self.cms = []  # the real context manager objects
        self.history = []
        self.max_depth = 0
        self.exc_exits = 0
        self.checks = []  # (feature, enabled?) for labels
        self.mods = []  # [feature, loaded module] of the most recent checks (for "recheck")
        self.rechecks = 0

    # -- observation of the anchored state
    def real_flag(self):
        try:
            return self.impl.EXPERIMENTAL_FEATURES_ENABLED
        except AttributeError as e:  # the anchor moved: cannot judge
            raise harness.HarnessError(f"gate flag not found: {e}") from None

    def fail(self, bucket, detail):
        raise Mismatch(bucket, f"{detail}\nhistory: {render(self.history)}", self.history)

    def begin(self, reset=True):
        """Baseline: one plain disable() call (or nothing in a fresh process)."""
        if reset:
            self.ctor["disable"]()
        if self.real_flag() is not False:
            self.fail("flag.baseline", f"flag is {self.real_flag()!r} "
                      + ("after a plain disable() call" if reset else "in a fresh process before any call"))

    def step(self, s):
        s = list(s)
        self.history.append(s)
        kind = s[0]
        if kind in ("enable", "disable"):
            try:
                self.ctor[kind]()
            except Exception as e:  # noqa: BLE001
                self.fail(f"api.{kind}_call.raises", f"{kind}() raised {e!r}")
            self.flag = kind == "enable"
            tag = f"{kind}_call"
        elif kind == "open":
            # `with X():` = construct, look __enter__/__exit__ up on the type, call __enter__
            try:
                cm = self.ctor[s[1]]()
                type(cm).__exit__  # noqa: B018  (the with statement requires both)
                type(cm).__enter__(cm)
            except Exception as e:  # noqa: BLE001
                self.fail(f"cm.protocol.{s[1]}", f"`with {s[1]}_experimental_features():` cannot be entered: {e!r}")
            self.cms.append(cm)
            self.saved.append(self.flag)
            self.flag = s[1] == "enable"
            self.max_depth = max(self.max_depth, len(self.cms))
            tag = f"open_{s[1]}"
        elif kind == "close":
            if not self.cms:
                raise harness.HarnessError("close without an open block (generator unsound)")
            cm = self.cms.pop()
            try:
                if s[1]:
                    self.exc_exits += 1
                    try:
                        raise _Boom("raised inside the with block")
                    except _Boom as e:
                        type(cm).__exit__(cm, type(e), e, e.__traceback__)
                else:
                    type(cm).__exit__(cm, None, None, None)
            except Exception as e:  # noqa: BLE001
                self.fail("cm.protocol.exit", f"__exit__ raised {e!r}")
            self.flag = self.saved.pop()
            tag = "close_exc" if s[1] else "close"
        elif kind == "check":
            self._check(s[1], s[2])
            tag = "check"
        elif kind == "recheck":
            # the same definition object checked again (s[1] = how far back) under the current setting
            if self.mods:
                feature, lm = self.mods[-1 - (s[1] % len(self.mods))]
                self.rechecks += 1
                self._judge(feature, lm, again=True)
            tag = "recheck"
        else:
            raise harness.HarnessError(f"unknown step {s!r}")
        got = self.real_flag()
        if got != self.flag:
            self.fail(f"flag.after_{tag}",
                      f"after step {len(self.history)} ({render([s])}) the gate flag is {got!r}, "
                      f"model (stack of saved values {self.saved}) says {self.flag!r}")

    def _check(self, feature, k):
        from vlib import runner

        with warnings.catch_warnings():
            warnings.simplefilter("ignore")
            lm = runner.load_module(program(feature, k))  # a fresh module for every "check" step
        self.mods.append([feature, lm])
        if len(self.mods) > 3:
            self.mods.pop(0)[1].dispose()
        self._judge(feature, lm)

    def dispose(self):
        for _, lm in self.mods:
            lm.dispose()
        self.mods = []

    def _judge(self, feature, lm, again=False):
        from vlib import runner

        out = runner.check_def(lm.mod.main)
        self.checks.append((feature, self.flag))
        state = ("enabled" if self.flag else "disabled") + (" (definition checked before)" if again else "")
        if out.kind == "crash":
            self.fail(f"crash.{feature}.{runner.crash_bucket(out.exc)}",
                      f"check() of {feature} program while {state} crashed:\n{out.message[-1200:]}")
        if feature == "control":
            if out.kind != "ok":
                self.fail("control.rejected", f"ungated control program rejected while {state}: {out.brief()}\n{out.message[:800]}")
            return
        fam = FAMILY[feature]
        if self.flag:
            if out.kind != "ok":
                self.fail(f"gate.{fam}.{feature}.rejected_while_enabled",
                          f"{feature} program rejected although experimental features are enabled: {out.brief()}\n{out.message[:800]}")
        else:
            if out.kind == "ok":
                self.fail(f"gate.{fam}.{feature}.accepted_while_disabled",
                          f"{feature} program accepted although experimental features are disabled")
            if not is_gate_diagnostic(feature, out):
                self.fail(f"gate.{fam}.{feature}.other_diagnostic_while_disabled",
                          f"{feature} program rejected while disabled, but not with the experimental-feature diagnostic: {out.brief()}\n{out.message[:800]}")

    def nontrivial(self):
        return self.max_depth >= 2 and self.exc_exits >= 1

    def labels(self):
        labs = ["recheck:" + ("yes" if self.rechecks else "no"), f"depth:{min(self.max_depth, 4)}", "exc_exit:" + ("yes" if self.exc_exits else "no"),
                "nontrivial" if self.nontrivial() else "trivial"]
        for fam in sorted({FAMILY[f] + (":enabled" if en else ":disabled") for f, en in self.checks}):
            labs.append("check:" + fam)
        if any(s[0] in ("enable", "disable") for s in self.history) and self.max_depth:
            labs.append("plain_call+block")
        return labs


def run_history(steps, reset=True):
    it = Interp()
    try:
        it.begin(reset)
        for s in steps:
            it.step(s)
    except Mismatch as m:
        return (m.bucket, m.detail)
    finally:
        it.dispose()
        # leave the process in the baseline state whatever happened
        try:
            it.impl.EXPERIMENTAL_FEATURES_ENABLED = False
        except Exception:  # noqa: BLE001
            pass
    return None


def replay(case):
    return run_history(case["steps"], reset=not case.get("fresh_process", False))


# --------------------------------------------------------------------------- worker
def make_machine(ctx):
    from hypothesis import strategies as st
    from hypothesis.stateful import RuleBasedStateMachine, initialize, precondition, rule

    class GateMachine(RuleBasedStateMachine):
        def __init__(self):
            super().__init__()
            self.it = Interp()
            self.failed = False

        def _do(self, s):
            try:
                self.it.step(s)
            except Mismatch:
                self.failed = True
                raise

        @initialize()
        def baseline(self):
            try:
                self.it.begin(True)
            except Mismatch:
                self.failed = True
                raise

        @rule()
        def enable_call(self):
            self._do(["enable"])

        @rule()
        def disable_call(self):
            self._do(["disable"])

        @rule(which=st.sampled_from(["enable", "disable"]))
        def open_block(self, which):
            self._do(["open", which])

        @rule(which=st.sampled_from(["enable", "disable"]))
        def open_block2(self, which):  # second copy: opening is as likely as closing
            self._do(["open", which])

        @precondition(lambda self: self.it.cms)
        @rule()
        def close_block(self):
            self._do(["close", False])

        @precondition(lambda self: self.it.cms)
        @rule()
        def close_block_exc(self):
            self._do(["close", True])

        @rule(feature=st.sampled_from(GATED), k=st.integers(2, 5))
        def check_gated(self, feature, k):
            self._do(["check", feature, k])

        @rule(feature=st.sampled_from(GATED), k=st.integers(2, 5))
        def check_gated2(self, feature, k):
            self._do(["check", feature, k])

        @rule(k=st.integers(2, 5))
        def check_control(self, k):
            self._do(["check", "control", k])

        @precondition(lambda self: self.it.mods)
        @rule(back=st.sampled_from([0, 0, 0, 1, 2]))
        def recheck(self, back):
            self._do(["recheck", back])

        @precondition(lambda self: self.it.mods)
        @rule(which=st.sampled_from(["enable", "disable"]), how=st.sampled_from(["call", "open", "close"]))
        def flip_then_recheck(self, which, how):
            """the setting changes and the definition checked last is checked again straight away"""
            if how == "call":
                self._do([which])
            elif how == "open" or not self.it.cms:
                self._do(["open", which])
            else:
                self._do(["close", False])
            self._do(["recheck", 0])

        def teardown(self):
            it = self.it
            if not self.failed and it.history:
                ctx.case(it.history, it.nontrivial(), labels=it.labels())
                ctx.sample(("nontrivial" if it.nontrivial() else "trivial") + f"/depth{min(it.max_depth, 4)}",
                           {"history": render(it.history), "final_flag": it.flag})
            it.dispose()
            it.impl.EXPERIMENTAL_FEATURES_ENABLED = False  # next machine starts from the baseline

    return GateMachine


def worker(ctx):
    # 1. fresh process, before any API call: gate closed by default, every gated program rejected
    steps = [["check", f, 2] for f in PROGRAMS]
    r = run_history(steps, reset=False)
    ctx.case(("fresh", steps), False, labels=("fresh_process_default",),
             sample={"history": "<fresh process> " + render(steps)})
    if r:
        ctx.violation(r[0], {"steps": steps, "fresh_process": True}, r[1])

    # 2. generated histories
    machine = make_machine(ctx)
    n, chunk = ctx.params["n"], ctx.params.get("chunk", 40)
    failing_chunks = 0
    done = 0
    k = 0
    while done < n and not ctx.out_of_time(0.8) and failing_chunks < 2 and not (failing_chunks and ctx.out_of_time(0.25)):
        e = harness.run_machine(ctx, machine, max_examples=min(chunk, n - done), steps=ctx.params["steps"],
                                extra_seed=k)
        done += chunk
        k += 1
        if e is None:
            continue
        failing_chunks += 1
        if isinstance(e, Mismatch):
            # e comes from the last (shrunk) execution of the failing history
            ctx.violation(e.bucket, {"steps": e.history}, e.detail)
        else:
            import traceback

            ctx.harness_error("machine failed outside the oracle: " + "".join(
                traceback.format_exception(type(e), e, e.__traceback__))[-2500:])


SPEC = harness.Spec(
    PROP, worker, replay,
    rule=("Hypothesis RuleBasedStateMachine over the public gate API: plain enable()/disable() calls, `with enable:` / "
          "`with disable:` blocks opened (construct + __enter__) and closed LIFO (__exit__ with None or with a raised "
          "exception + traceback), and check() of a freshly loaded module using one gated feature (4 list shapes, 2 function "
          "tensor positions, 2 closure shapes, 3 modifiers) or the ungated control program, and re-checks of one of the last 3 "
          "definition objects under the then current setting (also straight after the setting changed); plus one fresh-process case per "
          "shard checking the default (closed) gate. Each machine run = one history = one case. non-trivial = history "
          "whose block nesting depth reaches >= 2 and that has >= 1 exceptional exit; distinct = distinct step list"),
    assumptions=[
        "a `with X():` block is modelled as constructor + type(cm).__enter__ at open and type(cm).__exit__ at close (what the with statement executes); blocks close in LIFO order",
        "for capturing closures the gate's own wording 'Unsupported: Capturing closures are not supported' counts as the experimental-feature diagnostic",
        "the gate flag is read from guppylang_internals.experimental.EXPERIMENTAL_FEATURES_ENABLED (anchored state)",
        "a context manager object constructed early and entered later is outside the domain (the `with` statement constructs and enters in one step)",
    ],
    shards={"quick": 16, "thorough": 16},
    budget_s={"quick": 90, "thorough": 600},
    params={"quick": {"n": 120, "steps": 14, "chunk": 40}, "thorough": {"n": 4000, "steps": 30, "chunk": 200}},
    min_nontrivial=30,
)

if __name__ == "__main__":
    harness.main(SPEC)
