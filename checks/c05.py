"""C05 Side effects happen once each, in Python's evaluation order.

Domain: GenEffects (vlib/gen/effects.py) - expression trees over result-reporting helpers
(ti/tb/tf/g2/g3/boom/mz) combined with operators, calls, tuple/struct construction,
subscripts, and/or/not, conditional expressions, chained comparisons, walrus, augmented and
subscript assignment, placed in assignments, if/while conditions, return, call arguments.
Oracle: ordered emulator result stream (+ panic message) == pyref's trace of the same source."""
import os
import sys

sys.path.insert(0, os.path.dirname(os.path.dirname(os.path.abspath(__file__))))
from vlib import harness  # noqa: E402

PROP = "C05"

# fixed probes of the known-finding classes (see known_findings.json)
PROBES = {
    "nested_subscript_order": '''
@guppy
def main() -> None:
    xss = array(array(1, 2), array(3, 4))
    result("v", xss[ti(1, 1)][ti(2, 0)])
''',
    "chain_middle_effect": '''
@guppy
def main() -> None:
    result("v", 1 < ti(1, 5) < 9)
''',
    "effect_before_lifted": '''
@guppy
def main() -> None:
    c = True
    x = ti(1, 10) + (ti(2, 20) if c else ti(3, 30))
    result("v", x)
''',
}


from vlib.effects_eval import evaluate  # noqa: E402


def replay(case):
    from vlib.gen import effects

    src = case["src"] if "src" in case else effects.HELPERS + PROBES[case["probe"]]
    st, bucket, detail = evaluate(src)
    if st == "mismatch":
        return (case.get("bucket") or bucket, detail)
    return None


def worker(ctx):
    from vlib.gen import effects

    strat = effects.programs(allow_known=False)
    batches = effects.program_batches(k=ctx.params.get("batch", 5), allow_known=False)
    mism = []
    outside = [0]
    total = [0]

    def record(p, st, bucket, detail):
        src = p["src"]
        total[0] += 1
        for e in p["excluded"]:
            ctx.exclude(e)
        ctx.case(src, p["nontrivial"] and st == "ok", labels=list(p["labels"]) + ["status:" + st],
                 sample={"src": src[src.index("def p"):] if "def p" in src else src[src.index("def main"):], "status": st}
                 if p["nontrivial"] and st == "ok" else None)
        if st == "mismatch":
            mism.append((bucket, src, detail))
        elif st == "generr":
            ctx.harness_error(detail + "\n" + src)
        elif st == "outside":
            outside[0] += 1
            ctx.label("outside:" + bucket)
            ctx.sample("outside:" + bucket, {"src": src[src.index("def main"):], "why": detail})
        elif st == "unsupported":
            ctx.unsupported_case(bucket)

    def body(b):
        # one selene build for the whole batch (only its last program may panic); if the batch is
        # not clean every program is judged on its own
        st, bucket, detail = evaluate(b["src"])
        if st == "ok":
            for p in b["parts"]:
                record(p, "ok", None, None)
            return
        ctx.label("batch_not_clean:" + st)
        for p in b["parts"]:
            record(p, *evaluate(p["src"]))

    harness.hyp_search(ctx, batches, body, max_examples=ctx.params["n"], chunk=10, time_frac=0.6)
    n = total[0]
    if n >= 20 and outside[0] > 0.1 * n:
        ctx.harness_error(f"generator unsound: {outside[0]}/{n} generated programs were not accepted")

    # second half: the known classes are *allowed*; a mismatch there is attributed to the class
    strat2 = effects.programs(allow_known=True)

    def body2(p):
        kn = [l[6:] for l in p["labels"] if l.startswith("known:")]
        if not kn:
            return
        st, bucket, detail = evaluate(p["src"])
        ctx.label("knownclass:" + "+".join(kn) + ":" + st)
        if st == "mismatch":
            ctx.violation("known." + "+".join(sorted(kn)), {"src": p["src"], "bucket": "known." + "+".join(sorted(kn))}, detail)

    if ctx.params.get("n_known"):
        harness.hyp_search(ctx, strat2, body2, max_examples=ctx.params["n_known"], chunk=25, time_frac=0.75, extra_seed=7)

    seen = set()
    for bucket, src, detail in mism:
        if bucket in seen:
            continue
        seen.add(bucket)
        if not ctx.out_of_time(0.8):
            def fails(p, _b=bucket):
                st, b, d = evaluate(p["src"])
                return (p["src"], d) if st == "mismatch" and b == _b else None
            r = harness.hyp_shrink(ctx, strat, fails, budget_s=min(60, ctx.budget_s * 0.2), max_examples=150)
            if r:
                src, detail = r[1]
        ctx.violation(bucket, {"src": src, "bucket": bucket}, detail + "\n" + src[src.index("def main"):])


SPEC = harness.Spec(
    PROP, worker, replay,
    rule=("GenEffects builds 1-4 statements (assignment, if/while condition, return, call arguments, augmented / subscript "
          "assignment, tuple assignment, result argument) whose expressions are trees (depth<=4, <=10 leaves) over "
          "result-reporting helpers ti/tb/tf/g2/g3, boom (panic) and mz (qubit alloc+measure) with + - *, unary -, calls, tuple "
          "index, struct field, array subscript, and/or/not, conditional expressions, (chained) comparisons, walrus. "
          "non-trivial = some statement with >=3 effectful leaves of which >=1 under a short-circuit / conditional / chained "
          "node; distinct = distinct source. Known-finding shapes are excluded by construction in the main search (counted) "
          "and searched separately with mismatches attributed to their class"),
    assumptions=["CPython 3.12 evaluation order is the reference", "selene 0.4.3 executes the lowered package; result order in the stream is execution order"],
    shards={"quick": 16, "thorough": 16},
    budget_s={"quick": 100, "thorough": 1200},
    params={"quick": {"n": 12, "batch": 5, "n_known": 6}, "thorough": {"n": 500, "batch": 5, "n_known": 300}},
    min_nontrivial=30,
)

if __name__ == "__main__":
    harness.main(SPEC)
