"""C22 Comptime tracing enforces ownership.

Domain.  A case is one straight-line `@guppy.comptime` function `main` with 0-3 parameters
(`@owned` or borrowed) of a type of nesting depth <= 2 over qubits:
    qubit | array[qubit, 1..3] | tuple[qubit, qubit] | S1{q, r} | S3{q, n: int} |
    array[array[qubit,2],2] | array[tuple[qubit,qubit],2] | array[S1,2] |
    tuple[array[qubit,2], qubit] | tuple[S1, qubit] | tuple[tuple[qubit,qubit], qubit] |
    S2{qs: array[qubit,2], q} | S4{t: tuple[qubit,qubit], q}
or over *affine* values - non-copyable but droppable, and kept as one abstract object while tracing
(`array[int, 0]`, `Option[array[int, 2]]`; a non-empty classical array is unpacked into a Python list of
copyable ints, so it is not one non-copyable value any more):
    array[int, 0] | Option[array[int, 2]] | tuple[array[int, 0], qubit] | array[Option[array[int, 2]], 2] |
    tuple[Option[array[int, 2]], array[int, 0]] | S5{e: array[int, 0], q}
and a body built from ownership events on *paths* (`p0`, `p0[1]`, `p1.qs[0]`, `v2.t[1]`, ...):
    borrow   h(P) / declared `use_<T>(P)`            (borrows every qubit inside P)
    consume  discard(P) / measure(P) / declared `eat_<T>(P @owned)`
    alloc    v = qubit() | mk_<T>() | [X, ..] | (X, ..) | S(X, ..)     (X = path or fresh value)
    alias    v = P,   v = L.copy(),   v = L.pop(i)
    mutate   every mutating operation of list: append extend insert pop remove clear reverse sort
             __setitem__ (index and slice) __delitem__ (index and slice) __iadd__ __imul__, and
             struct field assignment (qubit-holding and classical fields) on any list / struct
             reachable from a parameter or a local, incl. nested ones and elements of `.copy()`
    return   None | P | (P, P) | [P, P]
A deterministic product (every op x every list/struct position inside every parameter type x
owned/borrowed x direct / via alias / via copy()) is swept first, then random bodies of 2-7 events
are drawn; most bodies are then *finalised* (every still-live local/owned qubit is discarded and
broken borrowed lists / structs are refilled) so that the one interesting event decides the verdict.

Oracle (a reference interpreter of the statements, written from the property statement; it never
looks at guppylang).  A trace is linear, so the model is a counter per qubit object plus plain
Python reference semantics for lists / tuples / struct objects:
  * (an affine value is tracked like a qubit - at most one consuming use, live when lent or handed back - but
    it may be dropped: it never leaks)
  * every qubit is live or consumed.  Passing a value to a function packs it: each qubit inside must
    be live and occur once (else `reuse`); an @owned parameter / discard / measure / return consumes
    them, a borrowing call leaves them live.
  * lists and structs reachable from an @owned parameter (at any depth; `copy()` gives a fresh
    mutable outer list whose elements are still the owned ones) reject every mutation
    (`owned_mutation`); all others follow Python.
  * at the end: the returned value is packed (consumed); every borrowed parameter object must still
    have its declared type with every qubit in it live and distinct (`borrowed_broken`) - replaced
    elements are fine; then no qubit may be live (`leak`).
Expected = first failing rule in execution order, or `ok`.  Observed: compile_function() must raise
GuppyError / GuppyComptimeError iff the model fails, with the message class of the same rule (message
classes taken from tests/error/tracing_errors/*.err), any other exception is a crash; accepted
programs must pass `hugr validate`.

Buckets: accepted.<rule>[.<op>] (model fails, compiler accepts) / rejected.<message class> (model ok,
compiler rejects) / wrong_rule.<expected>.<got> / invalid_hugr / crash.<signature>.
"""
import json
import os
import sys

sys.path.insert(0, os.path.dirname(os.path.dirname(os.path.abspath(__file__))))
from vlib import harness  # noqa: E402

PROP = "C22"

#: Input class of a finding of this check (see the final report / known_findings.json):
#: a container holding a plain Python value (here: `s.n = 3` on a borrowed struct) is passed to a
#: *borrowing* call.  update_packed_value then stores the GuppyObject of the whole container into
#: that field / element instead of the field's own object, so any later use of the container fails
#: with "Field `n` ... has an unexpected type" (or silently carries a wrong value).
H_PYLEAF = "borrow_call.python_leaf_replaced"

#: Classes left out by construction.  Active when known_findings.json lists the key for C22 or when
#: forced by VERIF_C22_EXCLUDE=all|<key,..> (used for sensitivity runs and to search behind the finding).
EXCLUDE = {H_PYLEAF: "a struct whose classical field holds a plain Python value is passed to a borrowing call"}


#: fixed probe inputs of the finding classes (run by shard 0 unless the class is excluded; the same
#: dict is the `probe` of the known_findings.json entry)
PROBES = {
    H_PYLEAF: {
        "params": [{"n": "p0", "t": ["st", "S3"], "own": False}],
        "body": [{"k": "mut", "op": "setfield_c", "t": ["v", "p0"], "f": "n", "xs": [["int", 3]]},
                 {"k": "use", "f": "borrow", "e": ["v", "p0"], "ty": ["st", "S3"]}],
        "ret": None, "ret_ty": None,
    },
}


def active_exclusions():
    env = os.environ.get("VERIF_C22_EXCLUDE", "")
    act = set()
    if env:
        act |= set(EXCLUDE) if env == "all" else {k for k in env.split(",") if k in EXCLUDE}
    try:
        known, _ = harness.load_known(PROP)
        act |= {k["key"] for k in known if k.get("key") in EXCLUDE}
    except Exception:  # noqa: BLE001
        pass
    return act

STRUCTS = {
    "S1": [("q", "q"), ("r", "q")],
    "S2": [("qs", ["arr", "q", 2]), ("q", "q")],
    "S3": [("q", "q"), ("n", "int")],
    "S4": [("t", ["tup", ["q", "q"]]), ("q", "q")],
    "S5": [("e", "z"), ("q", "q")],
}
Q = "q"
#: affine leaf types: non-copyable, droppable, not unpacked by tracing (one GuppyObject each)
AFFINE = {"z": ("array[int, 0]", "a0int"), "o": ("Option[array[int, 2]]", "optarr")}
PARAM_TYPES = [
    Q, ["arr", Q, 1], ["arr", Q, 2], ["arr", Q, 3], ["tup", [Q, Q]], ["st", "S1"], ["st", "S3"],
    ["arr", ["arr", Q, 2], 2], ["arr", ["tup", [Q, Q]], 2], ["arr", ["st", "S1"], 2],
    ["tup", [["arr", Q, 2], Q]], ["tup", [["st", "S1"], Q]], ["tup", [["tup", [Q, Q]], Q]],
    ["st", "S2"], ["st", "S4"],
    "z", "o", ["tup", ["z", Q]], ["arr", "o", 2], ["tup", ["o", "z"]], ["st", "S5"],
]
LIST_OPS = ["append", "extend", "insert", "pop", "popi", "remove", "clear", "reverse", "sort", "setitem",
            "setslice", "delitem", "delslice", "iadd", "imul"]
#: the dunder / method each op exercises (for labels and buckets)
OP_METHOD = {"append": "append", "extend": "extend", "insert": "insert", "pop": "pop", "popi": "pop",
             "remove": "remove", "clear": "clear", "reverse": "reverse", "sort": "sort",
             "setitem": "__setitem__", "setslice": "__setitem__slice", "delitem": "__delitem__",
             "delslice": "__delitem__slice", "iadd": "__iadd__", "imul": "__imul__",
             "setfield": "struct.__setattr__", "setfield_c": "struct.__setattr__classical"}


# =============================================================================== types
def tt(t):
    """hashable form of a JSON type"""
    return tuple(tt(x) for x in t) if isinstance(t, (list, tuple)) else t


def ty_str(t):
    t = tt(t)
    if t == "q":
        return "qubit"
    if t == "int":
        return "int"
    if t in AFFINE:
        return AFFINE[t][0]
    if t[0] == "arr":
        return f"array[{ty_str(t[1])}, {t[2]}]"
    if t[0] == "tup":
        return "tuple[" + ", ".join(ty_str(x) for x in t[1]) + "]"
    return t[1]


def ty_mangle(t):
    t = tt(t)
    if t in ("q", "int"):
        return t
    if t in AFFINE:
        return AFFINE[t][1]
    if t[0] == "arr":
        return f"a{t[2]}{ty_mangle(t[1])}"
    if t[0] == "tup":
        return "t" + "".join(ty_mangle(x) for x in t[1]) + "e"
    return t[1]


def ty_json(t):
    return [ty_json(x) for x in t] if isinstance(t, (list, tuple)) else t


# =============================================================================== model
class ModelError(Exception):
    def __init__(self, rule, why=""):
        super().__init__(rule, why)
        self.rule, self.why = rule, why


class Atom:
    """one non-copyable object: a qubit (ty "q", must not be dropped) or an affine value (ty in AFFINE)"""
    __slots__ = ("id", "origin", "live", "events", "ty")

    def __init__(self, id_, origin, ty="q"):
        self.id, self.origin, self.live, self.events, self.ty = id_, origin, True, 0, ty


class GInt:
    """a classical Guppy value (wire); plain Python ints in the model are Python ints of the program"""
    __slots__ = ()


class MList:
    __slots__ = ("items", "frozen", "elty")

    def __init__(self, items, frozen, elty):
        self.items, self.frozen, self.elty = items, frozen, elty


class MTuple:
    __slots__ = ("items",)

    def __init__(self, items):
        self.items = tuple(items)


class MStruct:
    __slots__ = ("name", "fields", "frozen")

    def __init__(self, name, fields, frozen):
        self.name, self.fields, self.frozen = name, fields, frozen


class Model:
    """Reference interpreter.  Raises ModelError(rule) at the first failing rule, HarnessError when a
    statement is not executable in Python terms (generator bug)."""

    def __init__(self, params):
        self.atoms = []
        self.env = {}
        self.params = []
        self.nested_mut = False
        self.mut_log = []  # (op, frozen)
        self.hazards = set()  # known-finding input classes this trace belongs to
        for p in params:
            v = self.fresh(p["t"], "owned" if p["own"] else "borrowed", frozen=bool(p["own"]))
            self.env[p["n"]] = v
            self.params.append((p["n"], tt(p["t"]), bool(p["own"]), v))

    # ---------------------------------------------------------------- values
    def fresh(self, t, origin, frozen=False):
        t = tt(t)
        if t == "q" or t in AFFINE:
            a = Atom(len(self.atoms), origin, t)
            self.atoms.append(a)
            return a
        if t == "int":
            return GInt()
        if t[0] == "arr":
            return MList([self.fresh(t[1], origin, frozen) for _ in range(t[2])], frozen, t[1])
        if t[0] == "tup":
            return MTuple([self.fresh(x, origin, frozen) for x in t[1]])
        return MStruct(t[1], {f: self.fresh(ft, origin, frozen) for f, ft in STRUCTS[t[1]]}, frozen)

    def typeof(self, v):
        """type a value packs to, or None if packing is a type error (empty / incoherent list,
        struct field of the wrong type)"""
        if isinstance(v, Atom):
            return v.ty
        if isinstance(v, (int, GInt)):
            return "int"
        if isinstance(v, MList):
            if not v.items:
                return None
            ts = [self.typeof(x) for x in v.items]
            if ts[0] is None or any(x != ts[0] for x in ts):
                return None
            return ("arr", ts[0], len(ts))
        if isinstance(v, MTuple):
            ts = [self.typeof(x) for x in v.items]
            return None if any(x is None for x in ts) else ("tup", tuple(ts))
        for f, ft in STRUCTS[v.name]:
            if self.typeof(v.fields[f]) != tt(ft):
                return None
        return ("st", v.name)

    def atoms_in(self, v, out=None):
        out = [] if out is None else out
        if isinstance(v, Atom):
            out.append(v)
        elif isinstance(v, (MList, MTuple)):
            for x in v.items:
                self.atoms_in(x, out)
        elif isinstance(v, MStruct):
            for x in v.fields.values():
                self.atoms_in(x, out)
        return out

    def pack(self, v, seen):
        for a in self.atoms_in(v):
            if not a.live or a.id in seen:
                raise ModelError("reuse", f"{'qubit' if a.ty == 'q' else ty_str(a.ty) + ' value'} #{a.id} used after consumption")
            seen.add(a.id)
            a.events += 1

    # ---------------------------------------------------------------- expressions
    def eval(self, x):
        k = x[0]
        if k == "v":
            if x[1] not in self.env:
                raise harness.HarnessError(f"unbound variable {x[1]}")
            return self.env[x[1]]
        if k == "idx":
            b = self.eval(x[1])
            if not isinstance(b, (MList, MTuple)) or not (0 <= x[2] < len(b.items)):
                raise harness.HarnessError(f"bad index {x}")
            return b.items[x[2]]
        if k == "fld":
            b = self.eval(x[1])
            if not isinstance(b, MStruct) or x[2] not in b.fields:
                raise harness.HarnessError(f"bad field {x}")
            return b.fields[x[2]]
        if k == "newq":
            return self.fresh("q", "local")
        if k == "int":
            return int(x[1])
        if k == "mk":
            return self.fresh(x[1], "local")
        if k == "list":
            vs = [self.eval(e) for e in x[1]]
            return MList(vs, False, self.typeof(vs[0]) if vs else None)
        if k == "tuple":
            return MTuple([self.eval(e) for e in x[1]])
        if k == "new":  # struct constructor = a Guppy call consuming its arguments
            vs = [self.eval(e) for e in x[2]]
            self.call(vs, consume=True)
            return self.fresh(["st", x[1]], "local")
        if k == "copy":
            b = self.eval(x[1])
            if not isinstance(b, MList):
                raise harness.HarnessError(f"copy of non-list {x}")
            return MList(list(b.items), False, b.elty)
        if k == "pop":
            b = self.eval(x[1])
            self.mutating(b, x[1], "pop" if x[2] is None else "popi")
            i = -1 if x[2] is None else x[2]
            if not b.items or not (-1 <= i < len(b.items)):
                raise harness.HarnessError(f"pop out of range {x}")
            return b.items.pop(i)
        raise harness.HarnessError(f"unknown expression {x}")

    def has_py_leaf(self, v):
        if isinstance(v, int):
            return True
        if isinstance(v, (MList, MTuple)):
            return any(self.has_py_leaf(x) for x in v.items)
        if isinstance(v, MStruct):
            return any(self.has_py_leaf(x) for x in v.fields.values())
        return False

    def call(self, vals, consume):
        seen = set()
        for v in vals:
            if self.typeof(v) is None:
                raise harness.HarnessError("ill-typed call argument generated")
            if not consume and self.has_py_leaf(v):
                self.hazards.add(H_PYLEAF)
            self.pack(v, seen)
        if consume:
            for a in self.atoms:
                if a.id in seen:
                    a.live = False

    def contains(self, outer, obj):
        if isinstance(outer, (MList, MTuple)):
            return any(x is obj or self.contains(x, obj) for x in outer.items)
        if isinstance(outer, MStruct):
            return any(x is obj or self.contains(x, obj) for x in outer.fields.values())
        return False

    def mutating(self, target, path, op):
        if not isinstance(target, (MList, MStruct)):
            raise harness.HarnessError(f"mutation of a non-container {path}")
        if path[0] != "v" or any(self.contains(v, target) for v in self.env.values()):
            self.nested_mut = True
        self.mut_log.append((op, bool(target.frozen)))
        if target.frozen:
            raise ModelError("owned_mutation", op)

    # ---------------------------------------------------------------- statements
    def exec(self, s):
        k = s["k"]
        if k == "use":
            v = self.eval(s["e"])
            self.call([v], consume=s["f"] in ("discard", "measure", "eat"))
        elif k == "let":
            self.env[s["v"]] = self.eval(s["e"])
        elif k == "expr":
            self.eval(s["e"])
        elif k == "mut":
            self.mutate(s)
        elif k == "ret":
            raise harness.HarnessError("ret inside body")
        else:
            raise harness.HarnessError(f"unknown statement {s}")

    def mutate(self, s):
        op = s["op"]
        xs = [self.eval(e) for e in s.get("xs", [])]
        t = self.eval(s["t"])
        if op in ("setfield", "setfield_c"):
            if not isinstance(t, MStruct):
                raise harness.HarnessError("setfield on non-struct")
            self.mutating(t, s["t"], op)
            t.fields[s["f"]] = xs[0]
            return
        if not isinstance(t, MList):
            raise harness.HarnessError(f"list op on non-list {s}")
        self.mutating(t, s["t"], op)
        it = t.items
        n = len(it)
        i, j = s.get("i"), s.get("j")
        if op == "append":
            it.append(xs[0])
        elif op in ("extend", "iadd"):
            it.extend(xs)
        elif op == "insert":
            it.insert(i, xs[0])
        elif op == "remove":  # rendered as T.remove(T[0]) (identity shortcut of list.remove)
            if not n:
                raise harness.HarnessError("remove on empty list")
            it.pop(0)
        elif op == "clear":
            it.clear()
        elif op == "reverse":
            it.reverse()
        elif op == "sort":  # key=lambda _: 0 -> stable, order unchanged
            pass
        elif op == "setitem":
            if not (0 <= i < n):
                raise harness.HarnessError("setitem out of range")
            it[i] = xs[0]
        elif op == "setslice":
            it[i:j] = xs
        elif op == "delitem":
            if not (0 <= i < n):
                raise harness.HarnessError("delitem out of range")
            del it[i]
        elif op == "delslice":
            del it[i:j]
        elif op == "imul":
            it[:] = it * s["m"]
        else:
            raise harness.HarnessError(f"unknown op {op}")

    def finish(self, ret):
        """end-of-function rules; raises ModelError"""
        if ret is not None:
            v = self.eval(ret)
            if self.typeof(v) is None:
                raise harness.HarnessError("ill-typed return value generated")
            self.call([v], consume=True)
        for name, t, own, v in self.params:
            if own:
                continue
            seen = set()
            try:
                self.pack(v, seen)
            except ModelError as e:
                raise ModelError("borrowed_broken", f"{name}: {e.why}") from None
            if self.typeof(v) != t:
                raise ModelError("borrowed_broken", f"{name} no longer has type {ty_str(t)}")
            for a in self.atoms:
                if a.id in seen:
                    a.live = False  # handed back to the caller
        for a in self.atoms:
            if a.live and a.ty == "q":  # affine values are droppable
                raise ModelError("leak", f"qubit #{a.id} ({a.origin}) neither consumed nor returned")


def run_model(case):
    """-> dict(expect=ok|<rule>, why, nontrivial, nested_mut, max_events, mut_log, at)"""
    m = Model(case["params"])
    info = {"expect": "ok", "why": "", "at": None}
    try:
        for n, s in enumerate(case["body"]):
            info["at"] = n
            m.exec(s)
        info["at"] = "end"
        m.finish(case.get("ret"))
    except ModelError as e:
        info["expect"], info["why"] = e.rule, e.why
    info["hazards"] = sorted(m.hazards)
    info["nested_mut"] = m.nested_mut
    info["max_events"] = max([a.events for a in m.atoms], default=0)
    info["mut_log"] = m.mut_log
    info["leak_origin"] = next((a.origin for a in m.atoms if a.live and a.ty == "q"), None) if info["expect"] == "leak" else None
    info["affine_events"] = max([a.events for a in m.atoms if a.ty != "q"], default=0)
    info["nontrivial"] = info["max_events"] >= 2 or m.nested_mut
    return info


# =============================================================================== rendering
def rx(x):
    k = x[0]
    if k == "v":
        return x[1]
    if k == "idx":
        return f"{rx(x[1])}[{x[2]}]"
    if k == "fld":
        return f"{rx(x[1])}.{x[2]}"
    if k == "newq":
        return "qubit()"
    if k == "int":
        return str(x[1])
    if k == "mk":
        return f"mk_{ty_mangle(x[1])}()"
    if k == "list":
        return "[" + ", ".join(rx(e) for e in x[1]) + "]"
    if k == "tuple":
        return "(" + ", ".join(rx(e) for e in x[1]) + ("," if len(x[1]) == 1 else "") + ")"
    if k == "new":
        return f"{x[1]}(" + ", ".join(rx(e) for e in x[2]) + ")"
    if k == "copy":
        return f"{rx(x[1])}.copy()"
    if k == "pop":
        return f"{rx(x[1])}.pop({'' if x[2] is None else x[2]})"
    raise harness.HarnessError(f"cannot render {x}")


def collect_mk(x, need):
    if isinstance(x, list):
        if x and x[0] == "mk":
            need.add(("mk", tt(x[1])))
        for e in x:
            collect_mk(e, need)
    elif isinstance(x, dict):
        for e in x.values():
            collect_mk(e, need)


def render(case):
    from vlib import runner

    need = set()
    lines = []
    for s in case["body"]:
        k = s["k"]
        if k == "use":
            t = tt(s["ty"])
            if t == "q":
                fn = {"borrow": "h", "discard": "discard", "measure": "measure", "eat": "discard"}[s["f"]]
            else:
                kind = "use" if s["f"] == "borrow" else "eat"
                need.add((kind, t))
                fn = f"{kind}_{ty_mangle(t)}"
            lines.append(f"{fn}({rx(s['e'])})")
        elif k == "let":
            lines.append(f"{s['v']} = {rx(s['e'])}")
        elif k == "expr":
            lines.append(rx(s["e"]))
        elif k == "mut":
            T = rx(s["t"])
            op = s["op"]
            xs = [rx(e) for e in s.get("xs", [])]
            i, j = s.get("i"), s.get("j")
            if op == "append":
                lines.append(f"{T}.append({xs[0]})")
            elif op == "extend":
                lines.append(f"{T}.extend([{', '.join(xs)}])")
            elif op == "insert":
                lines.append(f"{T}.insert({i}, {xs[0]})")
            elif op == "remove":
                lines.append(f"{T}.remove({T}[0])")
            elif op in ("clear", "reverse"):
                lines.append(f"{T}.{op}()")
            elif op == "sort":
                lines.append(f"{T}.sort(key=lambda _: 0)")
            elif op == "setitem":
                lines.append(f"{T}[{i}] = {xs[0]}")
            elif op == "setslice":
                lines.append(f"{T}[{i}:{j}] = [{', '.join(xs)}]")
            elif op == "delitem":
                lines.append(f"del {T}[{i}]")
            elif op == "delslice":
                lines.append(f"del {T}[{i}:{j}]")
            elif op in ("iadd", "imul"):
                rhs = f"[{', '.join(xs)}]" if op == "iadd" else str(s["m"])
                sym = "+=" if op == "iadd" else "*="
                if s["t"][0] == "v":
                    lines.append(f"{T} {sym} {rhs}")
                else:  # augmented assignment through a temporary name: only the in-place dunder runs
                    lines.append(f"_aug = {T}")
                    lines.append(f"_aug {sym} {rhs}")
            elif op in ("setfield", "setfield_c"):
                lines.append(f"{T}.{s['f']} = {xs[0]}")
            else:
                raise harness.HarnessError(f"cannot render op {op}")
        else:
            raise harness.HarnessError(f"cannot render {s}")
    collect_mk(case["body"], need)
    collect_mk(case.get("ret"), need)
    if case.get("ret") is not None:
        lines.append(f"return {rx(case['ret'])}")
        rty = ty_str(case["ret_ty"])
    else:
        rty = "None"
    if not lines:
        lines.append("pass")
    decls = []
    for name, fields in STRUCTS.items():
        decls.append("@guppy.struct\nclass " + name + ":\n" + "".join(f"    {f}: {ty_str(t)}\n" for f, t in fields))
    for kind, t in sorted(need, key=lambda p: (p[0], ty_mangle(p[1]))):
        m = ty_mangle(t)
        if kind == "use":
            decls.append(f"@guppy.declare\ndef use_{m}(x: {ty_str(t)}) -> None: ...\n")
        elif kind == "eat":
            decls.append(f"@guppy.declare\ndef eat_{m}(x: {ty_str(t)} @ owned) -> None: ...\n")
        else:
            decls.append(f"@guppy.declare\ndef mk_{m}() -> {ty_str(t)}: ...\n")
    ps = ", ".join(f"{p['n']}: {ty_str(p['t'])}" + (" @ owned" if p["own"] else "") for p in case["params"])
    return (runner.PRELUDE + "from guppylang.std.quantum import h\n\n" + "\n".join(decls)
            + f"\n@guppy.comptime\ndef main({ps}) -> {rty}:\n" + "".join(f"    {ln}\n" for ln in lines))


# =============================================================================== evaluation
MESSAGE_CLASSES = [  # order matters: the borrowed-argument message embeds the others
    ("is borrowed, so it is implicitly returned", "borrowed_broken"),
    ("has an unexpected type. Expected", "field_type"),
    ("is an owned function argument", "owned_mutation"),
    ("was already used", "reuse"),
    ("is leaked by this function", "leak"),
]


def message_class(msg):
    for pat, cls in MESSAGE_CLASSES:
        if pat in " ".join(msg.split()):
            return cls
    return "other"


def observe(src):
    """-> (kind ok|error|crash|invalid, message class or crash bucket, text)"""
    from guppylang_internals.error import GuppyComptimeError
    from guppylang_internals.tracing.state import reset_state
    from vlib import runner

    reset_state()  # a failed trace leaves its TracingState installed (no try/finally) - C11's business
    try:
        lm = runner.load_module(src)
    except SyntaxError as e:
        raise harness.HarnessError(f"generated module is not valid Python: {e}\n{src}") from e
    try:
        out, pkg = runner.compile_def(lm.mod.main, entry=False)
        if out.kind == "ok":
            v = runner.validate_pkg(pkg)
            if v.kind != "ok":
                return "invalid", "invalid_hugr", v.message[:1500]
            return "ok", "ok", ""
        if out.kind == "rejected":
            return "error", message_class(out.message), out.message[-1200:]
        if isinstance(out.exc, GuppyComptimeError):
            return "error", message_class(str(out.exc)), str(out.exc)[:1200]
        return "crash", runner.crash_bucket(out.exc), out.message[-1800:]
    finally:
        lm.dispose()
        reset_state()


def evaluate(case):
    """-> (finding (bucket, detail) | None, info)"""
    info = run_model(case)
    src = render(case)
    info["src"] = src
    kind, cls, text = observe(src)
    info["got"] = cls
    exp = info["expect"]
    prog = "\n--- program\n" + src.split("@guppy.comptime\n", 1)[1]
    if info["hazards"] and not (kind == "ok" and exp == "ok") and not (kind == "error" and cls == exp):
        return (info["hazards"][0], f"model expects {exp}; compiler: {kind} ({cls})\n{text}{prog}"), info
    if kind == "crash":
        return (f"crash.{cls}", f"model expects {exp}; compiler raised a non-Guppy exception:\n{text}{prog}"), info
    if exp == "ok":
        if kind == "ok":
            return None, info
        if kind == "invalid":
            return ("invalid_hugr", f"model accepts, compiler accepts, hugr validate fails:\n{text}{prog}"), info
        return (f"rejected.{cls}", f"the ownership rules hold for this body, compiler says:\n{text}{prog}"), info
    if kind in ("ok", "invalid"):
        if kind == "invalid":
            prog = "\n(the emitted HUGR also fails validation)" + prog
        b = f"accepted.{exp}"
        if exp == "owned_mutation":
            b += "." + OP_METHOD.get(info["why"], info["why"])
        elif exp == "leak":
            b += "." + str(info["leak_origin"])
        return (b, f"rule `{exp}` fails in statement {info['at']} ({info['why']}); compiler accepted{prog}"), info
    if cls != exp:
        return (f"wrong_rule.{exp}.{cls}",
                f"rule `{exp}` fails first (statement {info['at']}: {info['why']}); compiler reports "
                f"another rule:\n{text}{prog}"), info
    return None, info


def replay(case):
    r, _ = evaluate(case)
    return r


# =============================================================================== generator
class Gen:
    def __init__(self, rnd):
        self.rnd = rnd
        self.case = {"params": [], "body": [], "ret": None, "ret_ty": None}
        self.model = None
        self.nvar = 0
        self.failed = None
        self.lenient = False

    # ---- helpers
    def chance(self, pct):
        return self.rnd.randrange(100) < pct

    def pick(self, xs):
        return xs[self.rnd.randrange(len(xs))]

    def start(self, params):
        self.case["params"] = params
        self.model = Model(params)

    def emit(self, s):
        """append a statement and run it on the model; False once the model has failed"""
        if self.stopped():
            return False
        self.case["body"].append(s)
        try:
            self.model.exec(s)
        except ModelError as e:
            if self.failed is None:
                self.failed = e.rule
            # after a rejected mutation of an owned value the body is still completed cleanly (as if
            # the statement had not been there): the verdict then hinges on that statement alone
            self.lenient = self.failed == "owned_mutation"
            return self.lenient
        return True

    def stopped(self):
        return self.failed is not None and not self.lenient

    def newvar(self):
        self.nvar += 1
        return f"v{self.nvar}"

    def paths(self, max_depth=3):
        """[(path, value, parent_kind)] for everything reachable from variables"""
        out = []

        def walk(p, v, parent, d):
            out.append((p, v, parent))
            if d >= max_depth:
                return
            if isinstance(v, (MList, MTuple)):
                pk = "list" if isinstance(v, MList) else "tuple"
                for i, x in enumerate(v.items):
                    walk(["idx", p, i], x, pk, d + 1)
            elif isinstance(v, MStruct):
                for f, x in v.fields.items():
                    walk(["fld", p, f], x, "struct", d + 1)

        for name in sorted(self.model.env):
            walk(["v", name], self.model.env[name], None, 0)
        return out

    def value_of_type(self, t, allow_existing=True):
        """an expression of type t: fresh, or (sometimes) an existing path of that type"""
        t = tt(t)
        if t == "int":
            return ["int", self.rnd.randrange(9)]
        if allow_existing and self.chance(30):
            c = [p for p, v, _ in self.paths() if not isinstance(v, (int, GInt)) and self.model.typeof(v) == t]
            if c:
                return self.pick(c)
        if t == "q":
            return ["newq"]
        r = self.rnd.randrange(3)
        if r == 0 and t[0] == "arr":
            return ["list", [self.value_of_type(t[1], allow_existing) for _ in range(t[2])]]
        if r == 0 and t[0] == "tup":
            return ["tuple", [self.value_of_type(x, allow_existing) for x in t[1]]]
        if r == 0 and t[0] == "st":
            return ["new", t[1], [self.value_of_type(ft, allow_existing) for _, ft in STRUCTS[t[1]]]]
        return ["mk", ty_json(t)]

    # ---- events
    def ev_use(self, how=None, want_dead=False):
        c = [(p, v) for p, v, _ in self.paths() if not isinstance(v, (int, GInt)) and self.model.typeof(v) is not None]
        if want_dead:
            d = [(p, v) for p, v in c if any(not a.live for a in self.model.atoms_in(v))]
            c = d or c
        if not c:
            return
        p, v = self.pick(c)
        t = self.model.typeof(v)
        how = how or self.pick(["borrow", "borrow", "consume"])
        f = "borrow" if how == "borrow" else (self.pick(["discard", "measure"]) if t == "q" else "eat")
        self.emit({"k": "use", "f": f, "e": p, "ty": ty_json(t)})

    def ev_alloc(self):
        r = self.rnd.randrange(10)
        if r < 3:
            e = ["newq"]
        elif r < 6:
            e = ["mk", self.pick(PARAM_TYPES[1:])]
        else:
            t = self.pick(PARAM_TYPES[1:])
            e = self.value_of_type(t)
        self.emit({"k": "let", "v": self.newvar(), "e": e})

    def ev_alias(self):
        c = [(p, v) for p, v, _ in self.paths() if not isinstance(v, (int, GInt))]
        if not c:
            return
        p, v = self.pick(c)
        if isinstance(v, MList) and self.chance(50):
            self.emit({"k": "let", "v": self.newvar(), "e": ["copy", p]})
        else:
            self.emit({"k": "let", "v": self.newvar(), "e": p})

    def mutation(self, p, v, op):
        """build one mutation statement of kind `op` on target path p (value v); None if not applicable"""
        if isinstance(v, MStruct):
            fields = STRUCTS[v.name]
            if op == "setfield_c":
                fs = [(f, ft) for f, ft in fields if ft == "int"]
            else:
                fs = [(f, ft) for f, ft in fields if ft != "int"]
            if not fs:
                return None
            f, ft = self.pick(fs)
            return {"k": "mut", "op": "setfield_c" if ft == "int" else "setfield", "t": p, "f": f,
                    "xs": [self.value_of_type(ft)]}
        n = len(v.items)
        el = v.elty
        s = {"k": "mut", "op": op, "t": p}
        if op in ("append", "insert", "setitem"):
            if el is None or (op == "setitem" and n == 0):
                return None
            s["xs"] = [self.value_of_type(el)]
            if op == "insert":
                s["i"] = self.rnd.randrange(n + 1)
            if op == "setitem":
                s["i"] = self.rnd.randrange(n)
        elif op in ("extend", "iadd", "setslice"):
            k = self.rnd.randrange(3)
            if el is None and k:
                return None
            s["xs"] = [self.value_of_type(el) for _ in range(k)]
            if op == "setslice":
                i = self.rnd.randrange(n + 1)
                s["i"], s["j"] = i, self.rnd.randrange(i, n + 1)
        elif op in ("delitem",):
            if n == 0:
                return None
            s["i"] = self.rnd.randrange(n)
        elif op == "delslice":
            i = self.rnd.randrange(n + 1)
            s["i"], s["j"] = i, self.rnd.randrange(i, n + 1)
        elif op == "remove":
            if n == 0:
                return None
        elif op == "imul":
            s["m"] = self.pick([0, 1, 2])
        elif op in ("pop", "popi"):
            if n == 0:
                return None
            e = ["pop", p, None if op == "pop" else self.rnd.randrange(n)]
            if self.chance(70):
                return {"k": "let", "v": self.newvar(), "e": e}
            return {"k": "expr", "e": e}
        return s

    def ev_pyfield(self):
        """assign a Python int to a classical struct field, then (mostly) lend the struct to a call"""
        c = [(p, v) for p, v, _ in self.paths() if isinstance(v, MStruct) and v.name == "S3"]
        if not c:
            return self.ev_alloc()
        p, v = self.pick(c)
        if self.emit({"k": "mut", "op": "setfield_c", "t": p, "f": "n", "xs": [["int", self.rnd.randrange(9)]]}) \
                and self.chance(70) and self.model.typeof(v) is not None:
            self.emit({"k": "use", "f": "borrow", "e": p, "ty": ["st", "S3"]})

    def ev_mutate(self, prefer=None):
        c = [(p, v, par) for p, v, par in self.paths() if isinstance(v, (MList, MStruct))]
        if prefer is not None:
            d = [x for x in c if bool(x[1].frozen) == prefer]
            c = d or c
        if not c:
            return
        p, v, par = self.pick(c)
        if isinstance(v, MStruct):
            op = self.pick(["setfield", "setfield", "setfield_c"])
        else:
            op = self.pick(LIST_OPS)
        s = self.mutation(p, v, op)
        if s is not None:
            self.emit(s)

    # ---- ending
    def choose_return(self):
        r = self.rnd.randrange(100)
        if r < 55:
            return
        c = [(p, v) for p, v, _ in self.paths() if not isinstance(v, (int, GInt)) and self.model.typeof(v) is not None]
        if r < 85:  # prefer values whose qubits are all live
            d = [(p, v) for p, v in c if all(a.live for a in self.model.atoms_in(v))]
            c = d or c
        if not c:
            return
        if r < 90 or len(c) < 2:
            p, v = self.pick(c)
            self.case["ret"], self.case["ret_ty"] = p, ty_json(self.model.typeof(v))
            return
        (p1, v1), (p2, v2) = self.pick(c), self.pick(c)
        t1, t2 = self.model.typeof(v1), self.model.typeof(v2)
        if t1 == t2 and self.chance(50):
            self.case["ret"], self.case["ret_ty"] = ["list", [p1, p2]], ty_json(("arr", t1, 2))
        else:
            self.case["ret"], self.case["ret_ty"] = ["tuple", [p1, p2]], ty_json(("tup", (t1, t2)))

    def repair_borrowed(self):
        """refill broken borrowed lists / structs (after discarding what is still live inside them)"""
        m = self.model
        keep = set()

        def consume_inside(root_path, v, but):
            for _ in range(40):
                done = True
                for p, x, _ in self.paths(4):
                    if isinstance(x, Atom) and x.ty == "q" and x.live and x.id not in but and any(x is a for a in m.atoms_in(v)):
                        if not self.emit({"k": "use", "f": "discard", "e": p, "ty": "q"}):
                            return False
                        done = False
                        break
                if done:
                    return True
            return True

        def intact(v, t):
            ats = m.atoms_in(v)
            return (m.typeof(v) == t and all(a.live for a in ats) and len({a.id for a in ats}) == len(ats)
                    and not any(a.id in keep for a in ats))

        for name, t, own, v in m.params:
            if own or self.stopped():
                continue
            if intact(v, t):
                continue
            if isinstance(v, MList):
                if not consume_inside(["v", name], v, keep):
                    break
                if not self.emit({"k": "mut", "op": "setslice", "t": ["v", name], "i": 0, "j": len(v.items),
                                  "xs": [["mk", ty_json(t[1])] if t[1] != "q" else ["newq"] for _ in range(t[2])]}):
                    break
            elif isinstance(v, MStruct):
                for f, ft in STRUCTS[v.name]:
                    if ft == "int" or intact(v.fields[f], tt(ft)):
                        continue
                    if not consume_inside(["v", name], v.fields[f], keep):
                        break
                    if not self.emit({"k": "mut", "op": "setfield", "t": ["v", name], "f": f,
                                      "xs": [["mk", ty_json(ft)] if ft != "q" else ["newq"]]}):
                        break

    def discard_rest(self):
        """discard every live qubit that is neither returned nor part of a borrowed parameter"""
        m = self.model
        if self.stopped():
            return
        keep = set()
        if self.case["ret"] is not None:
            keep |= {a.id for a in m.atoms_in(m.eval(self.case["ret"]))}
        borrowed = set()
        for name, t, own, v in m.params:
            if not own:
                borrowed |= {a.id for a in m.atoms_in(v)}
        for _ in range(60):
            nxt = None
            for p, x, _ in self.paths(4):
                if isinstance(x, Atom) and x.ty == "q" and x.live and x.id not in keep and x.id not in borrowed:
                    nxt = p
                    break
            if nxt is None or not self.emit({"k": "use", "f": "discard", "e": nxt, "ty": "q"}):
                break

    # ---- whole programs
    def draw_params(self):
        n = self.pick([0, 1, 1, 1, 2, 2, 3])
        ps = []
        for i in range(n):
            t = self.pick(PARAM_TYPES) if self.chance(80) else self.pick(PARAM_TYPES[7:])
            ps.append({"n": f"p{i}", "t": ty_json(t), "own": self.chance(50)})
        return ps

    def random_case(self):
        self.start(self.draw_params())
        steps = self.rnd.randrange(1, 8)
        for _ in range(steps):
            if self.failed:
                break
            r = self.rnd.randrange(100)
            if r < 18:
                self.ev_use("borrow")
            elif r < 36:
                self.ev_use("consume")
            elif r < 42:
                self.ev_use(want_dead=True)
            elif r < 54:
                self.ev_alloc()
            elif r < 62:
                self.ev_alias()
            elif r < 66:
                self.ev_pyfield()
            else:
                self.ev_mutate(prefer=self.pick([True, False, None]))
        fin = self.chance(85)
        if fin and self.chance(75):
            self.repair_borrowed()
        if not self.failed:
            self.choose_return()
        if fin:
            self.discard_rest()
        return self.case


def enum_specs():
    """deterministic product: (param type, owned?, target position inside it, op, access) with
    access = direct path / through a local alias / element of a `.copy()` of an enclosing list"""
    out = []
    for t in PARAM_TYPES:
        m = Model([{"n": "p0", "t": t, "own": False}])
        g = Gen(None)
        g.model = m
        targets = [(p, "list" if isinstance(v, MList) else "struct") for p, v, _ in g.paths() if
                   isinstance(v, (MList, MStruct))]
        for own in (True, False):
            for p, kind in targets:
                ops = LIST_OPS if kind == "list" else ["setfield", "setfield_c"]
                for op in ops:
                    for access in ("direct", "alias", "copy"):
                        if access == "copy" and not (p[0] == "idx" and p[1] == ["v", "p0"] and tt(t)[0] == "arr"):
                            continue
                        out.append({"t": ty_json(t), "own": own, "p": p, "op": op, "access": access})
    return out


def enum_case(spec, rnd):
    g = Gen(rnd)
    params = [{"n": "p0", "t": spec["t"], "own": spec["own"]}]
    if rnd.randrange(3) == 0:
        params.append({"n": "p1", "t": "q", "own": bool(rnd.randrange(2))})
    g.start(params)
    p = spec["p"]
    if spec["access"] == "alias":
        v = g.newvar()
        g.emit({"k": "let", "v": v, "e": p})
        p = ["v", v]
    elif spec["access"] == "copy":  # p = p0[i]  ->  c = p0.copy(); target c[i]
        v = g.newvar()
        g.emit({"k": "let", "v": v, "e": ["copy", ["v", "p0"]]})
        p = ["idx", ["v", v], p[2]]
    tv = g.model.eval(p)
    s = g.mutation(p, tv, spec["op"])
    if s is None:
        return None
    g.emit(s)
    g.repair_borrowed()
    g.discard_rest()
    return g.case


# =============================================================================== worker
def describe(case, info):
    labels = ["expect:" + info["expect"]]
    if case["params"]:
        labels += sorted({"param:" + ("owned" if p["own"] else "borrowed") for p in case["params"]})
    else:
        labels.append("param:none")
    for op, frozen in info["mut_log"]:
        labels.append(f"mut:{OP_METHOD.get(op, op)}:{'owned' if frozen else 'free'}")
    if info["nested_mut"]:
        labels.append("nested_mutation")
    if info["max_events"] >= 2:
        labels.append("events>=2_on_one_qubit")
    if info.get("affine_events"):
        labels.append("affine_value:" + ("events>=2" if info["affine_events"] >= 2 else "1_event"))
    if case.get("ret") is not None:
        labels.append("returns_value")
    kinds = {s["k"] + ":" + (s.get("f") or s.get("op") or (s.get("e") or [""])[0]) for s in case["body"]}
    for k in sorted(kinds):
        if k.startswith("let:") or k.startswith("use:"):
            labels.append("stmt:" + k)
    return sorted(set(labels))


def run_case(ctx, case, tag, active=frozenset()):
    try:
        if active:
            hz = [h for h in run_model(case)["hazards"] if h in active]
            if hz:
                ctx.exclude(EXCLUDE[hz[0]])
                return
        finding, info = evaluate(case)
    except harness.HarnessError as e:
        ctx.harness_error(str(e))
        return
    labels = describe(case, info) + [tag, "got:" + info["got"]]
    body = info["src"].split("@guppy.comptime\n", 1)[1]
    ctx.case(case, info["nontrivial"], labels=labels,
             sample={"program": body, "expect": info["expect"], "got": info["got"], "why": info["why"]})
    if finding:
        ctx.violation(finding[0], case, finding[1])


def worker(ctx):
    import random

    from hypothesis import strategies as st

    active = frozenset(active_exclusions())
    ctx.notes["active_exclusions"] = sorted(active)
    if ctx.shard == 0:
        for key, probe in PROBES.items():
            if key in active:
                continue  # the harness replays the probe of a listed known finding itself
            r = replay(probe)
            ctx.notes["probe:" + key] = "fails" if r else "passes"
            if r:
                ctx.violation(r[0], probe, r[1])
    specs = enum_specs()
    ctx.notes["enum_product_size"] = len(specs)
    mine = [s for i, s in enumerate(specs) if i % ctx.nshards == ctx.shard]
    cap = ctx.params["enum"]
    if cap and len(mine) > cap:
        rot = (ctx.seed * 7919) % len(mine)
        mine = mine[rot:] + mine[:rot]
        step = len(mine) / cap
        mine = [mine[int(j * step)] for j in range(cap)]
    for k, spec in enumerate(mine):
        if ctx.out_of_time(0.5):
            ctx.label("note:enum_cut_by_time")
            break
        rnd = random.Random(ctx.shard_seed(("enum", json.dumps(spec, sort_keys=True))))
        c = enum_case(spec, rnd)
        if c is None:
            ctx.exclude("enum combination not applicable (e.g. classical field assignment on a struct without one)")
            continue
        run_case(ctx, c, "src:enum", active)

    RND = st.randoms(use_true_random=True)

    def body(rnd):
        try:
            c = Gen(rnd).random_case()
        except harness.HarnessError as e:
            ctx.harness_error("generator: " + str(e))
            return
        run_case(ctx, c, "src:random", active)

    harness.hyp_search(ctx, RND, body, max_examples=ctx.params["n"], chunk=100)


SPEC = harness.Spec(
    PROP, worker, replay,
    rule=("each shard first evaluates its slice of the product (21 parameter types of nesting depth <= 2 over qubits and over "
          "the affine - non-copyable, droppable, not unpacked - values array[int, 0] and Option[array[int, 2]]) x "
          "(owned, borrowed) x (every list / struct position inside the parameter) x (15 list mutations + struct "
          "field assignment, qubit and classical) x (direct path, local alias, element of a .copy()), each followed "
          "by a clean finalisation; then random straight-line bodies of 1-7 ownership events (borrow, consume, "
          "allocate, alias/copy/pop, mutate, deliberate second use) over 0-3 parameters and locals, a drawn return "
          "value, finalised in 85% of the cases. Every program is compiled with compile_function(); error/success "
          "and the message class are compared with the reference interpreter; accepted programs are validated. "
          "non-trivial = some qubit object takes part in >= 2 ownership events or a mutation goes through a "
          "nested container / an alias of one; distinct = distinct statement list"),
    assumptions=[
        "error = GuppyError or GuppyComptimeError; the four rule classes are told apart by the message texts pinned "
        "in tests/error/tracing_errors/*.err ('was already used', 'is leaked by this function', 'is an owned "
        "function argument', 'is borrowed, so it is implicitly returned')",
        "values derived from an owned argument = the lists / structs reachable from it; `copy()` of such a list is a "
        "new mutable list whose elements are still owned-derived (frozenlist.copy docstring / error hint); values "
        "returned by calls are locals",
        "borrowed arguments and locals follow Python list / attribute semantics; a borrowed argument is intact when "
        "the parameter object packs to its declared type with every qubit live and distinct (replaced elements ok)",
        "end-of-function rule order: return value, borrowed parameters in order, leaks",
        "list.remove is only issued for the first element and sort with a constant key (both avoid `==`/`<` on "
        "qubits, which are type errors, not ownership events); augmented assignments on non-name targets go "
        "through a temporary name; un-overridden back doors (list.__init__, object.__setattr__) are outside the "
        "listed operations",
        "declared (bodiless) Guppy functions stand for arbitrary borrowing / consuming / producing callees",
    ],
    shards={"quick": 16, "thorough": 16},
    budget_s={"quick": 90, "thorough": 900},
    params={"quick": {"enum": 200, "n": 600}, "thorough": {"enum": 0, "n": 20000}},
    min_nontrivial=500,
)

if __name__ == "__main__":
    harness.main(SPEC)
