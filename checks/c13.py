"""C13 Generic instantiation and monomorphization preserve meaning.

(a) law level (vlib/c13_law.py): generated `FunctionType`s with up to 5 interleaved type / nat /
    non-nat / dependent (`x: T`) const parameters, some of them `from_comptime_arg` (with the matching
    comptime input), whose inputs/outputs mention the bound variables in nested positions (tuples,
    arrays with const length, nested function types, generic structs incl. a dependent one).  One or
    two partial instantiations (closed arguments, as the callers in compiler/core.py guarantee) are
    followed by a full instantiation of the rest (which may mention variables of an enclosing
    scope, as `compile_call`/`unquantified` do).  Oracle: after every step params, inputs, output
    and comptime arguments equal an independent de-Bruijn substitution on plain mirror terms
    (remaining parameters renumbered 0..m-1 in order, their const types instantiated); the chain
    equals the single instantiation with the composed argument list (`==` on /repo's objects and on
    mirrors).
(b) program level (vlib/gen/generic.py): function templates made generic by abstracting drawn
    slots (type, array length, nat/int/bool/float/dependent comptime constants) in a drawn
    parameter order and style, generic functions calling generic functions with own and concrete
    arguments, generic structs at >= 2 instantiations; next to the textually specialised copy
    rendered from the same IR.  Oracle: both versions are accepted, the package validates, and
    the emulator emits identical result streams for the generic and the specialised call sites,
    equal to CPython (pyref) running the specialised program.

Observations on the unchanged tree that the oracle deliberately does not flag (no behaviour of a
compiled program depends on them; they are counted as labels `law.obs.*`):
  * `ConstParam.with_idx` drops `from_comptime_arg`, so a comptime parameter that stays generic
    after `instantiate_partial` is no longer marked (only `TypePrinter` and the default
    `comptime_args` of a *fresh* FunctionType read the flag; `instantiate_partial` passes
    `comptime_args` explicitly).
  * `instantiate_partial` builds the replacement for a remaining parameter with `param.to_bound()`
    *before* `instantiate_bounds`, so occurrences of a remaining dependent const variable
    (`x: T`) keep the stale type annotation `T@old-index` while the parameter itself has the
    instantiated type.  A later full instantiation replaces the occurrence wholesale.
Set C13_STRICT=1 to turn both into violations.
"""
import os
import sys

sys.path.insert(0, os.path.dirname(os.path.dirname(os.path.abspath(__file__))))
from vlib import harness  # noqa: E402

PROP = "C13"
STRICT = os.environ.get("C13_STRICT", "") not in ("", "0")
# Input classes left out by construction: none is needed on the unchanged tree (no finding blocks
# the search).  Template names listed here (C13_EXCLUDE=sel,fsc or in the set) are not drawn.
EXCLUDE = set(x for x in os.environ.get("C13_EXCLUDE", "").split(",") if x)


# ------------------------------------------------------------------------------------ law level
def eval_law(case):
    from vlib import c13_law as L

    c = {k: v for k, v in case.items() if k not in ("kind", "_notes")}
    r = L.evaluate(c, strict_cv_types=STRICT, check_flag=STRICT)
    notes = list(c.get("_notes", []))
    return r, notes


# ------------------------------------------------------------------------------------ program level
def split_stream(stream):
    h = len(stream) // 2
    return stream[:h], stream[h:]


def _tag_fn(tag, prog):
    """template name of the call site a result tag belongs to"""
    try:
        i = int(tag[1:].split("_")[0])
        return prog["ir"]["sites"][i]["fn"]
    except Exception:  # noqa: BLE001
        return "?"


def eval_prog(prog):
    """-> (status, bucket, detail); status ok | mismatch | unsupported | generr"""
    from vlib import pyref, runner
    from vlib.gen import generic as G

    ref = None
    if prog.get("executable", True):
        try:
            ref, pan = pyref.run_ref(prog["spec"])
            if pan is not None:
                return "generr", None, f"specialised program panics under CPython: {pan}"
        except BaseException as e:  # noqa: BLE001
            return "generr", None, f"pyref raised {e!r} on the specialised program"

    def run(src, emulate):
        out, lm = runner.run_source(G.PRELUDE + src, emulate=emulate)
        if lm is not None:
            lm.dispose()
        return out

    execu = prog.get("executable", True)
    # one build for both versions is the cheap path; but in one module the specialised copies share the
    # compilation (definitions they load first are already compiled when the generic version needs them), so
    # every third program is judged on two separate modules
    import zlib

    separate = zlib.crc32(prog["generic"].encode()) % 3 == 0
    if execu and prog.get("combined") and not separate:
        out = run(prog["combined"], True)
        if out.kind == "ok":
            g, s = split_stream(out.stream)
            if len(out.stream) % 2 == 0 and pyref.streams_equal(g, s):
                if pyref.streams_equal(s, ref):
                    return "ok", None, None
    # not clean (or not executable): judge the two versions separately
    so = run(prog["spec"], execu)
    if so.kind == "unsupported":
        return "unsupported", "spec:" + so.title, so.message[:300]
    if so.kind != "ok":
        return "generr", None, (f"specialised (non-generic) program not accepted/valid/runnable: {so.brief()[:300]}\n"
                                f"{so.message[-800:]}")
    if execu and not pyref.streams_equal(so.stream, ref):
        i, a, b = pyref.first_diff(so.stream, ref)
        return "mismatch", "prog.spec_vs_cpython", f"specialised program result #{i}: emulator {a} vs CPython {b}"
    go = run(prog["generic"], execu)
    if go.kind == "unsupported":
        return "unsupported", "generic:" + go.title, go.message[:300]
    if go.kind == "rejected":
        return "mismatch", f"prog.generic.rejected:{go.title}", ("generic program rejected, specialised copy accepted\n"
                                                                 + go.message[-1200:])
    if go.kind == "crash":
        return "mismatch", f"prog.generic.crash:{runner.crash_bucket(go.exc)}", go.message[-1500:]
    if go.kind == "invalid":
        return "mismatch", "prog.generic.invalid_hugr", "generic program compiles to an invalid HUGR: " + go.message[:1200]
    if go.kind == "panic":
        return "mismatch", "prog.generic.panic", f"generic program panics ({go.message}); specialised copy runs"
    if execu and not pyref.streams_equal(go.stream, so.stream):
        i, a, b = pyref.first_diff(go.stream, so.stream)
        tag = (a or b)[0]
        return "mismatch", f"prog.stream:{_tag_fn(tag, prog)}", (
            f"result #{i}: generic {a} vs specialised {b} (lengths {len(go.stream)}/{len(so.stream)})")
    if execu and prog.get("combined") and not separate:
        # separately fine but the combined module was not: report what the combined run did
        out = run(prog["combined"], True)
        if out.kind == "unsupported":
            return "unsupported", "combined:" + out.title, out.message[:300]
        if out.kind != "ok":
            b = runner.crash_bucket(out.exc) if out.kind == "crash" else out.title
            return "mismatch", f"prog.combined.{out.kind}:{b}", (
                "generic and specialised functions in one module: " + out.brief()[:300] + "\n" + out.message[-1000:])
        g, s = split_stream(out.stream)
        d = pyref.first_diff(g, s)
        if d or len(out.stream) % 2:
            return "mismatch", "prog.combined.stream", f"in one module: generic {d[1] if d else None} vs specialised {d[2] if d else None}"
    return "ok", None, None


def prog_case(prog, bucket=None):
    c = {"kind": "prog", "generic": prog["generic"], "spec": prog["spec"], "combined": prog.get("combined"),
         "executable": prog.get("executable", True), "ir": prog.get("ir")}
    if bucket:
        c["bucket"] = bucket
    return c


def replay(case):
    if case.get("kind") == "prog":
        st, bucket, detail = eval_prog(case)
        if st == "mismatch":
            return (bucket, detail)
        return None
    r, _ = eval_law(case)
    return r


# ------------------------------------------------------------------------------------ worker
def worker(ctx):
    from vlib import c13_law as L
    from vlib.gen import generic as G

    # ---------------- (a) law level
    law_strat = L.law_cases()
    law_fail = {}

    def law_body(case):
        nt, labels = L.classify(case)
        r, notes = eval_law(case)
        labels = labels + [f"law.obs.{n}" for n in sorted(set(notes))]
        ctx.case(("law", case), nt, labels=labels,
                 sample={"params": case["params"], "steps": case["steps"], "output": case["output"]} if nt else None)
        if r:
            if r[0].startswith("harness"):
                ctx.harness_error(r[1])
            else:
                law_fail.setdefault(r[0], (case, r[1]))

    harness.hyp_search(ctx, law_strat, law_body, max_examples=ctx.params["n_law"], chunk=500, time_frac=0.3)
    for bucket, (case, detail) in law_fail.items():
        def fails(c, _b=bucket):
            r, _ = eval_law(c)
            return (c, r[1]) if r and r[0] == _b else None
        r = harness.hyp_shrink(ctx, law_strat, fails, budget_s=min(20, ctx.budget_s * 0.1), max_examples=300, start=case)
        if r:
            case, detail = r[1]
        case = dict({k: v for k, v in case.items() if k != "_notes"}, kind="law")
        ctx.violation(bucket, case, detail)

    # ---------------- (b) program level
    n_exec = ctx.params["n_prog"]
    n_val = ctx.params.get("n_validate_only", 1)
    mism = []
    counts = {"n": 0, "generr": 0}

    def prog_body(prog):
        st, bucket, detail = eval_prog(prog)
        counts["n"] += 1
        ok = st == "ok"
        ctx.case(("prog", prog["generic"]), prog["nontrivial"] and ok,
                 labels=["prog", "prog.status:" + st] + (prog["labels"] if ok else [])
                 + ([] if prog["executable"] else ["prog.validate_only"]),
                 sample={"generic": prog["generic"], "spec": prog["spec"]} if ok and prog["nontrivial"] else None)
        if st == "mismatch":
            mism.append((bucket, prog, detail))
        elif st == "generr":
            counts["generr"] += 1
            ctx.harness_error(detail + "\n--- generic\n" + prog["generic"] + "\n--- spec\n" + prog["spec"])
        elif st == "unsupported":
            ctx.unsupported_case(bucket)

    if EXCLUDE:
        G.ROOTS[:] = [r for r in G.ROOTS if r not in EXCLUDE and not (set(G.DEPS.get(r, [])) & EXCLUDE)]
        ctx.exclude("templates:" + ",".join(sorted(EXCLUDE)))
    harness.hyp_search(ctx, G.generic_programs(executable=True, max_roots=3), prog_body, max_examples=n_exec,
                       chunk=5, time_frac=0.75, extra_seed=1)
    if n_val:
        harness.hyp_search(ctx, G.generic_programs(executable=False, max_roots=2), prog_body, max_examples=n_val,
                           chunk=5, time_frac=0.8, extra_seed=2)
    seen = set()
    small = G.generic_programs(executable=True, max_roots=1)
    for bucket, prog, detail in mism:
        if bucket in seen:
            continue
        seen.add(bucket)
        if prog["executable"] and not ctx.out_of_time(0.8):
            def fails(p, _b=bucket):
                st, b, d = eval_prog(p)
                return (p, d) if st == "mismatch" and b == _b else None
            r = harness.hyp_shrink(ctx, small, fails, budget_s=min(45, ctx.budget_s * 0.15), max_examples=40)
            if r and len(r[1][0]["generic"]) < len(prog["generic"]):
                prog, detail = r[1]
        ctx.violation(bucket, prog_case(prog, bucket), detail + "\n--- generic program\n" + prog["generic"]
                      + "\n--- specialised copy\n" + prog["spec"])


def finalize(loc):
    """the program level must not be vacuous: enough executed programs whose generic functions
    were used at several instantiations (else exit 2, never a silent pass)"""
    labels, errs = loc["labels"], loc["harness_errors"]
    shards = loc["nshards"]
    if labels.get("prog.status:ok", 0) < 2 * shards or labels.get("prog.multi_inst", 0) < shards:
        errs.append(f"program level too thin: {labels.get('prog.status:ok', 0)} programs ok, "
                    f"{labels.get('prog.multi_inst', 0)} with a function at >= 2 instantiations ({shards} shards)")


SPEC = harness.Spec(
    PROP, worker, replay,
    rule=("(a) law cases: FunctionType with 1-5 interleaved type / nat / int-bool-float / dependent const parameters "
          "(some from comptime inputs), bodies of depth <= 3 over tuples, arrays, nested function types and 3 generic "
          "structs, 1-2 partial instantiations with closed arguments + a full instantiation (optionally mentioning outer "
          "bound / existential variables); non-trivial = >= 3 parameters of >= 2 kinds with an instantiated parameter before "
          "a remaining one. (b) programs: 1-3 root templates out of 15 (plus their callees) with drawn abstracted slots, "
          "parameter style (legacy / PEP 695 / mixed), argument and declaration order, call bindings (own vs concrete) and "
          "1-3 instantiations per function, usually differing from the previous one in a single argument; non-trivial = accepted "
          "and executed program with a generic function of >= 2 parameters used at >= 2 distinct instantiations. "
          "distinct = distinct case / distinct generic source text"),
    assumptions=[
        "partial instantiations are given closed arguments of the right kind (the precondition asserted in partially_monomorphize_args); a dependent const parameter is only instantiated together with the type parameter it mentions",
        "the comptime marker of remaining parameters and the type annotation carried by occurrences of remaining const variables are not compared (see module docstring; C13_STRICT=1 compares them)",
        "the specialised copy is produced by the generator from the same IR (types/lengths/constants as literals, comptime arguments removed, generic structs replaced by plain copies); CPython (pyref) is the reference for it",
        "generic and specialised call sites are first run in one module (one selene build); if that is not clean both versions are compiled, validated and run separately and judged on those runs",
        "selene 0.4.3 gaps (DESIGN 1.4): no xs[i] / copy() / implicit drop of arrays under a generic length in executed programs; the `idx` template is compiled and validated only",
        "explicit type application f[...] is only generated when no int/float/dependent constant is abstract (negative and int literals are not accepted as type arguments, guppylang issue 1030)",
    ],
    shards={"quick": 16, "thorough": 16},
    budget_s={"quick": 180, "thorough": 1500},
    params={"quick": {"n_law": 1500, "n_prog": 9, "n_validate_only": 1},
            "thorough": {"n_law": 40000, "n_prog": 220, "n_validate_only": 12}},
    min_nontrivial=400,
    finalize=finalize,
)

if __name__ == "__main__":
    harness.main(SPEC)
