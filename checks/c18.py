"""C18 range() yields Python's sequence.

Runtime part.  A case is `(form, start, stop, step, shape)`; `form` 1/2/3 = number of arguments of
the `range(...)` call.  The generator draws `(start, step, length)` and *derives* `stop` with a
drawn slack, so lengths 0..40, both step signs, |step| up to 2^62, exact hits of `stop`
(`stop == start + len*step`), starts / stops within 3 of +-2^63 and very long ranges (only the
first 42 values are observed) all occur.  All values reach `range` as *function arguments* of one
of four fixed helper functions (`r1 r2 r3` loop directly over the call, `r3v` binds the range to a
variable first), so nothing is a compile-time constant where `range` is called.  The loop body
reports the value and breaks after `min(len, 40) + 2` iterations: a runaway range is observed,
not waited for.  32 ranges share one emulated program (`("case", i)` markers split the stream).

Comptime part (same program).  `range(n)` with a literal / `comptime(N)` / generic `nat @comptime`
`n` in [0, 40] used under a drawn static size `S`: annotated array comprehension, `SizedIter[Range,
S]` variable or return type, `array[int, S]` return type, generic `g(n) -> array[int, n]`, plain
`for`.  Every function is type-checked on its own (`check()`): it must be accepted iff `S == n`;
accepted ones are called from `main` and must report `0..n-1`.

Oracle: CPython's own `range` applied to the case data (not to the generated text):
`list(islice(range(*args), lim))`, and for the comptime part `list(range(n))` + `S == n`.

Finding of this check on the unchanged tree (`C18_EXCLUDE=none` re-opens it): bucket
`range.overflow_wrap` - see PROBES and the final report.  Input class: the range is observed to its
end (len <= 41 here), len >= 1 and `start + len*step` is not an int64, i.e. the `next + step` that
`Range.__next__` computes eagerly when it yields the last element wraps around, lands on the
other side of `stop`, and the end test never fires.  Every member of the class fails (the wrapped
value is `last + step -+ 2^64`, which is always on the "not yet finished" side of `stop`), so the
class is excluded exactly, by construction, and counted.
"""
import itertools
import os
import re
import sys

sys.path.insert(0, os.path.dirname(os.path.dirname(os.path.abspath(__file__))))
from vlib import harness  # noqa: E402

PROP = "C18"
MAX = 2**63 - 1
MIN = -(2**63)
OBS = 40          # ranges up to this length are observed to their end (+2 iterations of slack)
BATCH = 32
N_COMPTIME = 8

EXCLUDE = set()  # {"range.overflow_wrap"} until the defect was fixed in /repo (186c8d9)
if os.environ.get("C18_EXCLUDE") is not None:
    _e = os.environ["C18_EXCLUDE"].strip()
    EXCLUDE = set() if _e in ("", "none") else {x.strip() for x in _e.split(",")}


# ------------------------------------------------------------------------------ case helpers
def py_range(c):
    if c["form"] == 1:
        return range(c["stop"])
    if c["form"] == 2:
        return range(c["start"], c["stop"])
    return range(c["start"], c["stop"], c["step"])


def rlen(r):
    """len(r) without the ssize_t limit of CPython's len()"""
    if r.step > 0:
        return max(0, (r.stop - r.start + r.step - 1) // r.step)
    return max(0, (r.start - r.stop - r.step - 1) // (-r.step))


def limit(c):
    return min(rlen(py_range(c)), OBS) + 2


def expected(c):
    return list(itertools.islice(py_range(c), limit(c)))


def in_int64(v):
    return MIN <= v <= MAX


def overflow_class(c):
    """the eagerly computed successor of the LAST element leaves int64 and the end is observed"""
    r = py_range(c)
    n = rlen(r)
    return 1 <= n < limit(c) and not in_int64(r.start + n * r.step)


def lit(v):
    if v >= 0:
        return str(v)
    if v == MIN:
        return "(-9223372036854775807 - 1)"
    return "-" + str(-v)


def call_of(c):
    lim = limit(c)
    nat_ok = c.get("argty") == "nat" and c["stop"] >= 0 and c.get("start", 0) >= 0
    if c["form"] == 1:
        return f"r1n(nat({c['stop']}), {lim})" if nat_ok else f"r1({lit(c['stop'])}, {lim})"
    if c["form"] == 2:
        if nat_ok:
            return f"r2n(nat({c['start']}), nat({c['stop']}), {lim})"
        return f"r2({lit(c['start'])}, {lit(c['stop'])}, {lim})"
    fn = "r3v" if c.get("shape") == "var" else "r3"
    return f"{fn}({lit(c['start'])}, {lit(c['stop'])}, {lit(c['step'])}, {lim})"


HELPERS = '''
from guppylang.std.builtins import SizedIter, Range

@guppy
def r1(b: int, lim: int) -> None:
    k = 0
    for x in range(b):
        result("v", x)
        k += 1
        if k >= lim:
            break
    result("n", k)

@guppy
def r1n(b: nat, lim: int) -> None:
    k = 0
    for x in range(b):
        result("v", x)
        k += 1
        if k >= lim:
            break
    result("n", k)

@guppy
def r2n(a: nat, b: nat, lim: int) -> None:
    k = 0
    for x in range(a, b + nat(0)):
        result("v", x)
        k += 1
        if k >= lim:
            break
    result("n", k)

@guppy
def r2(a: int, b: int, lim: int) -> None:
    k = 0
    for x in range(a, b):
        result("v", x)
        k += 1
        if k >= lim:
            break
    result("n", k)

@guppy
def r3(a: int, b: int, c: int, lim: int) -> None:
    k = 0
    for x in range(a, b, c):
        result("v", x)
        k += 1
        if k >= lim:
            break
    result("n", k)

@guppy
def r3v(a: int, b: int, c: int, lim: int) -> None:
    k = 0
    r = range(a, b, c)
    for x in r:
        result("v", x)
        k += 1
        if k >= lim:
            break
    result("n", k)
'''

# ------------------------------------------------------------------------------ comptime forms
# case = {"cform": A..F, "n": int, "size": int, "spec": "lit"|"ct"}
CFORMS = ("A", "B", "C", "D", "E", "F")


def ct_source(i, c):
    """-> (module-level text, name of the checked function, statements for main)"""
    n, s = c["n"], c["size"]
    arg = str(n) if c["spec"] == "lit" else f"comptime(N{i})"
    pre = f"N{i} = {n}\n" if c["spec"] == "ct" else ""
    f = f"ct{i}"
    if c["cform"] == "A":
        body = (f"@guppy\ndef {f}() -> None:\n    xs: array[int, {s}] = array(j for j in range({arg}))\n"
                f"    for x in xs:\n        result(\"v\", x)\n")
        call = f"{f}()"
    elif c["cform"] == "B":
        body = (f"@guppy\ndef {f}() -> None:\n    it: SizedIter[Range, {s}] = range({arg})\n"
                f"    for x in it:\n        result(\"v\", x)\n")
        call = f"{f}()"
    elif c["cform"] == "C":
        body = f"@guppy\ndef {f}() -> SizedIter[Range, {s}]:\n    return range({arg})\n"
        call = f"for x{i} in {f}():\n        result(\"v\", x{i})"
    elif c["cform"] == "D":
        body = f"@guppy\ndef {f}() -> array[int, {s}]:\n    return array(j + 0 for j in range({arg}))\n"
        call = f"for x{i} in {f}():\n        result(\"v\", x{i})"
    elif c["cform"] == "E":
        body = (f"@guppy\ndef g{i}(m: nat @ comptime) -> array[int, m]:\n    return array(j for j in range(m))\n"
                f"@guppy\ndef {f}() -> None:\n    xs: array[int, {s}] = g{i}({arg})\n"
                f"    for x in xs:\n        result(\"v\", x)\n")
        call = f"{f}()"
    else:  # F: plain for, no size annotation (size is irrelevant; always accepted)
        body = f"@guppy\ndef {f}() -> None:\n    for x in range({arg}):\n        result(\"v\", x)\n"
        call = f"{f}()"
    return pre + body, f, call


def ct_accept(c):
    return c["cform"] == "F" or c["size"] == c["n"]


# ------------------------------------------------------------------------------ program
def build(ranges, cts, ct_called):
    """source of one program; `ct_called` = indices of comptime functions called from main"""
    from vlib import runner

    parts = [runner.PRELUDE, HELPERS]
    calls = []
    for i, c in enumerate(cts):
        text, _f, call = ct_source(i, c)
        parts.append(text)
        if i in ct_called:
            calls.append(f"    result(\"ct\", {i})\n    {call}\n")
    main = ["@guppy\ndef main() -> None:\n"]
    for i, c in enumerate(ranges):
        main.append(f"    result(\"case\", {i})\n    {call_of(c)}\n")
    main.extend(calls)
    main.append("    result(\"done\", 0)\n")
    return "\n".join(parts) + "\n" + "".join(main)


def split(stream):
    """-> {("case"|"ct", i): [entries...]}, complete?"""
    segs = {}
    cur = None
    done = False
    for t, v in stream:
        if t in ("case", "ct"):
            cur = (t, v)
            segs[cur] = []
        elif t == "done":
            done = True
            cur = None
        elif cur is not None:
            segs[cur].append((t, v))
    return segs, done


def judge_range(c, seg):
    """seg = entries after the marker.  -> None | (bucket, detail)"""
    exp = expected(c)
    vals = [v for t, v in seg if t == "v"]
    ns = [v for t, v in seg if t == "n"]
    if vals == exp and ns == [len(exp)]:
        return None
    r = py_range(c)
    sign = "neg" if r.step < 0 else "pos"
    if overflow_class(c):
        b = "range.overflow_wrap"
    elif vals[:len(exp)] == exp and len(vals) > len(exp):
        b = f"range.extra_values.form{c['form']}.{sign}"
    elif exp[:len(vals)] == vals and len(vals) < len(exp):
        b = f"range.missing_values.form{c['form']}.{sign}"
    elif vals == exp:
        b = f"range.count.form{c['form']}"
    else:
        b = f"range.wrong_values.form{c['form']}.{sign}"
    return b, (f"{call_of(c)}: range{tuple(py_range(c).__reduce__()[1])} observed {vals} (n={ns}); "
               f"Python yields {exp}" + (" ... (truncated at the iteration limit)" if rlen(r) > len(exp) else ""))


def judge_ct_stream(c, seg):
    exp = list(range(c["n"]))
    vals = [v for t, v in seg if t == "v"]
    if vals == exp:
        return None
    return (f"comptime.sequence.form{c['cform']}",
            f"{ct_source(0, c)[0]!r}: observed {vals}, expected 0..{c['n'] - 1}")


def run_program(ranges, cts):
    """-> (verdicts for ranges, verdicts for cts, status) ; verdict None | (bucket, detail) |
    "unreached" | "unsupported"; status "ok" | ("harness", msg)"""
    from vlib import runner

    src = build(ranges, cts, {i for i, c in enumerate(cts) if ct_accept(c)})
    try:
        lm = runner.load_module(src)
    except BaseException as e:  # noqa: BLE001
        return None, None, ("harness", f"generated module does not load: {e!r}\n{src}")
    try:
        vc = [None] * len(cts)
        called = set()
        for i, c in enumerate(cts):
            o = runner.check_def(getattr(lm.mod, f"ct{i}"))
            acc = ct_accept(c)
            if o.kind == "ok":
                if not acc:
                    vc[i] = (f"comptime.wrong_size_accepted.form{c['cform']}",
                             f"size {c['size']} accepted for range({c['n']}):\n{ct_source(0, c)[0]}")
                else:
                    called.add(i)
            elif o.kind == "rejected":
                if acc:
                    vc[i] = (f"comptime.right_size_rejected.form{c['cform']}",
                             f"{o.title}: {o.message[:600]}\n{ct_source(0, c)[0]}")
            else:
                vc[i] = (f"comptime.crash.{runner.crash_bucket(o.exc) if o.exc else o.kind}",
                         f"{o.message[-800:]}\n{ct_source(0, c)[0]}")
        if called != {i for i, c in enumerate(cts) if ct_accept(c)}:
            # some function that main calls was not accepted: rebuild main without it
            lm.dispose()
            src = build(ranges, cts, called)
            lm = runner.load_module(src)
        out, pkg = runner.compile_def(lm.mod.main)
        if out.kind == "rejected" and not cts:
            # only the fixed range helpers (accepted on the unchanged tree: int and nat run-time arguments, every
            # form) and calls with literal arguments: a rejection means some valid use of range() no longer compiles
            return None, None, ("violation", f"range.valid_program_rejected.{re.sub(r'[^A-Za-z0-9]+', '_', out.title or 'error')[:40]}",
                                f"a program made only of the range helpers is rejected ({out.title}):\n{out.message[-1200:]}")
        if out.kind != "ok":
            return None, None, ("harness", f"main not accepted ({out.kind}): {out.message[-1500:]}\n{src}")
        v = runner.validate_pkg(pkg)
        if v.kind != "ok":
            return None, None, ("harness", f"hugr validate failed: {v.message[:1500]}\n{src}")
        o = runner.emulate_pkg(pkg, n_qubits=1)
    finally:
        lm.dispose()
    if o.kind == "unsupported":
        return ["unsupported"] * len(ranges), vc, "ok"
    segs, done = split(o.stream)
    vr = []
    last = None
    for i, c in enumerate(ranges):
        if ("case", i) not in segs:
            vr.append("unreached")
            continue
        last = ("r", i)
        vr.append(judge_range(c, segs[("case", i)]))
    for i in sorted(called):
        if ("ct", i) not in segs:
            vc[i] = "unreached"
            continue
        last = ("c", i)
        vc[i] = judge_ct_stream(cts[i], segs[("ct", i)])
    if o.kind == "panic":
        # the segment that was running when the program panicked is the culprit
        det = f"program panicked ({o.message}) inside this case; stream of the case: "
        if last is None:
            return None, None, ("harness", f"panic before the first case: {o.message}\n{src}")
        if last[0] == "r":
            c = ranges[last[1]]
            b = "range.overflow_wrap" if overflow_class(c) else f"range.panic.form{c['form']}"
            vr[last[1]] = (b, det + f"{segs[('case', last[1])]} for {call_of(c)}")
        else:
            c = cts[last[1]]
            vc[last[1]] = (f"comptime.panic.form{c['cform']}",
                           det + f"{segs[('ct', last[1])]}\n{ct_source(0, c)[0]}")
    elif not done:
        return None, None, ("harness", f"stream without end marker: {o.stream[-5:]}")
    return vr, vc, "ok"


# ------------------------------------------------------------------------------ probes / replay
PROBES = {
    # DESIGN 1.5: two correct values, then wrapped negative ones, never stops
    "range.overflow_wrap": {"kind": "range", "form": 3, "start": 2**63 - 8, "stop": 2**63 - 2, "step": 5,
                            "shape": "direct"},
}


def replay(case):
    """Re-run one recorded case (ignores EXCLUDE)."""
    if "probe" in case:
        case = PROBES[case["probe"]]
    if case["kind"] == "range":
        vr, _vc, st = run_program([case], [])
        if st != "ok" and st[0] == "violation":
            return (st[1], st[2])
        if st != "ok":
            raise harness.HarnessError(st[1])
        r = vr[0]
    else:
        _vr, vc, st = run_program([], [case])
        if st != "ok":
            raise harness.HarnessError(st[1])
        r = vc[0]
    return r if isinstance(r, tuple) else None


# ------------------------------------------------------------------------------ strategies
def strategies():
    from hypothesis import strategies as st

    mags = st.one_of(
        st.sampled_from([1, 1, 2, 3, 5, 7, 10, 2**31, 2**32 + 1, 2**61, 2**62, 2**62 - 1]),
        st.integers(1, 12),
        st.integers(1, 62).map(lambda k: 2**k),
        st.integers(1, 2**62),
    )
    lengths = st.one_of(st.sampled_from([0, 0, 1, 2, 3, 40, 41]), st.integers(0, 40), st.integers(0, 8))
    small = st.integers(-12, 12)
    anyint = st.integers(MIN, MAX)

    @st.composite
    def one_range(draw):
        form = draw(st.sampled_from([1, 2, 3, 3, 3]))
        if form == 1:
            start, step = 0, 1
        elif form == 2:
            step = 1
        else:
            step = draw(mags) * draw(st.sampled_from([1, -1]))
        sgn = 1 if step > 0 else -1
        n = draw(lengths)
        # the last element must leave room for a stop beyond it inside int64
        lo, hi = (MIN, MAX - 1) if sgn > 0 else (MIN + 1, MAX)
        if form != 1:
            how = draw(st.sampled_from(["hi", "lo", "small", "any", "fit_hi", "fit_lo"]))
            d = draw(st.integers(0, 3))
            if how == "hi":
                start = MAX - d
            elif how == "lo":
                start = MIN + d
            elif how == "small":
                start = draw(small)
            elif how == "any":
                start = draw(anyint)
            elif how == "fit_hi":   # last element (or start, for negative steps) lands next to +2^63
                start = (hi - d) - (n - 1) * step if sgn > 0 and n else MAX - d
            else:
                start = (lo + d) - (n - 1) * step if sgn < 0 and n else MIN + d
            start = max(MIN, min(MAX, start))
        # shorten until every element and a stop beyond the last one fit
        if n:
            room = (hi - start) // step if sgn > 0 else (start - lo) // (-step)
            n = 0 if room < 0 else min(n, room + 1)
        mode = draw(st.sampled_from(["exact", "exact", "slack", "one", "long"]))
        if mode == "long":
            # arbitrary stop on the far side: usually a very long range, observed for 42 values
            stop = draw(st.integers(start, MAX)) if sgn > 0 else draw(st.integers(MIN, start))
        elif n == 0:
            e = draw(st.one_of(st.sampled_from([0, 0, 1, 2]), st.integers(0, 2**63)))
            stop = max(MIN, start - e) if sgn > 0 else min(MAX, start + e)
        else:
            last = start + (n - 1) * step
            k = abs(step)
            slack = k if mode == "exact" else 1 if mode == "one" else draw(st.integers(1, k))
            stop = min(MAX, last + slack) if sgn > 0 else max(MIN, last - slack)
        c = {"kind": "range", "form": form, "start": start, "stop": stop, "step": step,
             "shape": draw(st.sampled_from(["direct", "var"])) if form == 3 else "direct"}
        if form == 1:
            c["start"], c["step"] = 0, 1
        if form in (1, 2):
            # the same range with run-time arguments of type nat (expressions included)
            c["argty"] = draw(st.sampled_from(["int", "int", "nat"]))
        return c

    @st.composite
    def one_ct(draw):
        n = draw(st.one_of(st.integers(0, 40), st.sampled_from([0, 1, 2, 40])))
        how = draw(st.sampled_from(["eq", "eq", "plus", "minus", "any"]))
        size = {"eq": n, "plus": n + 1, "minus": max(0, n - 1)}.get(how)
        if size is None:
            size = draw(st.integers(0, 41))
        return {"kind": "comptime", "cform": draw(st.sampled_from(CFORMS)), "n": n, "size": size,
                "spec": draw(st.sampled_from(["lit", "ct"]))}

    batch = st.tuples(st.lists(one_range(), min_size=BATCH, max_size=BATCH),
                      st.lists(one_ct(), min_size=N_COMPTIME, max_size=N_COMPTIME))
    return one_range(), one_ct(), batch


def labels_range(c):
    r = py_range(c)
    n = rlen(r)
    labs = [f"form{c['form']}"]
    near_hi = any(v >= MAX - 1024 for v in (r.start, r.stop))
    near_lo = any(v <= MIN + 1024 for v in (r.start, r.stop))
    if n == 0:
        labs.append("empty")
    elif n > OBS:
        labs.append("long(>40, truncated)")
    else:
        labs.append("len1-3" if n <= 3 else "len4-40")
    if c["form"] == 3:
        labs.append("step<0" if r.step < 0 else "step>0")
        if abs(r.step) >= 2**32:
            labs.append("|step|>=2^32")
        if n and r.start + n * r.step == r.stop:
            labs.append("stop hit exactly")
        if c.get("shape") == "var":
            labs.append("range bound to a variable")
    if near_hi:
        labs.append("bound within 2^10 of +2^63")
    if near_lo:
        labs.append("bound within 2^10 of -2^63")
    if c["stop"] < 0 < r.step:
        labs.append("negative stop, positive step")
    if c["stop"] > 0 > r.step:
        labs.append("positive stop, negative step")
    nt = n == 0 or r.step < 0 or near_hi or near_lo
    return nt, labs


# ------------------------------------------------------------------------------ worker
def worker(ctx):
    one_range, one_ct, batch = strategies()
    ctx.notes["EXCLUDE"] = sorted(EXCLUDE)
    first_seen = {}

    def record(kind, c, r):
        if r[0] not in first_seen:
            first_seen[r[0]] = (kind, c)
        ctx.violation(r[0], c, r[1])

    def eval_program(ranges, cts, depth=0):
        vr, vc, st = run_program(ranges, cts)
        if st != "ok" and st[0] == "harness" and cts and "main not accepted (rejected)" in st[1]:
            # is it the range helpers alone?  (then it is a finding, not a harness problem)
            _a, _b, st2 = run_program(ranges[:1], [])
            if st2 != "ok" and st2[0] == "violation":
                st = st2
        if st != "ok" and st[0] == "violation":
            ctx.violation(st[1], {"kind": "range", **ranges[0]} if ranges else {"kind": "helpers"}, st[2])
            return
        if st != "ok":
            ctx.harness_error(st[1])
            return
        redo_r, redo_c = [], []
        for c, r in zip(ranges, vr):
            if r == "unreached":
                redo_r.append(c)
                continue
            if r == "unsupported":
                ctx.unsupported_case("selene could not build/run the program")
                continue
            nt, labs = labels_range(c)
            ctx.case(("r", c["form"], c["start"], c["stop"], c["step"], c["shape"]), nt,
                     labels=labs + (["nontrivial"] if nt else []),
                     sample={"call": call_of(c), "python": str(expected(c))[:160]})
            if r:
                record("range", c, r)
        for c, r in zip(cts, vc):
            if r == "unreached":
                redo_c.append(c)
                continue
            acc = ct_accept(c)
            ctx.case(("c", c["cform"], c["n"], c["size"], c["spec"]), True,
                     labels=[f"comptime:{c['cform']}", "comptime:" + ("accepted" if acc else "wrong size"),
                             f"comptime:{c['spec']}"] + (["comptime:n=0"] if c["n"] == 0 else []),
                     sample={"src": ct_source(0, c)[0], "accept": acc})
            if r:
                record("comptime", c, r)
        if (redo_r or redo_c) and depth < 4:
            eval_program(redo_r, redo_c, depth + 1)

    def body(case):
        ranges, cts = case
        keep = []
        for c in ranges:
            if overflow_class(c):
                ctx.label("overflow class drawn")
                if "range.overflow_wrap" in EXCLUDE:
                    ctx.exclude("range.overflow_wrap: end observed (1<=len<=41), start+len*step not an int64")
                    continue
            keep.append(c)
        if all(rlen(py_range(c)) == 0 for c in keep):
            ctx.exclude("degenerate batch (Hypothesis' minimal example: every range empty) not built", 1)
            return
        try:
            eval_program(keep, list(cts))
        except harness.HarnessError:
            raise
        except Exception as e:  # noqa: BLE001  (keep the traceback short: Hypothesis appends the whole example)
            import traceback
            ctx.harness_error("exception in property body: " + "".join(
                traceback.format_exception(type(e), e, e.__traceback__))[-1800:])

    harness.hyp_search(ctx, batch, body, max_examples=ctx.params["n"], chunk=20, time_frac=0.75)

    # minimise each new bucket with the single-case strategies (bounded)
    for bucket, (kind, c0) in list(first_seen.items()):
        if ctx.out_of_time(0.8):
            break
        strat = one_range if kind == "range" else one_ct

        def fails(c, _b=bucket):
            try:
                r = replay(c)
            except harness.HarnessError:
                return None
            return (c, r[1]) if r and r[0] == _b else None

        r = harness.hyp_shrink(ctx, strat, fails, budget_s=min(25, ctx.budget_s * 0.15), max_examples=60,
                               start=c0)
        if r:
            ctx.violation(bucket, r[1][0], r[1][1])

    # fixed probes of the confirmed classes: reported in the evidence, never a violation by themselves
    for k, (b, case) in enumerate(sorted(PROBES.items())):
        if k % ctx.nshards != ctx.shard:
            continue
        try:
            r = replay(case)
        except BaseException as e:  # noqa: BLE001
            ctx.notes["probe:" + b] = f"probe crashed: {e!r}"
            continue
        ctx.notes["probe:" + b] = (("still fails: " + r[1]) if r else "passes now") + (
            f"  [bucket now {r[0]}]" if r and r[0] != b else "")


SPEC = harness.Spec(
    PROP, worker, replay,
    rule=("each program holds 32 drawn ranges (1-/2-/3-argument forms; (start, step, length) drawn and stop derived with a "
          "drawn slack: lengths 0..40 and >40, both step signs, |step| up to 2^62, starts/stops within 3 of +-2^63) called "
          "through helper functions with all values as run-time arguments, the loop reporting each value and breaking after "
          "min(len,40)+2 iterations, plus 8 comptime-sized uses of range(n) (n in 0..40, literal / comptime / generic nat; "
          "annotated size equal, off by one or arbitrary) that are type-checked one by one and emulated when accepted. "
          "non-trivial = empty range, negative step, or a bound within 2^10 of +-2^63, and every comptime case; "
          "distinct = distinct (form, start, stop, step, shape) resp. (form, n, size, spelling)"),
    assumptions=["CPython 3.12 `range` is the reference; only the first min(len,40)+2 values of a range are observed",
                 "rejection = any GuppyError from check() of the function that holds the annotated size",
                 "selene 0.4.3 executes the lowered copy of the package (compat bridge, DESIGN.md 1.2)",
                 "input class range.overflow_wrap (observed to its end, len>=1, start+len*step outside int64) is excluded "
                 "by construction while listed in EXCLUDE; its fixed probe is reported in notes"],
    shards={"quick": 16, "thorough": 16},
    budget_s={"quick": 150, "thorough": 1200},
    params={"quick": {"n": 8}, "thorough": {"n": 120}},
    min_nontrivial=200,
)

if __name__ == "__main__":
    harness.main(SPEC)
