"""C32 Accepted syntax is never silently ignored.

Domain: templates enumerated from the `ast` grammar - every statement / expression node kind and
optional clause - written so that the construct's effect is observable through `result`, embedded
by Hypothesis in contexts (top level, inside a loop, inside a branch, inside a nested function,
after another template).  Oracle: the program is rejected with a GuppyError, or the emulated
stream equals what CPython produces for the same source (pyref); if CPython raises at some point,
the emulated program must stop there too (panic) instead of running on."""
import ast
import os
import sys

sys.path.insert(0, os.path.dirname(os.path.dirname(os.path.abspath(__file__))))
from vlib import harness  # noqa: E402

PROP = "C32"

MODULE_HEAD = '''
GLOB = 1

def pydeco(f):
    def w(*a):
        return f(*a) * 2
    return w

class CM:
    def __enter__(self):
        return 7
    def __exit__(self, *a):
        return False

@guppy
def g(a: int, b: int) -> int:
    return a * 10 + b

@guppy.struct
class Ctr:
    v: int

    @guppy
    def add(self: "Ctr", d: int) -> int:
        return self.v + d

@guppy
def setglob() -> None:
    global GLOB
    GLOB = 5

'''

# (name, node kind / clause, lines of the body; {T} is a unique tag prefix)
T = []


def t(name, kind, body, top_only=False, helpers="", must_reject=False):
    """must_reject: a clause Guppy cannot give its Python effect by design (`as` on a modifier block binds
    nothing), checked with experimental features enabled: acceptance means the clause was dropped"""
    T.append({"name": name, "kind": kind, "body": body.strip("\n").split("\n"), "top_only": top_only,
              "helpers": helpers, "must_reject": must_reject})


# ---- statements ------------------------------------------------------------------------------
t("while_else", "While.orelse", '''
i{T} = 0
while i{T} < 2:
    i{T} += 1
else:
    result("{T}else", 1)
result("{T}end", i{T})
''')
t("while_else_break", "While.orelse+break", '''
i{T} = 0
while i{T} < 5:
    i{T} += 1
    if i{T} == 2:
        break
else:
    result("{T}else", 1)
result("{T}end", i{T})
''')
t("for_else", "For.orelse", '''
for j{T} in range(2):
    result("{T}it", j{T})
else:
    result("{T}else", 1)
result("{T}end", 0)
''')
t("for_else_break", "For.orelse+break", '''
for j{T} in range(4):
    if j{T} == 1:
        break
else:
    result("{T}else", 1)
result("{T}end", 0)
''')
t("try_finally", "Try.finalbody", '''
try:
    result("{T}a", 1)
finally:
    result("{T}f", 2)
''')
t("try_except", "Try.handlers", '''
try:
    result("{T}a", 1)
except Exception:
    result("{T}e", 2)
''')
t("try_else", "Try.orelse", '''
try:
    result("{T}a", 1)
except Exception:
    pass
else:
    result("{T}else", 2)
''')
t("with_as", "With.items", '''
with CM() as c{T}:
    result("{T}c", c{T})
''')
t("assert_false", "Assert", '''
result("{T}a", 1)
assert 1 > 2
result("{T}b", 2)
''')
t("assert_msg", "Assert.msg", '''
result("{T}a", 1)
assert 1 > 2, "no"
result("{T}b", 2)
''')
t("assert_true", "Assert(true)", '''
assert 2 > 1
result("{T}b", 2)
''')
t("del_name", "Delete", '''
x{T} = 1
del x{T}
result("{T}x", x{T})
''')
t("del_subscript", "Delete(Subscript)", '''
xs{T} = array(1, 2, 3)
del xs{T}[0]
result("{T}x", xs{T}[0])
''')
t("global_stmt", "Global", '''
setglob()
result("{T}g", GLOB)
''', top_only=True)
t("nonlocal_stmt", "Nonlocal", '''
x{T} = 1
def h{T}() -> None:
    nonlocal x{T}
    x{T} = 5
h{T}()
result("{T}x", x{T})
''')
t("raise_stmt", "Raise", '''
result("{T}a", 1)
raise ValueError()
result("{T}b", 2)
''')
t("import_stmt", "Import", '''
import math
result("{T}a", 1)
''')
t("importfrom_stmt", "ImportFrom", '''
from math import floor
result("{T}a", floor(1.5))
''')
t("class_stmt", "ClassDef", '''
class A{T}:
    v = 3
result("{T}a", A{T}.v)
''')
t("annassign_novalue", "AnnAssign(no value)", '''
x{T}: int
x{T} = 3
result("{T}x", x{T})
''')
t("annassign", "AnnAssign", '''
x{T}: int = 3
result("{T}x", x{T})
''')
t("chained_assign", "Assign(multiple targets)", '''
a{T} = b{T} = 3
result("{T}a", a{T})
result("{T}b", b{T})
''')
t("augassign_all", "AugAssign", '''
x{T} = 7
x{T} += 2
x{T} -= 1
x{T} *= 3
x{T} //= 2
x{T} %= 7
x{T} <<= 2
x{T} >>= 1
x{T} |= 1
x{T} &= 13
x{T} ^= 6
result("{T}x", x{T})
''')
t("augassign_pow", "AugAssign(Pow)", '''
x{T} = 3
x{T} **= 2
result("{T}x", x{T})
''')
t("augassign_div", "AugAssign(Div)", '''
y{T} = 3.0
y{T} /= 2.0
result("{T}y", y{T})
''')
t("match_stmt", "Match", '''
x{T} = 2
match x{T}:
    case 1:
        result("{T}m", 1)
    case _:
        result("{T}m", 0)
''')
t("nested_decorator", "FunctionDef.decorator_list", '''
@pydeco
def h{T}(a: int) -> int:
    return a + 1
result("{T}h", h{T}(1))
''')
t("nested_default", "arguments.defaults", '''
def h{T}(a: int = 5) -> int:
    return a + 1
result("{T}h", h{T}())
''')
t("nested_default_given", "arguments.defaults(given)", '''
def h{T}(a: int, b: int = 5) -> int:
    return a * 10 + b
result("{T}h", h{T}(1))
''')
t("nested_vararg", "arguments.vararg", '''
def h{T}(*a: int) -> int:
    return 1
result("{T}h", h{T}(1, 2))
''')
t("nested_kwarg", "arguments.kwarg", '''
def h{T}(**a: int) -> int:
    return 1
result("{T}h", h{T}(x=1))
''')
t("nested_kwonly", "arguments.kwonlyargs", '''
def h{T}(a: int, *, b: int) -> int:
    return a * 10 + b
result("{T}h", h{T}(1, b=2))
''')
t("nested_posonly", "arguments.posonlyargs", '''
def h{T}(a: int, /, b: int) -> int:
    return a * 10 + b
result("{T}h", h{T}(1, 2))
''')
t("nested_async", "AsyncFunctionDef", '''
async def h{T}(a: int) -> int:
    return a
result("{T}a", 1)
''')
t("call_keywords", "Call.keywords", '''
result("{T}k", g(b=1, a=2))
''')
t("call_keyword_mixed", "Call.keywords(mixed)", '''
result("{T}k", g(1, b=2))
''')
# surplus / repeated keywords where the call is checked against an expected type (annotated assignment,
# return operand, argument of another call, method call, builtin): CPython raises TypeError
t("kw_surplus_annassign", "Call.keywords(surplus, AnnAssign)", '''
x{T}: int = g(1, 2, b=3)
result("{T}k", x{T})
''')
t("kw_unknown_annassign", "Call.keywords(unknown, AnnAssign)", '''
x{T}: int = g(1, 2, c=3)
result("{T}k", x{T})
''')
t("kw_surplus_return", "Call.keywords(surplus, Return)", '''
def h{T}() -> int:
    return g(1, 2, zz=7)
result("{T}k", h{T}())
''')
t("kw_surplus_argument", "Call.keywords(surplus, argument)", '''
result("{T}k", g(g(1, 2, b=5), 3))
''')
t("kw_surplus_method", "Call.keywords(surplus, method)", '''
c{T} = Ctr(1)
x{T}: int = c{T}.add(1, d=100)
result("{T}k", x{T})
''')
t("kw_valid_method", "Call.keywords(method)", '''
c{T} = Ctr(1)
x{T}: int = c{T}.add(d=100)
result("{T}k", x{T})
''')
t("kw_surplus_builtin", "Call.keywords(surplus, builtin)", '''
x{T}: int = abs(-3, key=2)
result("{T}k", x{T})
''')
t("kw_surplus_builtin_arg", "Call.keywords(surplus, builtin as argument)", '''
result("{T}k", g(abs(-3, key=2), 1))
''')
t("kw_valid_annassign", "Call.keywords(AnnAssign)", '''
x{T}: int = g(1, b=2)
result("{T}k", x{T})
''')
# `as` on a modifier block: nothing can be bound
t("with_dagger_as", "withitem.optional_vars(dagger)", '''
q{T} = qubit()
with dagger as d{T}:
    hgate(q{T})
discard(q{T})
result("{T}a", 1)
''', must_reject=True)
t("with_dagger_call_as", "withitem.optional_vars(dagger())", '''
q{T} = qubit()
with dagger() as d{T}:
    hgate(q{T})
discard(q{T})
result("{T}a", 1)
''', must_reject=True)
t("with_control_as", "withitem.optional_vars(control)", '''
q{T} = qubit()
c{T} = qubit()
with control(c{T}) as k{T}:
    hgate(q{T})
discard(q{T})
discard(c{T})
result("{T}a", 1)
''', must_reject=True)
t("with_power_as", "withitem.optional_vars(power)", '''
q{T} = qubit()
with power(2) as p{T}:
    hgate(q{T})
discard(q{T})
result("{T}a", 1)
''', must_reject=True)
t("with_second_item_as", "withitem.optional_vars(second item)", '''
q{T} = qubit()
c{T} = qubit()
with control(c{T}), dagger as d{T}:
    hgate(q{T})
discard(q{T})
discard(c{T})
result("{T}a", 1)
''', must_reject=True)
t("with_first_item_as", "withitem.optional_vars(first item)", '''
q{T} = qubit()
with dagger as d{T}, power(2):
    hgate(q{T})
discard(q{T})
result("{T}a", 1)
''', must_reject=True)
t("while_else_break", "While.orelse(+break)", '''
i{T} = 0
while i{T} < 3:
    i{T} += 1
    if i{T} == 2:
        break
else:
    result("{T}else", 1)
result("{T}end", i{T})
''')
t("while_else_break_not_taken", "While.orelse(+break not taken)", '''
i{T} = 0
while i{T} < 3:
    i{T} += 1
    if i{T} == 7:
        break
else:
    result("{T}else", 1)
result("{T}end", i{T})
''')
t("for_else_break", "For.orelse(+break)", '''
for i{T} in range(3):
    if i{T} == 1:
        break
else:
    result("{T}else", 1)
result("{T}end", 2)
''')
t("for_else_continue", "For.orelse(+continue)", '''
for i{T} in range(3):
    if i{T} == 1:
        continue
    result("{T}i", i{T})
else:
    result("{T}else", 1)
''')
t("call_doublestar_surplus", "Call(**, surplus)", '''
result("{T}k", g(1, 2, **{"a": 5}))
''')
t("call_doublestar_then_kw", "Call(**, then keyword)", '''
result("{T}k", g(1, 2, **{"c": 1}, b=4))
''')
t("call_doublestar_annassign", "Call(**, AnnAssign)", '''
x{T}: int = g(1, 2, **{"b": 3})
result("{T}k", x{T})
''')
t("call_doublestar_partial", "Call(**, partial)", '''
result("{T}k", g(1, **{"b": 2}))
''')
t("comptime_keyword", "Call.keywords(comptime)", '''
result("{T}k", comptime(1, foo=2))
''')
t("comptime_keyword_only", "Call.keywords(comptime, only)", '''
result("{T}k", comptime(x=1))
''')
t("py_keyword", "Call.keywords(py)", '''
result("{T}k", py(1, foo=2))
''')
t("call_starred", "Call(Starred)", '''
p{T} = (1, 2)
result("{T}k", g(*p{T}))
''')
t("call_doublestar", "Call(**)", '''
result("{T}k", g(**{"a": 1, "b": 2}))
''')
t("result_keywords", "Call.keywords(result)", '''
result(tag="{T}k", value=3)
''')
t("return_none_value", "Return(no value)", '''
result("{T}a", 1)
return
result("{T}b", 2)
''', top_only=True)
t("yield_stmt", "Yield", '''
result("{T}a", 1)
yield 1
''', top_only=True)
t("yield_from", "YieldFrom", '''
result("{T}a", 1)
yield from range(2)
''', top_only=True)
t("lambda_expr", "Lambda", '''
f{T} = lambda a: a + 1
result("{T}l", f{T}(1))
''')
t("dict_expr", "Dict", '''
d{T} = {1: 2}
result("{T}d", d{T}[1])
''')
t("set_expr", "Set", '''
s{T} = {1, 2}
result("{T}s", len(s{T}))
''')
t("list_expr", "List", '''
l{T} = [1, 2, 3]
result("{T}l", l{T}[1])
''')
t("listcomp", "ListComp", '''
l{T} = [i * 2 for i in range(3)]
result("{T}l", l{T}[2])
''')
t("setcomp", "SetComp", '''
l{T} = {i for i in range(3)}
result("{T}l", len(l{T}))
''')
t("dictcomp", "DictComp", '''
l{T} = {i: i for i in range(3)}
result("{T}l", l{T}[1])
''')
t("genexp_array", "GeneratorExp", '''
l{T} = array(i * 2 for i in range(3))
result("{T}l", l{T}[2])
''')
t("genexp_if", "comprehension.ifs", '''
l{T} = array(i for i in range(6) if i % 2 == 0)
result("{T}l", l{T}[1])
''')
t("genexp_two", "comprehension(two generators)", '''
l{T} = array(i * 10 + j for i in range(2) for j in range(2))
result("{T}l", l{T}[3])
''')
t("fstring", "JoinedStr", '''
x{T} = 3
s{T} = f"v{x{T}}"
result("{T}a", 1)
''')
t("slice_expr", "Slice", '''
xs{T} = array(1, 2, 3, 4)
ys{T} = xs{T}[1:3]
result("{T}y", ys{T}[0])
''')
t("slice_step", "Slice.step", '''
xs{T} = array(1, 2, 3, 4)
ys{T} = xs{T}[::2]
result("{T}y", ys{T}[1])
''')
t("star_assign_rhs", "Starred(rhs)", '''
p{T} = (1, 2)
q{T} = (*p{T}, 3)
result("{T}q", q{T}[2])
''')
t("star_unpack", "Starred(target)", '''
a{T}, *b{T} = array(1, 2, 3)
result("{T}a", a{T})
result("{T}b", b{T}[1])
''')
# `x = 0 or 5` / `x = 3 and 5`: Guppy types and/or as bool (truth value), Python returns an operand.
# That is a typing difference of an operator that *is* evaluated (C04 covers truth values), not
# syntax that is silently ignored, so it is not a template here.
t("not_int", "UnaryOp(Not on int)", '''
x{T} = not 3
result("{T}x", x{T})
''')
t("invert", "UnaryOp(Invert)", '''
x{T} = ~5
result("{T}x", x{T})
''')
t("uadd", "UnaryOp(UAdd)", '''
x{T} = +5
result("{T}x", x{T})
''')
t("cmp_is", "Compare(Is)", '''
a{T} = 1
x{T} = a{T} is a{T}
result("{T}x", x{T})
''')
t("cmp_in", "Compare(In)", '''
x{T} = 1 in (1, 2)
result("{T}x", x{T})
''')
t("cmp_notin", "Compare(NotIn)", '''
x{T} = 3 not in (1, 2)
result("{T}x", x{T})
''')
t("pow_op", "BinOp(Pow)", '''
x{T} = 3 ** 4
result("{T}x", x{T})
''')
t("matmult", "BinOp(MatMult)", '''
x{T} = 3 @ 4
result("{T}x", x{T})
''')
t("truediv_int", "BinOp(Div ints)", '''
x{T} = 8 / 2
result("{T}x", x{T})
''')
t("ifexp", "IfExp", '''
c{T} = 3
x{T} = 1 if c{T} > 2 else 2
result("{T}x", x{T})
''')
t("walrus", "NamedExpr", '''
if (w{T} := 3) > 2:
    result("{T}w", w{T})
''')
t("attribute_module", "Attribute(module)", '''
import math
result("{T}p", math.pi)
''')
t("const_str", "Constant(str)", '''
s{T} = "abc"
result("{T}a", 1)
''')
t("const_none", "Constant(None)", '''
n{T} = None
result("{T}a", 1)
''')
t("const_ellipsis", "Constant(Ellipsis)", '''
n{T} = ...
result("{T}a", 1)
''')
t("const_bytes", "Constant(bytes)", '''
n{T} = b"ab"
result("{T}a", n{T}[0])
''')
t("const_complex", "Constant(complex)", '''
n{T} = 2j
result("{T}a", 1)
''')
t("tuple_index_neg", "Subscript(tuple, negative)", '''
p{T} = (1, 2, 3)
result("{T}p", p{T}[-1])
''')
t("print_call", "Call(print)", '''
print("x")
result("{T}a", 1)
''')
t("docstring", "Expr(Constant)", '''
"""doc"""
result("{T}a", 1)
''')
t("expr_stmt_call", "Expr(Call)", '''
g(1, 2)
result("{T}a", 1)
''')
t("pass_stmt", "Pass", '''
pass
result("{T}a", 1)
''')
t("for_tuple_target", "For(tuple target)", '''
for a{T}, b{T} in array((1, 2), (3, 4)):
    result("{T}a", a{T} * 10 + b{T})
''')
t("for_star_target", "For(starred target)", '''
for a{T}, *b{T} in array(array(1, 2, 3), array(4, 5, 6)):
    result("{T}a", a{T} + b{T}[1])
''')
t("while_continue_else", "While.orelse+continue", '''
i{T} = 0
while i{T} < 3:
    i{T} += 1
    if i{T} == 1:
        continue
    result("{T}i", i{T})
else:
    result("{T}else", 9)
''')
t("async_for", "AsyncFor", '''
async def h{T}() -> None:
    async for x in range(2):
        pass
result("{T}a", 1)
''')
t("async_with", "AsyncWith", '''
async def h{T}() -> None:
    async with CM() as c:
        pass
result("{T}a", 1)
''')
t("await_expr", "Await", '''
async def h{T}() -> int:
    return await g(1, 2)
result("{T}a", 1)
''')
t("type_alias", "TypeAlias", '''
type X{T} = int
result("{T}a", 1)
''')
t("nested_generic", "FunctionDef.type_params", '''
def h{T}[T](a: T) -> T:
    return a
result("{T}h", h{T}(3))
''')
t("return_annotation_missing", "FunctionDef.returns(missing)", '''
def h{T}(a: int):
    return a + 1
result("{T}h", h{T}(1))
''')
t("arg_annotation_missing", "arg.annotation(missing)", '''
def h{T}(a) -> int:
    return 1
result("{T}h", h{T}(1))
''')
t("conditional_def", "FunctionDef in branch", '''
c{T} = 1
if c{T} > 0:
    def h{T}(a: int) -> int:
        return a + 1
else:
    def h{T}(a: int) -> int:
        return a + 2
result("{T}h", h{T}(1))
''')
t("redefine_nested", "FunctionDef redefinition", '''
def h{T}(a: int) -> int:
    return a + 1
def h{T}(a: int) -> int:
    return a + 2
result("{T}h", h{T}(1))
''')
t("starred_for_iter", "Starred in tuple display", '''
p{T} = (1, 2)
for v{T} in array(*p{T}, 3):
    result("{T}v", v{T})
''')
t("int_big_literal", "Constant(int out of range)", '''
x{T} = 123456789012345678901234567890
result("{T}a", 1)
''')
t("string_compare", "Compare(str)", '''
x{T} = "a" == "a"
result("{T}x", x{T})
''')
t("tuple_compare", "Compare(tuple)", '''
x{T} = (1, 2) == (1, 2)
result("{T}x", x{T})
''')
t("multi_with", "With(two items)", '''
with CM() as a{T}, CM() as b{T}:
    result("{T}c", a{T} + b{T})
''')
t("with_no_as", "With(no as)", '''
with CM():
    result("{T}c", 1)
''')

CONTEXTS = ["top", "loop", "branch", "nested", "else_branch", "while_true"]


def indent(lines, n=1):
    return ["    " * n + l for l in lines]


def build(tmpls, ctxs):
    """module body for a sequence of (template, context)"""
    body = []
    for i, (tp, cx) in enumerate(zip(tmpls, ctxs)):
        tag = f"s{i}_"
        lines = [l.replace("{T}", tag) for l in tp["body"]]
        if tp["top_only"] or cx == "top":
            body += lines
        elif cx == "loop":
            body += [f"for k{i} in range(2):"] + indent([f'result("{tag}k", k{i})'] + lines)
        elif cx == "branch":
            body += [f"c{i} = 1", f"if c{i} > 0:"] + indent(lines) + ["else:", f'    result("{tag}no", 0)']
        elif cx == "else_branch":
            body += [f"c{i} = 0", f"if c{i} > 0:", f'    result("{tag}no", 0)', "else:"] + indent(lines)
        elif cx == "while_true":
            body += [f"n{i} = 0", "while True:"] + indent([f"n{i} += 1", f"if n{i} > 1:", "    break"] + lines)
        elif cx == "nested":
            body += [f"def inner{i}() -> None:"] + indent(lines) + [f"inner{i}()"]
    src = MODULE_HEAD + "@guppy\ndef main() -> None:\n" + "\n".join(indent(body)) + "\n"
    if any(tp.get("must_reject") for tp in tmpls):
        src = "from guppylang.std.quantum import h as hgate\n" + src
    return src


def evaluate_must_reject(src):
    """the program contains a clause that cannot take effect: checked (experimental features enabled, so
    that the modifier gate is not what rejects it) -> rejected | mismatch | crash"""
    from guppylang_internals.experimental import enable_experimental_features

    from vlib import runner

    lm = None
    with enable_experimental_features():
        try:
            lm = runner.load_module(runner.PRELUDE + src)
            out = runner.check_def(lm.mod.main)
        except BaseException as e:  # noqa: BLE001
            if isinstance(e, (KeyboardInterrupt, SystemExit)):
                raise
            out = runner.classify_exception(e)
        finally:
            if lm is not None:
                lm.dispose()
    if out.kind == "rejected":
        return "rejected", out.title, out.message[-400:]
    if out.kind == "ok":
        return "mismatch", "accepted", "accepted although the `as` clause of a modifier block cannot bind anything"
    return "crash", f"{out.kind}:{out.title}", out.message[-1200:]


def evaluate(src):
    """-> (status, bucket, detail)"""
    from vlib import pyref, runner

    if "hgate" in src:
        return evaluate_must_reject(src)

    try:
        ast.parse(src)
    except SyntaxError as e:
        return "python-syntax", None, str(e)
    pyerr = None
    ref, pan = [], None
    try:
        class _Rec(list):
            pass
        ref, pan = pyref.run_ref(src, extra_env={"print": lambda *a: None})
    except pyref.RefTooLong:
        return "toolong", None, None
    except SyntaxError as e:  # e.g. 'return' with value in generator
        return "python-syntax", None, str(e)
    except BaseException as e:  # noqa: BLE001
        pyerr = e
        ref = getattr(e, "_stream", None)
    if pyerr is not None:
        # re-run capturing the partial stream
        ref = partial_stream(src)
    out, lm = runner.run_source(runner.PRELUDE + src)
    if lm is not None:
        lm.dispose()
    if out.kind == "rejected":
        return "rejected", out.title, out.message[-400:]
    if out.kind in ("crash", "invalid"):
        return "crash", f"{out.kind}:{out.title}", out.message[-1200:]
    if out.kind == "unsupported":
        return "unsupported", out.title, out.message[:300]
    # accepted and executed
    if pyerr is not None:
        if out.kind == "panic" and pyref.streams_equal(out.stream, ref):
            return "ok", None, None
        return "mismatch", "python_raises", (f"CPython raises {pyerr!r} after {ref}; the accepted Guppy program "
                                             f"{'panicked' if out.kind == 'panic' else 'ran on'}: {out.stream}")
    if out.kind == "panic":
        if pan is not None and pyref.streams_equal(out.stream, ref):
            return "ok", None, None
        return "mismatch", "panic", f"emulator panicked ({out.message}) after {out.stream}; Python: {ref} panic={pan}"
    if pan is not None:
        return "mismatch", "panic.missing", f"Python panicked ({pan}) after {ref}; emulator: {out.stream}"
    if not pyref.streams_equal(out.stream, ref):
        return "mismatch", "stream", f"emulator {out.stream} vs Python {ref}"
    return "ok", None, None


def partial_stream(src):
    """stream CPython produced before it raised"""
    from vlib import pyref

    got = []

    def rec(tag, value):
        got.append((tag, pyref.norm(value)))

    try:
        pyref.run_ref(src, extra_env={"print": lambda *a: None, "result": rec})
    except BaseException:  # noqa: BLE001
        pass
    return got


def replay(case):
    st, bucket, detail = evaluate(case["src"])
    if st == "mismatch":
        return (case.get("bucket") or bucket, detail)
    return None


def worker(ctx):
    from hypothesis import strategies as st

    cases = []
    # every template in every context (enumerated, sharded) ...
    k = 0
    for ti, tp in enumerate(T):
        for cx in CONTEXTS:
            if tp["top_only"] and cx != "top":
                continue
            if k % ctx.nshards == ctx.shard:
                cases.append(([tp], [cx]))
            k += 1

    def run_case(tmpls, ctxs):
        src = build(tmpls, ctxs)
        st_, bucket, detail = evaluate(src)
        key = [(tp["name"], cx) for tp, cx in zip(tmpls, ctxs)]
        names = "+".join(tp["name"] for tp in tmpls)
        ctx.case(key, st_ in ("ok", "rejected", "mismatch"), labels=["status:" + st_] + ["ctx:" + c for c in ctxs],
                 sample={"templates": key, "status": st_, "why": (bucket or "")} if len(tmpls) == 1 else None)
        if len(tmpls) == 1:
            ctx.label(f"tmpl:{names}:{st_}")
        if st_ == "mismatch":
            b = "ignored." + "+".join(sorted(set(tp["name"] for tp in tmpls)))
            ctx.violation(b, {"src": src, "bucket": b, "templates": key}, detail + "\n" + src[src.index("def main"):])
        elif st_ == "crash":
            ctx.label("crash:" + bucket)
        elif st_ == "unsupported":
            ctx.unsupported_case(bucket)

    for tmpls, ctxs in cases:
        if ctx.out_of_time(0.8):
            ctx.notes["incomplete_enumeration"] = True
            break
        run_case(tmpls, ctxs)

    # ... plus Hypothesis-drawn sequences of 2-3 templates in drawn contexts
    idx = st.integers(0, len(T) - 1)
    strat = st.lists(st.tuples(idx, st.sampled_from(CONTEXTS)), min_size=2, max_size=3)

    def body(c):
        tmpls = [T[i] for i, _ in c]
        ctxs = [cx for _, cx in c]
        run_case(tmpls, ctxs)

    if ctx.params.get("n_seq"):
        harness.hyp_search(ctx, strat, body, max_examples=ctx.params["n_seq"], chunk=20, time_frac=0.9)


SPEC = harness.Spec(
    PROP, worker, replay,
    rule=(f"{len(T)} templates, one per ast statement/expression node kind or optional clause (While/For.orelse, Try, With, "
          "Assert, Delete, Global/Nonlocal, Raise, Import, ClassDef, Match, decorators, defaults, *args/**kwargs, keyword-only / "
          "positional-only parameters, Call.keywords / starred / **, Lambda, Dict/Set/List and comprehensions incl. ifs, f-strings, "
          "Slice(+step), Starred, Yield/Await/async forms, value-semantics and/or, is/in, Pow/MatMult, ...), each written so that its "
          "effect is visible through result(); every template is run in every context (top / for loop / if branch / else branch / "
          "while True / nested def) - enumerated exhaustively - plus Hypothesis-drawn sequences of 2-3 templates. "
          "non-trivial = the case was judged (rejected, or accepted and compared with CPython); distinct = (template, context) list"),
    assumptions=["a compile error of any GuppyError kind counts as 'rejected'; a compiler crash is C02's concern and only labelled here",
                 "CPython 3.12 semantics through pyref; when CPython raises, an accepted program must stop at the same point"],
    shards={"quick": 16, "thorough": 16},
    budget_s={"quick": 150, "thorough": 900},
    params={"quick": {"n_seq": 6}, "thorough": {"n_seq": 300}},
    min_nontrivial=100,
)

if __name__ == "__main__":
    harness.main(SPEC)
