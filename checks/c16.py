"""C16 Implicit numeric coercions only widen.

Domain (enumerated every run, nothing sampled at the type level):
  * conversion cells: all 9 (actual A, expected E) pairs over nat/int/float x contexts
    {annotated assignment `x: E = a`, call argument to `def f(p: E)`, `return a` from `-> E`}
    x shape of the actual expression {variable; and, as a secondary dimension, call result,
    unary plus, conditional expression, tuple subscript};
  * operator cells: every arithmetic / comparison / bitwise operator x all 9 (left, right) operand
    type pairs (= left and right operand position of each (A, E) pair);
  * sequence cells: ONE function body that performs two widenings one after the other, all 3 x 3
    ordered pairs of strict widenings (nat->int, nat->float, int->float) x context of each step
    {annotated assignment, call argument, operator operand `v + 0` / `v + 0.0`}; both converted
    values come back (as a tuple) and are judged - a conversion must not depend on which other
    conversions the same body contains;
  * array-literal cells: `array(a, b)` with all 9 element type pairs used where an array with
    element type E is expected, E over nat/int/float x context {annotated assignment to
    `array[E, 2]`, argument of `def f(xs: array[E, 2])`, argument of a function generic in the
    element type whose result is returned as E directly / through a variable}; both elements are
    read back.
Values (Hypothesis + a fixed boundary core, per cell): boundaries 0, 1, 2^53+-1, 2^63-1, 2^63,
2^64-1 (nat), +-2^53+-1, +-(2^63-1), -2^63 (int), float ties, and random magnitudes; they reach the
cell's function as *runtime* values (elements of arrays indexed by a loop variable) so nothing is
folded by the compiler.

Oracle (from the property statement, not from the implementation): with nat < int < float,
  * assignment / argument / return of a *variable*: accepted iff A <= E; a narrowing pair (A > E)
    must be rejected with a user error in every shape; the observed value of an accepted
    conversion equals the original (int/nat targets exactly, float targets CPython `float(v)` =
    round-to-nearest-even); nat >= 2^63 -> int is not representable: labelled, value not judged;
  * sequence cells: accepted (each step alone is a judged variable widening), each of the two
    values equals the original converted as above;
  * array-literal cells: a cell accepted although an element's type is wider than the type E the
    element comes back as narrows implicitly -> violation; same-type cells must be accepted; other
    rejections are observations; values of accepted cells equal the originals converted to E
    (nat >= 2^63 next to an int in an inferred element type is not representable on the way);
  * operators: accepted for every pair Python's numeric tower accepts (bitwise ops with a float
    operand are rejected by Python), result type the wider one (bool for comparisons, float for
    `/`), value = CPython's operator on the operands after converting the narrower one.
"""
import itertools
import math
import operator
import os
import struct
import sys

sys.path.insert(0, os.path.dirname(os.path.dirname(os.path.abspath(__file__))))
from vlib import harness  # noqa: E402

PROP = "C16"
M64 = 1 << 64
I63 = 1 << 63
F53 = 1 << 53
KINDS = ["nat", "int", "float"]
RANK = {"nat": 0, "int": 1, "float": 2}
CTXS = ["assign", "arg", "ret"]
SHAPES = {"var": "a", "call": "id_{A}(a)", "pos": "+a", "ifexp": "(a if a == a else a)", "tupidx": "(a, 0)[0]"}
ARITH = ["+", "-", "*", "/", "//", "%", "**"]
CMP = ["==", "!=", "<", "<=", ">", ">="]
BIT = ["&", "|", "^", "<<", ">>"]
OPNAME = {"+": "add", "-": "sub", "*": "mul", "/": "truediv", "//": "floordiv", "%": "mod", "**": "pow",
          "==": "eq", "!=": "ne", "<": "lt", "<=": "le", ">": "gt", ">=": "ge", "&": "and", "|": "or",
          "^": "xor", "<<": "lshift", ">>": "rshift"}
PYOP = {"+": operator.add, "-": operator.sub, "*": operator.mul, "/": operator.truediv,
        "//": operator.floordiv, "%": operator.mod, "==": operator.eq, "!=": operator.ne,
        "<": operator.lt, "<=": operator.le, ">": operator.gt, ">=": operator.ge, "&": operator.and_,
        "|": operator.or_, "^": operator.xor, "<<": operator.lshift, ">>": operator.rshift}

# Operand classes of *other* properties' confirmed findings that an operator cell could run
# into (C04: int // % with a negative divisor, >> of a negative int).  They are kept out of the
# operator cells by construction (counted), the conversion itself is still observed by the
# other operators on the same values.
EXCLUDE = {"C04:int.floordiv_mod.neg_divisor", "C04:int.rshift.neg_lhs"}

IMPORTS = "from guppylang.std.num import bytecast_float_to_nat, bytecast_nat_to_float\n"

NAT_B = [0, 1, 2, F53 - 1, F53, F53 + 1, F53 + 3, (1 << 54) + 2, (1 << 54) + 6, I63 - 1, I63, I63 + 1,
         I63 + 1024, I63 + 1025, I63 + 3072, M64 - 1025, M64 - 1024, M64 - 2, M64 - 1]
INT_B = [0, 1, -1, 2, -2, F53 - 1, F53 + 1, F53 + 3, -(F53 - 1), -(F53 + 1), -(F53 + 3), (1 << 54) + 2,
         -((1 << 54) + 6), (1 << 62), I63 - 513, I63 - 512, I63 - 2, I63 - 1, -(I63 - 1), -(I63 - 512),
         -(I63 - 513), -I63]
FLOAT_B = [0.0, -0.0, 1.0, -1.0, 0.5, 2.5, -7.5, 0.1, 1e10, -3.25, 2.0 ** 53, 2.0 ** 63, 2.0 ** 64, -(2.0 ** 63),
           9007199254740994.0, 1e300, 5e-324]
BOUND = {"nat": set(NAT_B), "int": set(INT_B)}
BOUNDARY = {"nat": NAT_B, "int": INT_B, "float": FLOAT_B}
WIDEN = [("nat", "int"), ("nat", "float"), ("int", "float")]
STEPS = {"assign": "    {x}: {E} = {v}\n", "arg": "    {x} = id_{E}({v})\n", "op": "    {x} = {v} + {z}\n"}
ARR_CTXS = {"assign": "    xs: array[{E}, 2] = array(a, b)\n    return xs[k]\n",
            "arg": "    return take_{E}(array(a, b), k)\n",
            "gen_ret": "    return pick_elem(array(a, b), k)\n",
            "gen_bound": "    y = pick_elem(array(a, b), k)\n    return y\n"}


# ----------------------------------------------------------------------------- cells
def all_cells():
    cells = []
    for ctx, A, E, sh in itertools.product(CTXS, KINDS, KINDS, SHAPES):
        cells.append({"t": "conv", "ctx": ctx, "A": A, "E": E, "shape": sh})
    for op, tl, tr in itertools.product(ARITH + CMP + BIT, KINDS, KINDS):
        cells.append({"t": "op", "op": op, "tl": tl, "tr": tr})
    for (A1, E1), (A2, E2), c1, c2 in itertools.product(WIDEN, WIDEN, STEPS, STEPS):
        cells.append({"t": "seq", "A1": A1, "E1": E1, "ctx1": c1, "A2": A2, "E2": E2, "ctx2": c2})
    for ctx, A1, A2, E in itertools.product(ARR_CTXS, KINDS, KINDS, KINDS):
        cells.append({"t": "arr", "ctx": ctx, "A1": A1, "A2": A2, "E": E})
    return cells


def cell_kinds(c):
    """kinds of the value-carrying parameters of a cell's function."""
    return {"conv": lambda: [c["A"]], "op": lambda: [c["tl"], c["tr"]]}.get(c["t"], lambda: [c["A1"], c["A2"]])()


def nout(c):
    """results reported per operand tuple."""
    return 2 if c["t"] in ("seq", "arr") else 1


def cell_id(c):
    if c["t"] == "conv":
        return f"{c['ctx']}:{c['A']}->{c['E']}:{c['shape']}"
    if c["t"] == "seq":
        return f"seq:{c['ctx1']}:{c['A1']}->{c['E1']};{c['ctx2']}:{c['A2']}->{c['E2']}"
    if c["t"] == "arr":
        return f"arr:{c['ctx']}:({c['A1']},{c['A2']})->{c['E']}"
    return f"op:{c['tl']} {c['op']} {c['tr']}"


def pair_tag(c):
    if c["t"] == "seq":
        return f"{c['A1']}_to_{c['E1']}+{c['A2']}_to_{c['E2']}"
    if c["t"] == "arr":
        return f"array_{c['A1']}_{c['A2']}_as_{c['E']}"
    return f"{c['A']}_to_{c['E']}" if c["t"] == "conv" else f"{c['tl']}_{c['tr']}"


def join(tl, tr):
    return tl if RANK[tl] >= RANK[tr] else tr


def expected_rt(c):
    """Result type the statement demands for an operator cell, None = must be rejected."""
    op, j = c["op"], join(c["tl"], c["tr"])
    if op in BIT and j == "float":
        return None
    if op in CMP:
        return "bool"
    if op == "/":
        return "float"
    return j


def cell_source(c, rt=None):
    """Top-level Guppy source of the cell's function `NAME` (placeholder {n})."""
    if c["t"] == "conv":
        A, E = c["A"], c["E"]
        e = SHAPES[c["shape"]].format(A=A)
        if c["ctx"] == "assign":
            body = f"    x: {E} = {e}\n    return x\n"
        elif c["ctx"] == "arg":
            body = f"    return id_{E}({e})\n"
        else:
            body = f"    return {e}\n"
        return f"@guppy\ndef {{n}}(a: {A}) -> {E}:\n{body}"
    if c["t"] == "seq":
        body = "".join(STEPS[c["ctx" + i]].format(x=x, v=v, E=c["E" + i], z="0.0" if c["E" + i] == "float" else "0")
                       for i, x, v in (("1", "x", "a"), ("2", "y", "b")))
        return f"@guppy\ndef {{n}}(a: {c['A1']}, b: {c['A2']}) -> tuple[{c['E1']}, {c['E2']}]:\n{body}    return x, y\n"
    if c["t"] == "arr":
        return (f"@guppy\ndef {{n}}(a: {c['A1']}, b: {c['A2']}, k: int) -> {c['E']}:\n"
                + ARR_CTXS[c["ctx"]].format(E=c["E"]))
    return f"@guppy\ndef {{n}}(a: {c['tl']}, b: {c['tr']}) -> {rt or 'None'}:\n    return a {c['op']} b\n"


HELPERS = ("".join(f"@guppy\ndef id_{k}(p: {k}) -> {k}:\n    return p\n\n" for k in KINDS)
           + 'ElemT = guppy.type_var("ElemT", copyable=True, droppable=True)\n\n'
           + "@guppy\ndef pick_elem(xs: array[ElemT, 2], k: int) -> ElemT:\n    return xs[k]\n\n"
           + "".join(f"@guppy\ndef take_{k}(xs: array[{k}, 2], k: int) -> {k}:\n    return xs[k]\n\n" for k in KINDS))

_probe_cache = {}


def probe(c):
    """Ask /repo's checker about the cell.  -> ("ok", rt) | ("rejected", error class name,
    rendered message) | ("crash", bucket, traceback).  For operator cells the result type is read
    off the `-> None` mismatch diagnostic."""
    from vlib import runner

    cid = cell_id(c)
    if cid in _probe_cache:
        return _probe_cache[cid]
    src = runner.PRELUDE + IMPORTS + HELPERS + cell_source(c).format(n="cell")
    lm = runner.load_module(src)
    try:
        out = runner.check_def(lm.mod.cell)
    finally:
        lm.dispose()
    if out.kind == "ok":
        res = ("ok", c.get("E"))
    elif out.kind == "rejected":
        err = out.exc.error
        name = type(err).__name__
        if c["t"] == "op" and name == "TypeMismatchError" and str(getattr(err, "expected", "")) == "None":
            res = ("ok", str(err.actual))
        else:
            res = ("rejected", name, out.message[-900:])
    else:
        res = ("crash", runner.crash_bucket(out.exc) if out.exc else out.kind, out.message[-1500:])
    _probe_cache[cid] = res
    return res


# ----------------------------------------------------------------------------- oracle
UNREP = "unrepresentable"


def wrap_s(v):
    v %= M64
    return v - M64 if v >= I63 else v


def conv(v, frm, to):
    """The converted value the statement demands (or UNREP)."""
    if frm == to:
        return v
    if to == "float":
        return float(v)  # CPython: correctly rounded, ties to even
    if frm == "nat" and to == "int":
        return v if v < I63 else UNREP
    raise AssertionError((frm, to))


def fbits(x):
    return struct.unpack("<q", struct.pack("<d", x))[0]


def ubits(x):
    return struct.unpack("<Q", struct.pack("<d", x))[0]


def ford(x):
    b = fbits(x)
    return b if b >= 0 else -(b & (I63 - 1))


def same(obs, exp, rt, ulps=0):
    if rt == "float":
        if not isinstance(obs, float):
            return False
        if math.isnan(exp) or math.isnan(obs):
            return math.isnan(exp) and math.isnan(obs)
        if ulps:
            return abs(ford(obs) - ford(exp)) <= ulps
        return fbits(obs) == fbits(exp)
    if isinstance(obs, float) or not isinstance(obs, int):
        return False
    if rt == "nat":
        return (obs - exp) % M64 == 0  # the reporting channel may be signed (C17's subject)
    return obs == exp


def oracle(c, pair):
    """-> ("ok", expected, ulps) | ("skip", why).  `why` starts with `unrep:` (not representable,
    statement does not judge), `exclude:` (class of another property's finding), `undef:`."""
    if c["t"] == "conv":
        v = conv(pair[0], c["A"], c["E"])
        if v is UNREP:
            return "skip", "unrep:nat>=2^63 -> int"
        return "ok", v, 0
    op, tl, tr = c["op"], c["tl"], c["tr"]
    j = join(tl, tr)
    a, b = conv(pair[0], tl, j), conv(pair[1], tr, j)
    if a is UNREP or b is UNREP:
        return "skip", "unrep:nat>=2^63 -> int"
    rt = expected_rt(c)
    if j == "float":
        if op in ("//", "%"):
            return "skip", "undef:ffloor"
        if op == "/" and b == 0:
            return "skip", "undef:division by zero"
        if op == "**":
            try:
                r = a ** b
            except (OverflowError, ZeroDivisionError):
                return "skip", "undef:python raises"
            if isinstance(r, complex):
                return "skip", "undef:complex"
            return "ok", r, 2
        r = PYOP[op](a, b)
        return "ok", (int(r) if rt == "bool" else r), 0
    # integer join (int, or nat for same-type cells which carry no values)
    if op in ("/", "//", "%") and b == 0:
        return "skip", "undef:division by zero"
    if op == "/":
        if abs(a) > F53 or abs(b) > F53:
            return "skip", "undef:int/int true division above 2^53 (float(a)/float(b) vs exact quotient)"
        return "ok", float(a) / float(b), 0
    if op in ("//", "%") and b < 0:
        return "skip", "exclude:C04:int.floordiv_mod.neg_divisor"
    if op in ("<<", ">>"):
        if not 0 <= b < 64:
            return "skip", "undef:shift count"
        if op == ">>" and a < 0:
            return "skip", "exclude:C04:int.rshift.neg_lhs"
    if op == "**":
        if b < 0:
            return "skip", "undef:negative exponent panics by design"
        if b > 64:
            return "skip", "undef:exponent too large to execute (ipow loops)"
        return "ok", wrap_s(pow(a % M64, b, M64)), 0
    r = PYOP[op](a, b)
    if rt == "bool":
        return "ok", int(r), 0
    return "ok", wrap_s(r), 0


def outputs(c, pair):
    """sequence / array-literal cells: per reported result (result type, source kind, source value,
    oracle entry) with oracle entry = ("ok", expected, ulps) | ("skip", why)."""
    if c["t"] == "seq":
        items = [(c["E1"], c["A1"], pair[0]), (c["E2"], c["A2"], pair[1])]
    else:
        items = [(c["E"], c["A1"], pair[0]), (c["E"], c["A2"], pair[1])]
    res = []
    for E, A, v in items:
        if (c["t"] == "arr" and c["ctx"].startswith("gen") and A == "nat" and v >= I63 and E == "float"
                and "int" in (c["A1"], c["A2"])):
            # the inferred element type may be int: nat -> int -> float, first step not representable
            res.append((E, A, v, ("skip", "unrep:nat>=2^63 -> int")))
            continue
        w = conv(v, A, E)
        res.append((E, A, v, ("skip", "unrep:nat>=2^63 -> int") if w is UNREP else ("ok", w, 0)))
    return res


def judge_multi(c, pair, obs):
    """sequence / array-literal cells -> list of (bucket, detail), one per disagreeing result."""
    bad = []
    pre = "seqvalue" if c["t"] == "seq" else "arrvalue"
    for j, ((E, A, v, o), ob) in enumerate(zip(outputs(c, pair), obs)):
        if o[0] == "skip" or ob is None:
            continue
        what = f"{describe(c, pair)}, result {j} ({A}({v!r}) as {E})"
        bucket = f"{pre}.{A}_to_{E}.{vclass(v, A)}"
        if isinstance(ob, tuple) and ob and ob[0] == "panic":
            bad.append((bucket + ".panic", f"{what}: program panics ({ob[1]}); statement gives {o[1]!r}"))
        elif not same(ob, o[1], E, o[2]):
            bad.append((bucket, f"{what}: observed {ob!r}, statement gives {o[1]!r}"))
    return bad


def vclass(v, kind):
    if kind == "float":
        return "float"
    if v == 0:
        return "zero"
    if kind == "nat":
        return "big" if v >= I63 else ("mid" if v > F53 else "small")
    if v < 0:
        return "neg_mid" if v < -F53 else "neg"
    return "mid" if v > F53 else "small"


def subject(c):
    """(position, narrower kind, wider kind) of the coerced operand of a cell, or None."""
    if c["t"] == "conv":
        return (0, c["A"], c["E"]) if c["A"] != c["E"] else None
    if c["t"] != "op" or c["tl"] == c["tr"]:  # sequence / array cells: two subjects, see outputs()
        return None
    return (0, c["tl"], c["tr"]) if RANK[c["tl"]] < RANK[c["tr"]] else (1, c["tr"], c["tl"])


def value_bucket(c, pair):
    s = subject(c)
    if s is None:
        k = c["A"] if c["t"] == "conv" else c["tl"]
        return f"identity.{k}.{c['ctx'] if c['t'] == 'conv' else OPNAME[c['op']]}"
    pos, n, w = s
    pre = "value" if c["t"] == "conv" else "opvalue"
    return f"{pre}.{n}_to_{w}.{vclass(pair[pos], n)}"


def describe(c, pair):
    def lit(v, k):
        return f"{k}({v!r})"
    if c["t"] == "conv":
        return f"{cell_id(c)} with a = {lit(pair[0], c['A'])}"
    if c["t"] in ("seq", "arr"):
        return f"{cell_id(c)} with a = {lit(pair[0], c['A1'])}, b = {lit(pair[1], c['A2'])}"
    return f"{lit(pair[0], c['tl'])} {c['op']} {lit(pair[1], c['tr'])}"


# ----------------------------------------------------------------------------- programs
def _arr(name, kind, vals):
    """(module-level lines, main-body lines, element expression) for runtime array `name`.
    floats travel as nat bit patterns (the JSON float reader of the toolchain is not exact)."""
    n = len(vals)
    if kind == "nat":
        return [], [f"{name}: array[nat, {n}] = array({', '.join(str(v) for v in vals)})"], f"{name}[i]"
    if kind == "float":
        return ([], [f"{name}: array[nat, {n}] = array({', '.join(str(ubits(v)) for v in vals)})"],
                f"bytecast_nat_to_float({name}[i])")
    up = name.upper()
    return [f"{up} = [{', '.join(repr(v) for v in vals)}]"], [f"{name} = comptime({up})"], f"{name}[i]"


def build_program(units):
    """units = [(cell, rt, pairs)] -> source of one program; the stream is, per unit, ("u", k)
    followed by one ("r", value) per pair."""
    from vlib import runner

    top, body = [HELPERS], []
    for k, (c, rt, pairs) in enumerate(units):
        top.append(cell_source(c, rt).format(n=f"c{k}"))
        body.append(f'result("u", {k})')
        kinds = cell_kinds(c)
        elems = []
        for i, kd in enumerate(kinds):
            t, b, e = _arr(f"{'xy'[i]}s{k}", kd, [p[i] for p in pairs])
            top.extend(t)
            body.extend(b)
            elems.append(e)
        body.append(f"for i in range({len(pairs)}):")
        if c["t"] == "seq":
            body += [f"    p{k}, q{k} = c{k}({', '.join(elems)})", f'    result("r", p{k})', f'    result("r", q{k})']
        elif c["t"] == "arr":
            body += [f'    result("r", c{k}({", ".join(elems)}, {j}))' for j in (0, 1)]
        else:
            body.append(f'    result("r", c{k}({", ".join(elems)}))')
    return (runner.PRELUDE + IMPORTS + "\n" + "\n".join(top) + "\n@guppy\ndef main() -> None:\n"
            + "\n".join("    " + ln for ln in body) + "\n")


def run_units(units):
    """-> per unit (observations: list aligned with pairs, entries = value | ("panic", msg) | None;
    for cells reporting two results per tuple a list of two such entries, or None),
    problem (kind, message, src) or None"""
    from vlib import runner

    src = build_program(units)
    out, lm = runner.run_source(src, n_qubits=1)
    if lm is not None:
        lm.dispose()
    if out.kind not in ("ok", "panic"):
        if len(units) > 1:
            res = []
            for u in units:
                res.extend(run_units([u]))
            return res
        return [([None] * len(units[0][2]), (out.kind, (out.title + " " + out.message)[-1500:], src))]
    res = [([None] * len(p), None) for _, _, p in units]
    pos, stream = 0, list(out.stream)
    for k, (c, rt, pairs) in enumerate(units):
        if pos >= len(stream):
            break
        if stream[pos] != ("u", k):
            res[k] = (res[k][0], ("stream", f"expected ('u', {k}) at {pos}, got {stream[pos]}", src))
            return res
        pos += 1
        n = nout(c)
        for i in range(len(pairs)):
            got = []
            while len(got) < n and pos < len(stream):
                if stream[pos][0] != "r":
                    res[k] = (res[k][0], ("stream", f"expected tag r at {pos}, got {stream[pos]}", src))
                    return res
                got.append(stream[pos][1])
                pos += 1
            if got:
                res[k][0][i] = got[0] if n == 1 else got + [None] * (n - len(got))
            if len(got) < n:
                break

    def open_slot(o):
        return o is None or (isinstance(o, list) and None in o)

    if out.kind == "panic":
        # the first result without an observation is the one that panicked
        for k, (obs, _) in enumerate(res):
            hit = next((i for i, o in enumerate(obs) if open_slot(o)), None)
            if hit is not None:
                mark = ("panic", out.message[:200])
                if nout(units[k][0]) == 1:
                    obs[hit] = mark
                else:
                    slot = obs[hit] if obs[hit] is not None else [None] * nout(units[k][0])
                    slot[slot.index(None)] = mark
                    obs[hit] = slot
                break
    elif pos != len(stream) or any(open_slot(o) for obs, _ in res for o in obs):
        res[-1] = (res[-1][0], ("stream", f"stream has {len(stream)} entries, plan consumed {pos}", src))
    return res


def judge(c, rt, pair, obs):
    """None (agrees / not judged) or (bucket, detail)."""
    o = oracle(c, pair)
    if o[0] == "skip":
        return None
    _, exp, ulps = o
    if isinstance(obs, tuple) and obs and obs[0] == "panic":
        return value_bucket(c, pair) + ".panic", f"{describe(c, pair)}: program panics ({obs[1]}); statement gives {exp!r}"
    if same(obs, exp, rt, ulps):
        return None
    return value_bucket(c, pair), f"{describe(c, pair)}: observed {obs!r} (as {rt}), statement gives {exp!r}"


def static_verdict(c):
    """Accept/reject (and result type) judgement of a cell.
    -> (status, rt, violation|None, labels); status in accepted|rejected|crash"""
    p = probe(c)
    cid = cell_id(c)
    if p[0] == "crash":
        return "crash", None, ("crash." + p[1], f"{cid}: compiler crashed\n{p[2]}"), ["static:crash"]
    if c["t"] == "seq":
        if p[0] == "ok":
            return "accepted", None, None, ["static:seq_accepted"]
        return "rejected", None, ("widening.rejected.sequence", f"{cid}: rejected ({p[1]}); each step alone is a widening "
                                  f"of a variable\n{p[2]}"), ["static:seq_REJECTED"]
    if c["t"] == "arr":
        E, As = c["E"], (c["A1"], c["A2"])
        wide = [A for A in As if RANK[A] > RANK[E]]
        if p[0] == "ok":
            if wide:
                return "accepted", E, (f"narrowing.accepted.array_element.{wide[0]}_to_{E}",
                                       f"{cid}: accepted although the {wide[0]} element comes back as {E} (implicit "
                                       f"narrowing)"), ["static:narrowing_ACCEPTED"]
            return "accepted", E, None, ["static:arr_same_type_accepted" if As == (E, E) else "static:arr_widening_accepted"]
        if wide:
            return "rejected", None, None, ["static:arr_narrowing_rejected", "error:" + p[1]]
        if As == (E, E):
            return "rejected", None, (f"identity.rejected.array_element.{E}", f"{cid}: rejected ({p[1]})\n{p[2]}"), ["static:arr_identity_REJECTED"]
        # widening inside an array literal: the statement's contexts are assignments, arguments,
        # returns and operands of the numeric expression itself -> observation only
        return "rejected", None, None, [f"observation:widening_not_applied_to_array_{c['ctx']}", "error:" + p[1]]
    if c["t"] == "conv":
        A, E, sh = c["A"], c["E"], c["shape"]
        if RANK[A] > RANK[E]:
            if p[0] == "ok":
                return "accepted", p[1], (f"narrowing.accepted.{A}_to_{E}",
                                          f"{cid}: implicit narrowing {A} -> {E} is accepted"), ["static:narrowing_ACCEPTED"]
            return "rejected", None, None, ["static:narrowing_rejected", "error:" + p[1]]
        if p[0] == "ok":
            return "accepted", E, None, ["static:widening_accepted" if A != E else "static:same_type_accepted"]
        if sh == "var" or A == E:
            return "rejected", None, (f"widening.rejected.{A}_to_{E}" if A != E else f"identity.rejected.{A}",
                                      f"{cid}: rejected ({p[1]})\n{p[2]}"), ["static:widening_REJECTED"]
        # secondary shapes: the statement does not clearly demand that every expression form is
        # converted (reading under which the unchanged tree is right) -> observation only
        return "rejected", None, None, [f"observation:widening_not_applied_to_{sh}", "error:" + p[1]]
    want = expected_rt(c)
    tag = f"{c['tl']}_{c['tr']}"  # one bucket per operand type pair (the operator is in the detail)
    if want is None:
        if p[0] == "ok":
            return "accepted", p[1], ("op.accepted.bitwise_float", f"{cid}: accepted with type {p[1]}; Python's numeric tower rejects it"), ["static:op_ACCEPTED"]
        return "rejected", None, None, ["static:op_rejected_as_python", "error:" + p[1]]
    if p[0] != "ok":
        return "rejected", None, ("op.rejected." + tag, f"{cid}: rejected ({p[1]})\n{p[2]}"), ["static:op_REJECTED"]
    if p[1] != want:
        return "accepted", p[1], ("op.result_type." + tag, f"{cid}: typed {p[1]}, the numeric tower gives {want}"), ["static:op_type_WRONG"]
    return "accepted", want, None, ["static:op_accepted"]


def replay(case):
    c = case["cell"]
    status, rt, viol, _ = static_verdict(c)
    if viol:
        return viol
    if case.get("pair") is None or status != "accepted":
        return None
    pair = tuple(case["pair"])
    kinds = cell_kinds(c)
    pair = tuple(float(v) if k == "float" else int(v) for v, k in zip(pair, kinds))
    (obs, problem), = run_units([(c, rt, [pair])])
    if problem:
        if problem[0] in ("crash", "invalid", "rejected"):
            return f"nonexec.{problem[0]}.{pair_tag(c)}", f"{cell_id(c)}: {problem[1]}"
        return None
    if nout(c) > 1:
        bad = judge_multi(c, pair, obs[0] or [])
        return bad[0] if bad else None
    return judge(c, rt, pair, obs[0])


# ----------------------------------------------------------------------------- value generation
def strategies():
    from hypothesis import strategies as st

    def mag(lo, hi):
        return st.integers(lo, hi).flatmap(lambda k: st.integers((1 << k) >> 1, (1 << k) - 1))

    nats = st.one_of(st.sampled_from(NAT_B), mag(0, 64), mag(54, 64), st.integers(0, 20))
    ints = st.one_of(st.sampled_from(INT_B), mag(0, 63), mag(54, 63).map(lambda v: -v), mag(0, 63).map(lambda v: -v),
                     st.integers(-20, 20))
    flts = st.one_of(st.sampled_from(FLOAT_B), st.floats(-1e6, 1e6), st.integers(-1000, 1000).map(float),
                     st.floats(allow_nan=False, allow_infinity=False, width=64), st.floats(-2.0 ** 65, 2.0 ** 65))
    gen = {"nat": nats, "int": ints, "float": flts}
    small_exp = st.sampled_from([0, 1, 2, 3, 5, 10, 31, 63, 64])

    def near(v, wk):
        """wider-typed values next to the converted subject value (comparisons)."""
        if wk == "float":
            f = float(v)
            return st.sampled_from([f, math.nextafter(f, math.inf), math.nextafter(f, -math.inf), 0.0, -1.0, 0.5])
        w = v if v < I63 else v - M64
        return st.sampled_from([x for x in (w - 1, w, w + 1, 0, -1, I63 - 1, -I63) if -I63 <= x < I63])

    def others(op, wk, other_is_right):
        if wk == "float":
            if op == "/":
                return (st.sampled_from([1.0, -1.0, 0.5, 2.5, 3.0, 1e-3]) if other_is_right
                        else st.sampled_from([0.0, 1.0, -7.5, 1e18, 0.1]))
            if op == "**":
                return (st.sampled_from([0.0, 1.0, 2.0, 0.5, -1.0, 3.0]) if other_is_right
                        else st.sampled_from([1.0, 2.0, 0.5, 1.5, 10.0, 0.999]))
            return st.one_of(st.sampled_from([0.0, 1.0, -1.0, 0.5, 2.5, 1e10, -3.25, 2.0 ** 53, -(2.0 ** 63)]), flts)
        # wider = int
        if op in ("/",):
            return (st.sampled_from([1, -1, 2, 7, -3, F53]) if other_is_right else st.sampled_from([0, 1, -7, 100, F53, -F53]))
        if op in ("//", "%"):
            return (st.sampled_from([1, 2, 7, 1 << 31, 1 << 62, I63 - 1]) if other_is_right
                    else st.sampled_from([0, 1, -7, 100, -I63, I63 - 1, -1]))
        if op == "**":
            return small_exp if other_is_right else st.sampled_from([0, 1, -1, 2, -3, 10])
        if op in ("<<", ">>"):
            return st.sampled_from([0, 1, 31, 62, 63]) if other_is_right else st.sampled_from([0, 1, 5, 1 << 62, I63 - 1])
        return st.one_of(st.sampled_from([0, 1, -1, 7, -3, 0xFF, 1 << 62, I63 - 1, -I63]), ints)

    def pairs(c):
        """strategy of operand tuples of a cell (1-tuple for conv cells)."""
        if c["t"] == "conv":
            return st.tuples(gen[c["A"]])
        if c["t"] in ("seq", "arr"):
            return st.tuples(gen[c["A1"]], gen[c["A2"]])
        s = subject(c)
        op = c["op"]
        pos, nk, wk = s
        subj = gen[nk]
        if nk in ("nat", "int") and ((op == "**" and pos == 1 and wk == "int") or (op in ("<<", ">>") and pos == 1)):
            subj = small_exp if nk == "nat" else st.one_of(small_exp, st.sampled_from([0, 1, 63]))
        if op in ("//", "%") and pos == 1 and wk == "int":
            subj = subj.filter(lambda v: 0 < v < I63)
        if op in CMP:
            both = subj.flatmap(lambda v: st.tuples(st.just(v), st.one_of(near(v, wk), others(op, wk, pos == 0))))
        else:
            both = st.tuples(subj, others(op, wk, pos == 0))
        return both if pos == 0 else both.map(lambda t: (t[1], t[0]))

    return gen, pairs


def core_pairs(c):
    """fixed boundary core of a cell (always evaluated)."""
    if c["t"] == "conv":
        return [(v,) for v in BOUNDARY[c["A"]]]
    if c["t"] in ("seq", "arr"):
        # every boundary value of either kind occurs, on a diagonal (the offset keeps same-kind
        # tuples from being (v, v) only)
        b1, b2 = BOUNDARY[c["A1"]], BOUNDARY[c["A2"]]
        return [(b1[i % len(b1)], b2[(i + 5) % len(b2)]) for i in range(max(len(b1), len(b2)))]
    s = subject(c)
    pos, nk, wk = s
    op = c["op"]
    vals = NAT_B if nk == "nat" else INT_B
    if wk == "float":
        oth = {"/": [2.5] if pos == 0 else [1e18], "**": [2.0] if pos == 0 else [1.5]}.get(op, [0.0, 1.0])
    else:
        oth = {"/": [7] if pos == 0 else [100], "//": [7] if pos == 0 else [I63 - 1], "%": [7] if pos == 0 else [I63 - 1],
               "**": [2] if pos == 0 else [3], "<<": [1] if pos == 0 else [5], ">>": [1] if pos == 0 else [1 << 62]}.get(op, [0, 1])
    if op in CMP:
        out = []
        for v in vals:
            w = float(v) if wk == "float" else (v if v < I63 else None)
            if w is not None:
                out.append((v, w))
            out.append((v, oth[0]))
    else:
        out = [(v, o) for v in vals for o in oth]
    if (op == "**" and pos == 1 and wk == "int") or (op in ("<<", ">>") and pos == 1):
        out = [(v, o) for v, o in out if 0 <= v <= 64]
    return out if pos == 0 else [(b, a) for a, b in out]


# ----------------------------------------------------------------------------- worker
def worker(ctx):
    from hypothesis import strategies as st

    gen, pairs_of = strategies()
    P = ctx.params
    cells = all_cells()
    if os.environ.get("C16_CELLS"):  # development aid
        import re

        cells = [c for c in cells if re.search(os.environ["C16_CELLS"], cell_id(c))]
    mine = [c for i, c in enumerate(cells) if i % ctx.nshards == ctx.shard]
    if ctx.shard == 0:
        ctx.notes["cells_enumerated"] = len(cells)
        ctx.notes["EXCLUDE"] = sorted(EXCLUDE)
    units = []
    observations = {}
    for c in mine:
        cid = cell_id(c)
        status, rt, viol, labs = static_verdict(c)
        if c["t"] in ("seq", "arr"):
            coerces = c["t"] == "seq" or (c["A1"], c["A2"]) != (c["E"], c["E"])
            labels = labs + (["ctx:sequence", f"seq:{c['A1']}->{c['E1']};{c['A2']}->{c['E2']}", f"seqctx:{c['ctx1']};{c['ctx2']}"]
                             if c["t"] == "seq" else ["ctx:array_" + c["ctx"], f"arr:({c['A1']},{c['A2']})->{c['E']}"])
            ctx.case(("static", cid), coerces, labels=labels,
                     sample=({"cell": cid, "checker": status, "source": cell_source(c).format(n="cell")}
                             if status != "accepted" else None))
            for lab in labs:
                if lab.startswith("observation:"):
                    observations.setdefault(lab, []).append(cid)
            if viol:
                ctx.violation(viol[0], {"cell": c, "pair": None, "source": cell_source(c).format(n="cell")}, viol[1])
            if status != "accepted" or viol:
                continue
            drawn = []
            if P["pairs"]:
                harness.hyp_search(ctx, pairs_of(c), drawn.append, max_examples=P["pairs"], chunk=P["pairs"], extra_seed=("cell", cid))
            seen, sel = set(), []
            for p in core_pairs(c) + drawn:
                p = tuple(float(v) if k == "float" else v for v, k in zip(p, cell_kinds(c)))
                key = tuple(fbits(v) if isinstance(v, float) else v for v in p)
                if key not in seen:
                    seen.add(key)
                    sel.append(p)
            units.append((c, rt, sel))
            continue
        s = subject(c)
        pairlab = (f"pair:{s[1]}->{s[2]}" if s else "pair:same_type")
        ctxlab = "ctx:" + (c["ctx"] if c["t"] == "conv" else ("op_same" if s is None else ("op_left" if s[0] == 0 else "op_right")))
        labels = labs + [pairlab, ctxlab] + (["shape:" + c["shape"]] if c["t"] == "conv" else ["opgroup:" + (
            "arith" if c["op"] in ARITH else "cmp" if c["op"] in CMP else "bit")])
        ctx.case(("static", cid), s is not None, labels=labels,
                 sample=({"cell": cid, "checker": status, "result_type": rt, "source": cell_source(c).format(n="cell")}
                         if status != "accepted" else None))
        for lab in labs:
            if lab.startswith("observation:"):
                observations.setdefault(lab, []).append(cid)
        if viol:
            ctx.violation(viol[0], {"cell": c, "pair": None, "source": cell_source(c).format(n="cell")}, viol[1])
        if status != "accepted" or viol:
            continue
        if c["t"] == "op" and s is None:
            continue  # same-type operator cells: no coercion involved (C04's subject)
        if c["t"] == "op" and join(c["tl"], c["tr"]) == "float" and c["op"] in ("//", "%"):
            ctx.unsupported_case("ffloor: float // and % cannot be executed by the installed selene (accept/type judged only)")
            continue
        n = P["pairs"] if s is not None else P["pairs_same"]
        drawn = []
        if n:
            harness.hyp_search(ctx, pairs_of(c), drawn.append, max_examples=n, chunk=n, extra_seed=("cell", cid))
        seen, sel = set(), []
        for p in core_pairs(c) + drawn:
            kinds = [c["A"]] if c["t"] == "conv" else [c["tl"], c["tr"]]
            p = tuple(float(v) if k == "float" else v for v, k in zip(p, kinds))
            key = tuple(fbits(v) if isinstance(v, float) else v for v in p)
            if key in seen:
                continue
            seen.add(key)
            o = oracle(c, p)
            if o[0] == "skip":
                why = o[1]
                if why.startswith("exclude:"):
                    ctx.exclude(why[len("exclude:"):])
                    continue
                if why.startswith("undef:"):
                    ctx.label("dropped:" + why[len("undef:"):])
                    continue
                if c["t"] == "op":  # unrepresentable operand: nothing the statement judges
                    ctx.label("unrepresentable:op_pair_not_run")
                    continue
            sel.append(p)
        if sel:
            units.append((c, rt, sel))

    # programs: several cells share one build
    progs, cur, cur_n = [], [], 0
    for u in units:
        if cur and (len(cur) >= P["cells_per_program"] or cur_n + len(u[2]) > P["pairs_per_program"]):
            progs.append(cur)
            cur, cur_n = [], 0
        cur.append(u)
        cur_n += len(u[2])
    if cur:
        progs.append(cur)
    left = len(progs)
    unrep_obs = {}
    for prog in progs:
        if ctx.out_of_time(0.9):
            break
        left -= 1
        for (c, rt, sel), (obs, problem) in zip(prog, run_units(prog)):
            cid = cell_id(c)
            s = subject(c)
            if problem:
                kind, msg, src = problem
                if kind == "unsupported":
                    ctx.unsupported_case("selene could not build/run: " + cid)
                elif kind in ("crash", "invalid", "rejected"):
                    ctx.violation(f"nonexec.{kind}.{pair_tag(c)}", {"cell": c, "pair": list(sel[0])}, f"{cid}: {msg}")
                else:
                    ctx.harness_error(f"{cid}: {kind}: {msg[:500]}\n{src[:1500]}")
                continue
            for p, ob in zip(sel, obs):
                if ob is None:
                    ctx.label("not_evaluated_after_panic")
                    continue
                if nout(c) > 1:
                    outs = outputs(c, p)
                    judged = [(E, A, v) for (E, A, v, o), b in zip(outs, ob) if o[0] == "ok" and b is not None]
                    labs = ["run:" + ("sequence" if c["t"] == "seq" else "array_literal")]
                    for (E, A, v, o), b in zip(outs, ob):
                        if b is None:
                            labs.append("not_evaluated_after_panic")
                        elif o[0] == "skip":
                            labs.append("judged:no(unrepresentable)")
                            unrep_obs.setdefault(cid, f"{describe(c, p)} observed {b!r}")
                        else:
                            labs += ["judged:yes", "value:" + ("boundary" if A in BOUND and v in BOUND[A] else "random"),
                                     f"vclass:{A}.{vclass(v, A)}"] + ([f"run_pair:{A}->{E}"] if A != E else [])
                    ctx.case((cid, [repr(x) for x in p]), any(A != E for E, A, _ in judged), labels=sorted(set(labs)),
                             sample={"case": describe(c, p), "observed": repr(ob),
                                     "statement": [repr(o[1]) if o[0] == "ok" else o[1] for _, _, _, o in outs]})
                    for bucket, detail in judge_multi(c, p, ob):
                        ctx.violation(bucket, {"cell": c, "pair": list(p), "source": build_program([(c, rt, [p])])}, detail)
                    continue
                o = oracle(c, p)
                pos, nk = (s[0], s[1]) if s else (0, c["A"] if c["t"] == "conv" else c["tl"])
                labs = ["value:" + ("boundary" if nk in BOUND and p[pos] in BOUND[nk] else "random"),
                        f"vclass:{nk}.{vclass(p[pos], nk)}",
                        "run:" + (c["ctx"] if c["t"] == "conv" else "op")]
                if s:
                    labs.append(f"run_pair:{s[1]}->{s[2]}")
                if o[0] == "skip":
                    labs.append("judged:no(unrepresentable)")
                    unrep_obs.setdefault(cid, f"{describe(c, p)} observed {ob!r}")
                else:
                    labs.append("judged:yes")
                ctx.case((cid, [repr(x) for x in p]), s is not None and o[0] == "ok", labels=labs,
                         sample={"case": describe(c, p), "observed": repr(ob),
                                 "statement": repr(o[1]) if o[0] == "ok" else o[1]})
                r = judge(c, rt, p, ob)
                if r:
                    ctx.violation(r[0], {"cell": c, "pair": list(p), "source": build_program([(c, rt, [p])])}, r[1])
    if left:
        ctx.harness_error(f"time budget reached with {left} programs of shard {ctx.shard} unevaluated (inconclusive)")
    for lab, cids in observations.items():
        ctx.notes[f"{lab}_shard{ctx.shard}"] = cids
    if unrep_obs:
        ctx.notes[f"unrepresentable_observed_shard{ctx.shard}"] = dict(list(unrep_obs.items())[:4])
    ctx.notes[f"programs_built_shard{ctx.shard}"] = len(progs) - left


SPEC = harness.Spec(
    PROP, worker, replay,
    rule=("cells enumerated every run: {assign, call argument, return} x 9 (actual, expected) pairs over nat/int/float x 5 "
          "shapes of the actual expression (variable = the judged form; call result, +a, conditional, tuple subscript "
          "secondary), 18 operators x 9 (left, right) operand type pairs, 81 sequence cells (one body doing two strict "
          "widenings in a row: 3 x 3 ordered widening pairs x {assignment, argument, operand} per step, both values "
          "reported) and 108 array-literal cells (`array(a, b)`, 9 element type pairs x element type E it is used as x "
          "{annotated assignment, array[E, 2] parameter, generic-element parameter returned directly / via a variable}, "
          "both elements reported). Each cell is first judged statically "
          "(accepted / rejected / result type = one case), then every accepted cell with a coerced operand is run on a "
          "fixed boundary core + Hypothesis-drawn values (boundary set U random magnitudes; for operators the wider "
          "operand from an operator-specific safe set / neighbours of the converted value), all values entering as "
          "runtime array elements; one case per (cell, operand tuple). non-trivial = cell or case whose actual type "
          "differs from the expected/other type and (for value cases) whose converted value is representable; "
          "distinct = distinct (cell, operand tuple)."),
    assumptions=[
        "accept/reject is judged as an equivalence only for a variable as the actual expression; for other expression shapes "
        "only 'never narrows' and the converted value are judged - widening not being applied to a shape is recorded as an "
        "observation (notes), the statement does not clearly demand it",
        "nat >= 2^63 used as int is not representable: accepted/rejected is judged, the value is not (labelled)",
        "nat observations are compared modulo 2^64 (the scalar result channel may report them signed: property C17)",
        "operators are judged under the conversion reading: the narrower operand is converted to the wider type "
        "(int/nat -> float rounds to nearest even like CPython float()), then CPython's operator is applied and the result "
        "reduced modulo 2^64 for int; float ** within 2 ulp, everything else bit-exact",
        "operand classes of C04's confirmed findings (int // % with negative divisor, >> of a negative int), zero divisors, "
        "negative or > 64 integer exponents (ipow loops), int/int true division above 2^53 and float // % (no ffloor in the "
        "installed selene) are not evaluated",
        "array-literal cells: only 'never narrows' (accepted although an element type is wider than the type the element "
        "comes back as), acceptance of same-type cells and the values of accepted cells are judged; a widening not applied "
        "inside an array literal is an observation; nat >= 2^63 in an inferred-element-type cell that also holds an int is "
        "not judged (may pass through int)",
        "sequence cells must be accepted because each step alone is a judged widening of a variable (assignment, argument) or "
        "a judged operator pair (`v + 0`, `v + 0.0`)",
        "same-type operator cells are judged for acceptance and result type only (no coercion happens; values are C04's subject)",
        "float operands travel as nat bit patterns + bytecast (the toolchain's JSON float reader is not round-trip exact); the "
        "identity cells (A == E) verify the transport",
    ],
    shards={"quick": 16, "thorough": 16},
    budget_s={"quick": 400, "thorough": 2400},
    params={"quick": {"pairs": 24, "pairs_same": 4, "cells_per_program": 10, "pairs_per_program": 700},
            "thorough": {"pairs": 600, "pairs_same": 40, "cells_per_program": 10, "pairs_per_program": 4000}},
    min_nontrivial=3000,
)

if __name__ == "__main__":
    harness.main(SPEC)
