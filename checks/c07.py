"""C07 Borrowed arguments reflect the callee's in-place updates.

Domain: generated programs (leaf kind int or qubit, concrete array lengths N in 2..4, M in 2..3)
over the non-copyable types  A = array[leaf, N] . AA = array[A, M] . S{xs: A, k: int, ys: A} .
U{s: S, zs: A} . TU = tuple[A, A] . P{t: TU, k: int} . W{xss: AA, k: int} . AS = array[S, M] .
G = array[AA, M] . AW = array[W, M]  and, for qubits, L = qubit . Q2{a: qubit, b: qubit}.  A pool
of functions in three levels takes 1-2 borrowed (no @owned) parameters plus `i, j, v: int`; bodies
mutate the parameters in place through sub-places of any depth - element assignment, `+=`, element
swaps, whole-field replacement, `x` / `cx` on qubits, `mem_swap` of two places of one type or of a
place with a fresh local value (the only way a classical field `k` of a borrowed struct changes) -
in straight-line code, `for` / `while` loops, `if`/`else` and early `return`, lend parameters or
sub-places of them to lower-level functions (nested borrows, 2-3 levels, several borrowed
arguments per call) and optionally return an int (a constant expression or an element of a
parameter) next to the borrowed values.  A lending call is a statement, the element expression of
an array comprehension `array(f(v0.s, ...) for q_ in range(1..3))` (the places of the enclosing
scope keep the updates of every iteration) or, `% n`, the index of a subscript of another call's
argument place `f(g[h(c, ...) % 2][1], ...)` (evaluated once, so `c` is updated once and the
element goes back where it came from).  Case functions build local values with pairwise distinct
contents, pass every place shape (variable, field `s.xs`, tuple element `t[0]`, array element
`xss[i]` with literal, run-time or call index, nested `u.s.xs`, `p.t[0]`, `w.xss[i]`, `ss[i].xs`,
`g[i][j]`, `ws[i].xss[j]`, `qs[j]`) and then report every leaf (`result` of the int arrays and of
the classical fields; qubits are measured).  12 cases share one emulated program.

Oracle: pyref - CPython executes the same source text with lists / plain objects (reference
semantics); qubits are objects holding one basis bit (`x` flips, `cx` xors).  The per-case result
streams must be equal.  Programs are accepted by construction: a rejection is reported as a
harness error, a compiler crash / invalid HUGR / unexpected panic as a violation.
"""
import os
import sys

sys.path.insert(0, os.path.dirname(os.path.dirname(os.path.abspath(__file__))))
from vlib import harness  # noqa: E402

PROP = "C07"
# input classes excluded by construction behind a finding; set C07_EXCLUDE=none to re-open them
#  same-element-siblings: one call borrows two sub-places of the same struct/tuple-typed array element and
#  one of them is not itself below a further subscript (`g(ss[0].xs, ss[0].ys)`): accepted, then panics
#  "Array element is already borrowed" (documented upstream in tests/integration/test_array.py::test_struct_array)
#  nested-call-indices: two subscripts of ONE argument place both have a call as index (`f(g[a(c)][b(c)])`): the
#  indices are evaluated innermost-last in Python but outermost-last by Guppy (known finding of C05,
#  nested_subscript_order); one call index per place is generated
EXCLUDE = set() if os.environ.get("C07_EXCLUDE") == "none" else {"same-element-siblings", "nested-call-indices"}
SIBLING_BUCKET = "panic.two_args_below_one_array_element"
NESTED_IDX_BUCKET = "value.mismatch.two_call_indices_in_one_place"
CALL_INDEX_PCT = 65        # an argument place with subscripts gets a call as index
COMPREHENSION_PCT = 40     # a call statement is the element expression of an array comprehension
CASES_PER_PROGRAM = 12

HEADER = """from guppylang import guppy
from guppylang.std.builtins import result, array, owned
from guppylang.std.quantum import qubit, measure, x, cx, measure_array
from guppylang.std.mem import mem_swap
"""

# one step from a place of the key type: (step template, type of the sub-place)
CHILDREN = {
    "AA": [(("iM",), "A")],
    "S": [(("f", "xs"), "A"), (("f", "ys"), "A")],
    "U": [(("f", "s"), "S"), (("f", "zs"), "A")],
    "TU": [(("t", 0), "A"), (("t", 1), "A")],
    "P": [(("f", "t"), "TU")],
    "W": [(("f", "xss"), "AA")],
    "AS": [(("iM",), "S")],
    "G": [(("iM",), "AA")],
    "AW": [(("iM",), "W")],
    "Q2": [(("f", "a"), "L"), (("f", "b"), "L")],
    "A": [(("iN",), "L")],
}
INT_TYPES = ["A", "AA", "S", "U", "TU", "P", "W", "AS", "G", "AW"]
# mem_swap operands (a Python tuple cannot take new contents in place: no TU); struct types with a classical
# field next to the non-copyable ones are listed twice
SWAP_TYPES = ["S", "S", "P", "P", "U", "AS", "A", "AA", "W", "G", "AW", "Q2", "L"]
CLASSICAL_FIELD = {"S", "P", "U", "W", "AS", "AW"}  # types holding a classical (copyable) field below a non-copyable value
QUBIT_TYPES = INT_TYPES + ["L", "Q2"]


def type_src(t, leaf, N, M):
    a = f"array[{leaf}, {N}]"
    return {"L": leaf, "A": a, "AA": f"array[{a}, {M}]", "TU": f"tuple[{a}, {a}]",
            "AS": f"array[S, {M}]", "G": f"array[array[{a}, {M}], {M}]", "AW": f"array[W, {M}]"}.get(t, t)


def decls(leaf, N, M):
    a = f"array[{leaf}, {N}]"
    s = (f"@guppy.struct\nclass S:\n    xs: {a}\n    k: int\n    ys: {a}\n\n"
         f"@guppy.struct\nclass U:\n    s: S\n    zs: {a}\n\n"
         f"@guppy.struct\nclass P:\n    t: tuple[{a}, {a}]\n    k: int\n\n"
         f"@guppy.struct\nclass W:\n    xss: array[{a}, {M}]\n    k: int\n\n"
         # reads the classical field of a struct that is an array element (`ss[0].k` is rejected:
         # 'Subscript consumed'); borrows the element
         "@guppy\ndef k_of(s: S) -> int:\n    return s.k\n\n@guppy\ndef kw_of(w: W) -> int:\n    return w.k\n")
    if leaf == "qubit":
        s += "\n@guppy.struct\nclass Q2:\n    a: qubit\n    b: qubit\n"
    return s


def all_paths(src_t, dst_t, leaf, _depth=0):
    """step-template paths from a place of type src_t to sub-places of type dst_t (incl. the empty path)."""
    out = [[]] if src_t == dst_t else []
    if _depth < 5:
        for step, t in CHILDREN.get(src_t, []):
            if t == "L" and leaf != "qubit":
                continue
            for p in all_paths(t, dst_t, leaf, _depth + 1):
                out.append([step] + p)
    return out


def render(root, steps):
    s = root
    for st in steps:
        s += f".{st[1]}" if st[0] == "f" else f"[{st[1]}]"
    return s


def may_overlap(a, b):
    """two places (root, concrete steps): could one be (a part of) the other at run time?"""
    if a[0] != b[0]:
        return False
    for x, y in zip(a[1], b[1]):
        if x == y:
            continue
        if x[0] == "i" and y[0] == "i":
            if str(x[1]).isdigit() and str(y[1]).isdigit():
                return False  # different literal indices
            continue  # a run-time index may coincide
        return False  # different fields / tuple elements
    return True


def sibling_conflict(a, b):
    """non-overlapping places below the same (possibly equal index) struct/tuple-typed array element, at
    least one of them without a further subscript: the element stays borrowed for the whole call."""
    if a[0] != b[0]:
        return False
    for n, (x, y) in enumerate(zip(a[1], b[1])):
        same = x == y or (x[0] == "i" and y[0] == "i" and not (str(x[1]).isdigit() and str(y[1]).isdigit()))
        if not same:
            return False
        if x[0] == "i":
            ra, rb = a[1][n + 1:], b[1][n + 1:]
            if ra and rb and ra[0][0] in "ft" and rb[0][0] in "ft":
                if not any(st[0] == "i" for st in ra) or not any(st[0] == "i" for st in rb):
                    return True
    return False


def shape_of(steps):
    if not steps:
        return "var"
    kinds = ["field" if s[0] == "f" else "tuple" if s[0] == "t" else
             ("subscript" if str(s[1]).isdigit() else "subscript-call" if "(" in str(s[1]) else "subscript-rt") for s in steps]
    return kinds[0] if len(kinds) == 1 else "nested:" + "+".join(kinds)


# ------------------------------------------------------------------ generator
class Gen:
    """All choices come from one random.Random that Hypothesis creates and seeds (st.randoms): uniform
    choices at any depth of a long example (see vlib/gen/lin.py)."""

    def __init__(self, rnd):
        self.r = rnd
        self.leaf = "qubit" if rnd.randrange(100) < 35 else "int"
        self.N = rnd.choice([2, 3, 3, 4]) if self.leaf == "int" else rnd.choice([2, 2, 3])
        self.M = rnd.choice([2, 2, 3]) if self.leaf == "int" else 2
        self.types = QUBIT_TYPES if self.leaf == "qubit" else INT_TYPES
        self.counter = 0
        self.funcs = []
        self.excluded = 0
        self.excluded_idx = 0
        self.sibling_used = False
        self.nested_idx_used = False
        self.in_fn = False

    def pick(self, xs):
        return xs[self.r.randrange(len(xs))]

    def chance(self, pct):
        return self.r.randrange(100) < pct

    def fresh(self):
        self.counter += 1
        return 100 + 7 * self.counter

    # --- indices
    def index(self, rng, ctx, literal=False):
        n = self.M if rng == "iM" else self.N
        var = "i" if rng == "iM" else "j"
        if literal or self.chance(50):
            return str(self.r.randrange(n))
        if ctx == "case":
            return "r" + var
        return self.pick([var, var, f"{n - 1} - {var}"])

    def concretise(self, steps, ctx, literal=False):
        return [("i", self.index(s[0], ctx, literal), s[0]) if s[0] in ("iM", "iN") else s for s in steps]

    def place(self, roots, target, ctx, taken=(), literal=False, min_depth=0):
        """a place of type `target` below one of roots=[(name, type)], not overlapping `taken`."""
        cands = []
        for name, t in roots:
            for p in all_paths(t, target, self.leaf):
                if len(p) >= min_depth:
                    cands.append((name, p))
        self.r.shuffle(cands)
        # prefer deeper paths a little
        cands.sort(key=lambda c: -len(c[1]) if self.chance(60) else 0)
        for name, p in cands[:12]:
            for attempt in range(3):
                steps = self.concretise(p, ctx, literal or attempt == 2)
                pl = (name, steps)
                if any(may_overlap(pl, t) for t in taken):
                    continue
                if any(sibling_conflict(pl, t) for t in taken):
                    if "same-element-siblings" in EXCLUDE:
                        self.excluded += 1
                        continue
                    self.sibling_used = True
                return pl
        return None

    # --- statements (each: dict(lines, kind, depth, callee, shapes))
    def int_expr(self, roots, ctx):
        c = self.fresh()
        k = self.r.randrange(5)
        if k == 0 or ctx == "case":
            return str(c)
        if k == 1:
            return f"v + {c}"
        if k == 2:
            return "v"
        if k == 3:
            return f"j * 10 + {c}"
        pl = self.place(roots, "A", ctx)
        if pl is None:
            return str(c)
        return f"{render(*pl)}[{self.index('iN', ctx)}] + {c}"

    def stmt_write(self, roots, ctx, max_level=0):
        if self.leaf == "qubit":
            a = self.place(roots, "L", ctx)
            if a is None:
                return None
            if self.chance(45):
                if self.chance(30):
                    # two neighbouring elements of one array, run-time index: never the same element
                    arr = self.place(roots, "A", ctx)
                    if arr is not None and self.N >= 2:
                        t = render(*arr)
                        jv = "rj" if ctx == "case" else "j"
                        return {"lines": [f"cx({t}[{jv}], {t}[({jv} + 1) % {self.N}])"], "kind": "cx",
                                "depth": len(arr[1]) + 1, "shapes": [shape_of(arr[1] + [("i", jv)])]}
                a1 = self.place(roots, "L", ctx, literal=True)
                b1 = self.place(roots, "L", ctx, taken=[a1], literal=True) if a1 else None
                if a1 is not None and b1 is not None:
                    return {"lines": [f"cx({render(*a1)}, {render(*b1)})"], "kind": "cx",
                            "depth": max(len(a1[1]), len(b1[1])), "shapes": [shape_of(a1[1]), shape_of(b1[1])]}
            names = []
            if max_level > 0:
                a, names, _ = self.call_index(a, roots, ctx, max_level, [], False)
            return {"lines": [f"x({render(*a)})"], "kind": "x", "depth": len(a[1]), "shapes": [shape_of(a[1])],
                    "callees": names}
        a = self.place(roots, "A", ctx)
        if a is None:
            return None
        tgt = render(*a)
        k = self.r.randrange(10)
        d = len(a[1]) + 1
        if k < 5:
            return {"lines": [f"{tgt}[{self.index('iN', ctx)}] = {self.int_expr(roots, ctx)}"], "kind": "assign",
                    "depth": d, "shapes": [shape_of(a[1])]}
        if k < 7:
            return {"lines": [f"{tgt}[{self.index('iN', ctx)}] += {self.fresh()}"], "kind": "augassign", "depth": d,
                    "shapes": [shape_of(a[1])]}
        if k < 9:
            i1, i2 = self.index("iN", ctx), self.index("iN", ctx)
            return {"lines": [f"{tgt}[{i1}], {tgt}[{i2}] = {tgt}[{i2}], {tgt}[{i1}]"], "kind": "swap", "depth": d,
                    "shapes": [shape_of(a[1])]}
        # whole-field replacement (only where the place ends in a struct field)
        if a[1] and a[1][-1][0] == "f":
            vals = ", ".join(str(self.fresh()) for _ in range(self.N))
            return {"lines": [f"{tgt} = array({vals})"], "kind": "replace-field", "depth": len(a[1]),
                    "shapes": [shape_of(a[1])]}
        return {"lines": [f"{tgt}[{self.index('iN', ctx)}] = {self.int_expr(roots, ctx)}"], "kind": "assign",
                "depth": d, "shapes": [shape_of(a[1])]}

    def stmt_loop(self, roots, ctx):
        a = self.place(roots, "A", ctx)
        if a is None:
            return None
        tgt = render(*a)
        c = self.fresh()
        d = len(a[1]) + 1
        if self.chance(60):
            if self.leaf == "qubit":
                body = (f"x({tgt}[k])" if self.chance(50) or self.N < 2 else None)
                if body is None:
                    return {"lines": [f"for k in range({self.N - 1}):", f"    cx({tgt}[k], {tgt}[k + 1])"],
                            "kind": "for", "depth": d, "shapes": [shape_of(a[1])]}
            else:
                body = f"{tgt}[k] = {tgt}[k] * 2 + k + {c}"
            return {"lines": [f"for k in range({self.N}):", "    " + body], "kind": "for", "depth": d,
                    "shapes": [shape_of(a[1])]}
        inner = self.stmt_write(roots, ctx) or {"lines": ["pass"], "depth": 0, "shapes": []}
        n = f"n{self.counter}"
        return {"lines": [f"{n} = 0", f"while {n} < 2:"] + ["    " + ln for ln in inner["lines"]] + [f"    {n} += 1"],
                "kind": "while", "depth": inner["depth"], "shapes": inner["shapes"]}

    def int_args(self, ctx, comp=False):
        if ctx == "case":
            ints = [str(self.r.randrange(self.M)), str(self.r.randrange(self.N)), str(self.fresh())]
        else:
            ints = [self.pick(["i", str(self.r.randrange(self.M)), f"{self.M - 1} - i"]),
                    self.pick(["j", str(self.r.randrange(self.N)), f"{self.N - 1} - j"]),
                    self.pick(["v", f"v + {self.fresh()}", str(self.fresh())])]
        if comp and self.chance(50):
            # the comprehension variable reaches the callee
            ints[2] = self.pick(["q_", f"q_ + {self.fresh()}", f"{ints[2]} + q_"])
        return ints

    def call_index(self, pl, roots, ctx, max_level, taken, comp):
        """maybe turn subscript indices of the argument place `pl` into calls `f(<borrowed places>, ...) % n` of a
        pool function with an int result: evaluating the index updates the places lent to f (once, when the
        argument is evaluated).  The places lent in an index overlap no other argument of the enclosing call (the
        checker treats all borrows of one call as simultaneous).  -> (place, [callee names], [places lent in indices])"""
        subs = [k for k, st in enumerate(pl[1]) if st[0] == "i"]
        if not subs or not self.chance(CALL_INDEX_PCT):
            return pl, [], []
        chosen = [k for k in subs if self.chance(60)] or [self.pick(subs)]
        if len(chosen) > 1:
            if "nested-call-indices" in EXCLUDE:
                self.excluded_idx += 1
                chosen = [self.pick(chosen)]
            else:
                self.nested_idx_used = True
        steps = list(pl[1])
        held = list(taken) + [pl]
        names, lent = [], []
        for k in chosen:
            inner = self.call_expr(roots, ctx, max_level, held, need_ret=True, call_idx=False, comp=comp)
            if inner is None:
                continue
            n = self.M if steps[k][2] == "iM" else self.N
            steps[k] = ("i", f"{inner['call']} % {n}", steps[k][2])
            held += inner["places"]
            lent += inner["places"]
            names += inner["callees"]
        new = (pl[0], steps)
        if not names or any(may_overlap(new, t) or sibling_conflict(new, t) for t in held if t is not pl):
            return pl, [], []
        return new, names, lent

    def call_expr(self, roots, ctx, max_level, taken0=(), need_ret=False, call_idx=True, comp=False):
        """a call of a pool function below max_level lending places below `roots` that overlap neither each
        other nor `taken0` -> dict(call, f, places, callees) | None"""
        cands = [f for f in self.funcs if f["level"] < max_level and (f["ret"] or not need_ret)]
        self.r.shuffle(cands)
        # prefer the highest level available (nested borrows), then anything
        cands.sort(key=lambda f: -f["level"] if self.chance(60) else 0)
        for f in (cands if need_ret else cands[:6]):
            taken = list(taken0)
            places, callees = [], [f["name"]]
            ok = True
            for _, t in f["params"]:
                pl = self.place(roots, t, ctx, taken=taken, literal=bool(taken))
                if pl is None:
                    ok = False
                    break
                if call_idx:
                    pl, names, lent = self.call_index(pl, roots, ctx, max_level, taken, comp)
                    callees += names
                    taken += lent
                taken.append(pl)
                places.append(pl)
            if not ok:
                continue
            call = f"{f['name']}({', '.join([render(*p) for p in places] + self.int_args(ctx, comp))})"
            return {"call": call, "f": f, "places": places, "callees": callees}
        return None

    def stmt_call(self, roots, ctx, max_level):
        # a comprehension evaluates its element expression - a call lending places of the enclosing scope - once
        # per iteration; the places keep the updates of every iteration
        comp = self.chance(COMPREHENSION_PCT)
        c = (self.call_expr(roots, ctx, max_level, need_ret=True, comp=True) if comp else None)
        if c is None:
            comp = False
            c = self.call_expr(roots, ctx, max_level)
        if c is None:
            return None
        f, taken, call = c["f"], c["places"], c["call"]
        if comp:
            call = f"array({call} for q_ in range({self.r.randrange(1, 4)}))"
        sib = len(taken) == 2 and sibling_conflict(taken[0], taken[1])
        lines = [call]
        if f["ret"]:
            if ctx == "case":
                tag = f"r{self.fresh()}"
                lines = [f"{tag} = {call}", f'result("@K@{tag}", {tag})']
            else:
                lines = [f"w{self.counter} = {call}"]
        return {"lines": lines, "kind": "call", "depth": max(len(p[1]) for p in taken), "callee": f["name"],
                "callees": c["callees"][1:], "comprehension": comp,
                # a struct with a classical field lent as variable / field (the place is tracked leaf by leaf)
                "lends_struct": any(t in ("S", "U", "P", "W") and not any(st[0] == "i" for st in p[1])
                                    for (_, t), p in zip(f["params"], taken)),
                "shapes": [shape_of(p[1]) for p in taken], "nargs": len(taken), "sibling": sib}

    def stmt_swap_fresh(self, roots, ctx, types):
        """exchange a place with a fresh local value: the borrowed place holds a completely new value afterwards,
        classical fields included (the old value is dropped with the local; qubits cannot be dropped: int only)"""
        cands = list(types)
        self.r.shuffle(cands)
        for t in cands:
            a = self.place(roots, t, ctx)
            if a is not None:
                tmp = f"t{self.fresh()}"
                self.in_fn = ctx == "fn"
                val = self.init(t)
                self.in_fn = False
                return {"lines": [f"{tmp} = {val}", f"mem_swap({render(*a)}, {tmp})"], "kind": "memswap",
                        "swapped": t, "fresh": True, "depth": len(a[1]), "shapes": [shape_of(a[1])]}
        return None

    def stmt_memswap(self, roots, ctx):
        """`mem_swap(a, b)` on two non-overlapping places of one type: both keep their identity and exchange their
        values, classical struct fields included."""
        if self.leaf == "int" and self.chance(45):
            s = self.stmt_swap_fresh(roots, ctx, sorted(CLASSICAL_FIELD))
            if s is not None:
                return s
        cands = [t for t in SWAP_TYPES if t in self.types]
        self.r.shuffle(cands)
        if self.chance(60):
            cands.sort(key=lambda t: t not in CLASSICAL_FIELD)
        for t in cands[:6]:
            a = self.place(roots, t, ctx)
            if a is None:
                continue
            b = self.place(roots, t, ctx, taken=[a], literal=True)
            if b is None:
                continue
            return {"lines": [f"mem_swap({render(*a)}, {render(*b)})"], "kind": "memswap", "swapped": t,
                    "depth": max(len(a[1]), len(b[1])), "shapes": [shape_of(a[1]), shape_of(b[1])]}
        return None

    def stmt(self, roots, ctx, level, nest=0):
        k = self.r.randrange(100)
        s = None
        if level > 0 and k < (50 if ctx != "case" else 100):
            s = self.stmt_call(roots, ctx, level)
        elif k < 66:
            s = self.stmt_write(roots, ctx, level)
        elif k < 77:
            s = self.stmt_memswap(roots, ctx)
        elif k < 88:
            s = self.stmt_loop(roots, ctx)
        elif nest == 0 and ctx != "case":
            a = self.stmt(roots, ctx, level, 1)
            b = self.stmt(roots, ctx, level, 1)
            cond = self.pick(["i == 0", "j > 0", "v % 2 == 0", "j == 1"])
            s = {"lines": [f"if {cond}:"] + ["    " + ln for ln in a["lines"]] + ["else:"] + ["    " + ln for ln in b["lines"]],
                 "kind": "if", "depth": max(a["depth"], b["depth"]), "shapes": a["shapes"] + b["shapes"],
                 "callees": [x.get("callee") for x in (a, b) if x.get("callee")] + a.get("callees", []) + b.get("callees", []),
                 "sibling": bool(a.get("sibling") or b.get("sibling")),
                 "nargs": max(a.get("nargs", 0), b.get("nargs", 0))}
        return s or self.stmt_write(roots, ctx) or {"lines": ["pass"], "kind": "pass", "depth": 0, "shapes": []}

    def function(self, level):
        name = f"f{len(self.funcs)}"
        pool = self.types if level == 0 else [t for t in self.types if t not in ("L",)]
        if level > 0:
            # parameters from which the parameters of lower-level functions can be reached
            lower = {t for f in self.funcs if f["level"] < level for _, t in f["params"]}
            pool = [t for t in pool if any(all_paths(t, lt, self.leaf) for lt in lower)] or pool
        np_ = 1 if self.chance(55) else 2
        params = [(f"p{n}", self.pick(pool)) for n in range(np_)]
        if np_ == 2 and self.chance(50):
            params[1] = ("p1", params[0][1])  # two values of one type (can be exchanged as a whole)
        ret = self.chance(50)
        body = [self.stmt(params, "fn", level) for _ in range(self.r.randrange(2, 5))]
        if level > 0 and not any(s.get("callee") or s.get("callees") for s in body):
            c = self.stmt_call(params, "fn", level)
            if c:
                body.insert(self.r.randrange(len(body) + 1), c)
        if self.leaf == "int" and self.chance(60):
            # classical fields of a borrowed struct change only together with the whole struct
            sw = self.stmt_swap_fresh(params, "fn", sorted(CLASSICAL_FIELD))
            if sw:
                body.insert(self.r.randrange(len(body) + 1), sw)
        elif self.leaf == "qubit" and np_ == 2 and params[0][1] == params[1][1] and params[0][1] in SWAP_TYPES and self.chance(60):
            # (qubits cannot be dropped: two borrowed values are exchanged)
            body.insert(self.r.randrange(len(body) + 1),
                        {"lines": ["mem_swap(p0, p1)"], "kind": "memswap", "swapped": params[0][1], "depth": 0, "shapes": ["var", "var"]})
        if self.chance(20):
            early = self.stmt_write(params, "fn")
            if early:
                pos = self.r.randrange(len(body) + 1)
                body.insert(pos, {"lines": ["if v % 3 == 0:"] + ["    " + ln for ln in early["lines"]] +
                                  ["    return" + (f" {self.fresh()}" if ret else "")], "kind": "early-return",
                                  "depth": early["depth"], "shapes": early["shapes"]})
        f = {"name": name, "level": level, "params": params, "ret": ret, "body": body}
        if ret:
            f["retexpr"] = self.pick([f"v + {self.fresh()}", f"i * 100 + j + {self.fresh()}"])
            if self.leaf == "int" and self.chance(40):
                # the result depends on the state the borrowed parameters have at the end
                pl = self.place(params, "A", "fn")
                if pl is not None:
                    f["retexpr"] = f"{render(*pl)}[{self.index('iN', 'fn')}] + {self.fresh()}"
        self.funcs.append(f)
        return f

    # --- cases
    def classical(self):
        """value of a classical field: a constant in a case function, may depend on i, j, v in a pool function"""
        c = self.fresh()
        return str(c) if not self.in_fn else self.pick([str(c), f"v + {c}", f"v + {c}", f"j * 10 + {c}", f"i + {c}"])

    def init(self, t):
        N, M = self.N, self.M
        if t == "L":
            return "qubit()"
        if t == "A":
            if self.leaf == "qubit":
                return "array(" + ", ".join(["qubit()"] * N) + ")"
            return "array(" + ", ".join(str(self.fresh()) for _ in range(N)) + ")"
        if t == "AA":
            return "array(" + ", ".join(self.init("A") for _ in range(M)) + ")"
        if t == "S":
            return f"S({self.init('A')}, {self.classical()}, {self.init('A')})"
        if t == "U":
            return f"U({self.init('S')}, {self.init('A')})"
        if t == "TU":
            return f"({self.init('A')}, {self.init('A')})"
        if t == "P":
            return f"P({self.init('TU')}, {self.classical()})"
        if t == "W":
            return f"W({self.init('AA')}, {self.classical()})"
        if t == "AS":
            return "array(" + ", ".join(self.init("S") for _ in range(M)) + ")"
        if t == "Q2":
            return "Q2(qubit(), qubit())"
        if t == "G":
            return "array(" + ", ".join(self.init("AA") for _ in range(M)) + ")"
        if t == "AW":
            return "array(" + ", ".join(self.init("W") for _ in range(M)) + ")"
        raise ValueError(t)

    def n_leaves(self, t):
        N, M = self.N, self.M
        return {"L": 1, "A": N, "AA": N * M, "S": 2 * N, "U": 3 * N, "TU": 2 * N, "P": 2 * N, "W": N * M,
                "AS": 2 * N * M, "Q2": 2, "G": N * M * M, "AW": N * M * M}[t]

    def report(self, var, t, k):
        """lines that report (int) / measure and report (qubit) every leaf of local `var`."""
        q = self.leaf == "qubit"
        N, M = self.N, self.M

        def rep(tag, place):
            return f'result("@K@{tag}", {"measure_array(" + place + ")" if q else place})'

        if t == "L":
            return [f'result("@K@{var}", measure({var}))']
        if t == "A":
            return [rep(var, var)]
        def cls(tag, place):  # classical field
            return f'result("@K@{tag}", {place})'

        if t == "S":
            return [rep(f"{var}.xs", f"{var}.xs"), cls(f"{var}.k", f"{var}.k"), rep(f"{var}.ys", f"{var}.ys")]
        if t == "U":
            return [rep(f"{var}.s.xs", f"{var}.s.xs"), cls(f"{var}.s.k", f"{var}.s.k"), rep(f"{var}.s.ys", f"{var}.s.ys"),
                    rep(f"{var}.zs", f"{var}.zs")]
        if t in ("G", "AW"):
            if q:
                return ([f"for {var}_p in {var}:"] + (["    " + cls(f"{var}.k", f"{var}_p.k")] if t == "AW" else []) +
                        [f"    for {var}_row in {var}_p{'.xss' if t == 'AW' else ''}:", "        " + rep(f"{var}.row", f"{var}_row")])
            return [x for m in range(M) for x in
                    ([cls(f"{var}[{m}].k", f"kw_of({var}[{m}])")] if t == "AW" else []) +
                    [rep(f"{var}[{m}][{n}]", f"{var}[{m}]{'.xss' if t == 'AW' else ''}[{n}]") for n in range(M)]]
        if t == "Q2":
            return [f'result("@K@{var}.a", measure({var}.a))', f'result("@K@{var}.b", measure({var}.b))']
        if t in ("TU", "P"):
            src = var if t == "TU" else f"{var}.t"
            kk = [cls(f"{var}.k", f"{var}.k")] if t == "P" else []
            if q:
                return kk + [f"{var}_0, {var}_1 = {src}", rep(f"{var}[0]", f"{var}_0"), rep(f"{var}[1]", f"{var}_1")]
            return kk + [rep(f"{var}[0]", f"{src}[0]"), rep(f"{var}[1]", f"{src}[1]")]
        if t in ("AA", "W"):
            src = var if t == "AA" else f"{var}.xss"
            kk = [cls(f"{var}.k", f"{var}.k")] if t == "W" else []
            if q:
                return kk + [f"for {var}_row in {src}:", "    " + rep(f"{var}.row", f"{var}_row")]
            return kk + [rep(f"{var}[{m}]", f"{src}[{m}]") for m in range(M)]
        if t == "AS":
            if q:
                return [f"for {var}_s in {var}:", "    " + cls(f"{var}.k", f"{var}_s.k"), "    " + rep(f"{var}.xs", f"{var}_s.xs"),
                        "    " + rep(f"{var}.ys", f"{var}_s.ys")]
            return [x for m in range(M) for x in (rep(f"{var}[{m}].xs", f"{var}[{m}].xs"), cls(f"{var}[{m}].k", f"k_of({var}[{m}])"),
                                                  rep(f"{var}[{m}].ys", f"{var}[{m}].ys"))]
        raise ValueError(t)

    def case(self):
        wanted = {t for f in self.funcs for _, t in f["params"]}
        # the three-level containers (places below two subscripts) are drawn twice as often
        pool = [t for t in self.types + ["G", "AW"] if any(all_paths(t, w, self.leaf) for w in wanted)]
        locs = []
        budget = 12 if self.leaf == "qubit" else 10**6
        for n in range(self.r.randrange(2, 5)):
            t = self.pick(pool)
            if self.n_leaves(t) <= budget:
                budget -= self.n_leaves(t)
                locs.append((f"v{n}", t))
        if not locs:
            locs = [("v0", "A")]
        init = [f"{n} = {self.init(t)}" for n, t in locs]
        init += [f"ri = {self.r.randrange(self.M)}", f"rj = {self.r.randrange(self.N)}"]
        body = []
        if self.leaf == "qubit":
            for _ in range(self.r.randrange(0, 4)):
                s = self.stmt_write(locs, "case", 99)
                if s:
                    body.append(dict(s, kind="prep-" + s["kind"]))
        for _ in range(self.r.randrange(2, 6)):
            s = self.stmt_call(locs, "case", 99)
            if s:
                body.append(s)
        rep = [ln for n, t in locs for ln in self.report(n, t, 0)]
        return {"locals": locs, "init": init, "body": body, "report": rep,
                "qubits": sum(self.n_leaves(t) for _, t in locs) if self.leaf == "qubit" else 0}


def generate(rnd):
    g = Gen(rnd)
    for level, cnt in ((0, rnd.randrange(2, 5)), (1, rnd.randrange(2, 4)), (2, rnd.randrange(1, 3))):
        for _ in range(cnt):
            g.function(level)
    cases = [g.case() for _ in range(CASES_PER_PROGRAM)]
    return {"leaf": g.leaf, "N": g.N, "M": g.M, "funcs": g.funcs, "cases": cases, "excluded": g.excluded,
            "excluded_idx": g.excluded_idx}


# ------------------------------------------------------------------ rendering
def func_src(f, prog):
    ps = [f"{n}: {type_src(t, prog['leaf'], prog['N'], prog['M'])}" for n, t in f["params"]] + ["i: int", "j: int", "v: int"]
    lines = [f"@guppy\ndef {f['name']}({', '.join(ps)}) -> {'int' if f['ret'] else 'None'}:"]
    body = [ln for s in f["body"] for ln in s["lines"]] or ["pass"]
    if f["ret"]:
        body.append(f"return {f['retexpr']}")
    return "\n".join(lines + ["    " + ln for ln in body])


def callees_of(stmts):
    out = []
    for s in stmts:
        if s.get("callee"):
            out.append(s["callee"])
        out += s.get("callees", [])
    return out


def reachable(prog, case_idxs):
    byname = {f["name"]: f for f in prog["funcs"]}
    todo = [c for k in case_idxs for c in callees_of(prog["cases"][k]["body"])]
    seen = set()
    while todo:
        n = todo.pop()
        if n in seen:
            continue
        seen.add(n)
        todo += callees_of(byname[n]["body"])
    return [f for f in prog["funcs"] if f["name"] in seen]


def case_src(c, k):
    body = c["init"] + [ln for s in c["body"] for ln in s["lines"]] + c["report"]
    return (f"@guppy\ndef case{k}() -> None:\n" + "\n".join("    " + ln for ln in body)).replace("@K@", f"c{k}:")


def program_src(prog, case_idxs=None):
    """source WITHOUT the import header (pyref runs it as is; the runner prepends HEADER)."""
    idxs = list(range(len(prog["cases"]))) if case_idxs is None else list(case_idxs)
    parts = [decls(prog["leaf"], prog["N"], prog["M"])]
    parts += [func_src(f, prog) for f in reachable(prog, idxs)]
    parts += [case_src(prog["cases"][k], k) for k in idxs]
    if len(idxs) == 1:
        parts.append(f"@guppy\ndef main() -> None:\n    case{idxs[0]}()")
    else:
        # run-time dispatch keeps every case in its own basic block (qubits of one case are freed
        # before the next allocates, see checks/c20.py)
        disp = [f"        {'if' if n == 0 else 'elif'} kk == {n}:\n            case{k}()" for n, k in enumerate(idxs)]
        parts.append(f"@guppy\ndef main() -> None:\n    for kk in range({len(idxs)}):\n" + "\n".join(disp))
    return "\n\n".join(parts) + "\n"


# ------------------------------------------------------------------ oracle + execution
class _QB:
    __slots__ = ("bit",)

    def __init__(self):
        self.bit = 0


def _ref_env():
    from vlib import pyref

    def _x(q):
        q.bit ^= 1

    def _cx(a, b):
        if a is b:
            raise AssertionError("generator bug: cx on one qubit")
        b.bit ^= a.bit

    def _mem_swap(a, b):
        # the two borrowed places exchange their values: in Python terms both objects stay where
        # they are and exchange their contents
        if a is b or type(a) is not type(b):
            raise AssertionError("generator bug: mem_swap on one object / different types")
        if isinstance(a, list):
            if len(a) != len(b):
                raise AssertionError("generator bug: mem_swap on arrays of different lengths")
            ca, cb = list(a), list(b)
            for n in range(len(ca)):
                list.__setitem__(a, n, cb[n])
                list.__setitem__(b, n, ca[n])
        elif isinstance(a, _QB):
            a.bit, b.bit = b.bit, a.bit
        else:
            a.__dict__, b.__dict__ = b.__dict__, a.__dict__

    return {"qubit": _QB, "x": _x, "cx": _cx, "measure": lambda q: bool(q.bit), "mem_swap": _mem_swap,
            "measure_array": lambda qs: pyref.array(*[bool(q.bit) for q in qs])}


def split_stream(stream):
    out = {}
    for tag, v in stream:
        k = tag.split(":", 1)[0]
        out.setdefault(k, []).append((tag, v))
    return out


def run_program(src, n_qubits):
    """-> (status, payload): ok -> (emulated per-case streams, reference per-case streams);
    generr / rejected / crash / invalid / panic / unsupported -> (bucket-ish title, message)"""
    from vlib import pyref, runner

    try:
        ref, pan = pyref.run_ref(src, extra_env=_ref_env(), max_results=100000)
    except BaseException as e:  # noqa: BLE001
        if isinstance(e, (KeyboardInterrupt, SystemExit)):
            raise
        return "generr", ("pyref", f"pyref raised {e!r}")
    if pan is not None:
        return "generr", ("pyref", f"reference panicked: {pan}")
    out, lm = runner.run_source(HEADER + src, n_qubits=max(1, n_qubits))
    if lm is not None:
        lm.dispose()
    if out.kind == "ok":
        return "ok", (split_stream(out.stream), split_stream(ref))
    if out.kind == "crash":
        if out.title == "SyntaxError-gen":
            return "generr", ("syntax", out.message)
        return "crash", (runner.crash_bucket(out.exc), out.message[-1500:])
    if out.kind == "panic":
        return "panic", (out.message.split(":")[-1].strip()[:60], out.message[:400])
    if out.kind == "invalid":
        return "invalid", (out.title, out.message[:1200])
    return out.kind, (out.title, out.message[-1500:])


def evaluate(prog, idxs):
    """-> {case index: None | (kind, detail)}; kinds starting with '__' are not violations."""
    from vlib import pyref

    src = program_src(prog, idxs)
    nq = max([prog["cases"][k]["qubits"] for k in idxs] + [1])
    st, pay = run_program(src, nq)
    if st == "ok":
        emu, ref = pay
        res = {}
        for k in idxs:
            a, b = emu.get(f"c{k}", []), ref.get(f"c{k}", [])
            if pyref.streams_equal(a, b):
                res[k] = None
            else:
                i, x, y = pyref.first_diff(a, b)
                res[k] = ("value.mismatch", f"case{k}, result #{i}: emulator {x} vs Python reference {y}")
        return res
    if len(idxs) > 1 and st != "unsupported":
        h = len(idxs) // 2
        r = evaluate(prog, idxs[:h])
        r.update(evaluate(prog, idxs[h:]))
        return r
    k = idxs[0]
    if st == "generr":
        return {k: ("__harness__", f"{pay[1]}\n{src}")}
    if st == "rejected":
        return {k: ("__harness__", f"generated program was rejected ({pay[0]}):\n{pay[1]}\n{src}")}
    if st == "unsupported":
        return {k2: ("__unsupported__", pay[1][:200]) for k2 in idxs}
    if st == "crash":
        return {k: ("crash:" + pay[0], pay[1])}
    if st == "invalid":
        return {k: ("invalid_hugr", pay[1])}
    if st == "panic":
        return {k: ("panic.unexpected", pay[1])}
    return {k: ("__harness__", f"unexpected outcome {st}: {pay}")}


def single(prog, k):
    """self-contained one-case program (reachable functions only)."""
    return {"leaf": prog["leaf"], "N": prog["N"], "M": prog["M"], "funcs": reachable(prog, [k]),
            "cases": [prog["cases"][k]]}


def replay(case):
    src = case["src"]
    st, pay = run_program(src, int(case.get("qubits", 1)))
    if st == "ok":
        from vlib import pyref

        emu, ref = pay
        for k in sorted(set(emu) | set(ref)):
            if not pyref.streams_equal(emu.get(k, []), ref.get(k, [])):
                i, x, y = pyref.first_diff(emu.get(k, []), ref.get(k, []))
                return (case.get("bucket") or "value.mismatch", f"{k}, result #{i}: emulator {x} vs Python reference {y}\n{src}")
        return None
    if st in ("generr", "rejected", "unsupported"):
        raise harness.HarnessError(f"replay: {st}: {pay}")
    return (case.get("bucket") or st, f"{st}: {pay[0]}\n{pay[1]}\n{src}")


# ------------------------------------------------------------------ classification / minimisation
def stmts_reachable(prog):
    for f in prog["funcs"]:
        for s in f["body"]:
            yield f, s


def classify(prog1):
    """prog1 = single(...). -> (nontrivial, labels)"""
    c = prog1["cases"][0]
    byname = {f["name"]: f for f in prog1["funcs"]}
    labels = {"leaf:" + prog1["leaf"]}
    chain = {}

    def depth_of(name):  # longest chain of nested borrowing calls starting at this function
        if name not in chain:
            chain[name] = 0
            chain[name] = 1 + max([depth_of(n) for n in callees_of(byname[name]["body"])] + [0])
        return chain[name]

    maxchain = max([depth_of(n) for n in callees_of(c["body"])] + [0])
    labels.add(f"call-chain={min(maxchain, 3)}")
    deep = False
    for s in c["body"]:
        for sh in s.get("shapes", []):
            labels.add("arg:" + sh.split(":")[0])
            if sh.startswith("nested:"):
                labels.add("arg:" + sh)
        if s.get("nargs", 0) > 1:
            labels.add("multi-borrow-call")
    for f, s in stmts_reachable(prog1):
        labels.add("callee:" + s["kind"])
        if s["kind"] != "call" and s["depth"] >= 2:
            deep = True
        if s["kind"] == "call":
            if s.get("nargs", 0) > 1:
                labels.add("multi-borrow-nested-call")
            for sh in s.get("shapes", []):
                labels.add("lend:" + sh.split(":")[0])
        if f["ret"]:
            labels.add("callee:returns-int")
        if len(f["params"]) > 1:
            labels.add("callee:two-borrowed-params")
    for s in list(c["body"]) + [s for _, s in stmts_reachable(prog1)]:
        if s.get("comprehension"):
            labels.add("comprehension")
            if s.get("lends_struct"):
                labels.add("comprehension-lends-struct")
        if s["kind"] == "memswap":
            labels.add("memswap:" + s["swapped"])
        for sh in s.get("shapes", []):
            if "subscript-call" in sh:
                labels.add("index-call")
                if sh.split("subscript-call")[1].count("subscript"):
                    labels.add("index-call-above-subscript")
    if deep:
        labels.add("write-depth>=2")
    for _, t in c["locals"]:
        labels.add("local:" + t)
    return deep or maxchain >= 2, labels


def features(prog1):
    """root-cause oriented features of a failing case (taken from the *minimised* case to name a bucket;
    later failures of the same kind whose features include them are attributed to that bucket): which
    argument shapes are passed / lent on and what else is involved."""
    c = prog1["cases"][0]
    f = {prog1["leaf"]}
    f |= {"arg=" + sh.split(":")[0] for s in c["body"] for sh in s.get("shapes", []) if s["kind"] == "call"}
    f |= {"lend=" + sh.split(":")[0] for _, s in stmts_reachable(prog1) if s["kind"] == "call" for sh in s.get("shapes", [])}
    if any(s.get("nargs", 0) > 1 for s in c["body"]) or any(s.get("nargs", 0) > 1 for _, s in stmts_reachable(prog1)):
        f.add("multi")
    if any(fn["ret"] for fn in prog1["funcs"]):
        f.add("ret")
    for s in list(c["body"]) + [s for _, s in stmts_reachable(prog1)]:
        if s.get("comprehension"):
            f.add("comprehension")
        if s["kind"] == "memswap":
            f.add("memswap")
        if any("subscript-call" in sh for sh in s.get("shapes", [])):
            f.add("index-call")
    return f


def has_nested_call_idx(prog1):
    return any(sh.count("subscript-call") > 1 for s in list(prog1["cases"][0]["body"]) + [s for _, s in stmts_reachable(prog1)]
               for sh in s.get("shapes", []))


def has_sibling_call(prog1):
    def walk(stmts):
        return any(st.get("sibling") for st in stmts)

    return walk(prog1["cases"][0]["body"]) or any(walk(f["body"]) for f in prog1["funcs"])


def bucket_name(kind, feats):
    if kind.startswith("crash:") or kind in (SIBLING_BUCKET, NESTED_IDX_BUCKET):
        return kind  # exception type + innermost compiler frame is the root-cause signature
    return kind + ":" + ":".join(sorted(feats))


def minimise(prog1, kind, deadline, clock):
    """greedy statement deletion (case body, function bodies), then unused functions go by themselves."""
    cur = prog1

    def fails(p):
        return (evaluate(p, [0]).get(0) or (None,))[0] == kind

    progress = True
    while progress and clock() < deadline:
        progress = False
        cands = []
        c = cur["cases"][0]
        for n in range(len(c["body"])):
            c2 = dict(c, body=c["body"][:n] + c["body"][n + 1:])
            cands.append(dict(cur, cases=[c2]))
        for fi, f in enumerate(cur["funcs"]):
            for n in range(len(f["body"])):
                f2 = dict(f, body=f["body"][:n] + f["body"][n + 1:])
                cands.append(dict(cur, funcs=cur["funcs"][:fi] + [f2] + cur["funcs"][fi + 1:]))
            if f["ret"] is True and False:
                pass
        for cand in cands:
            if clock() >= deadline:
                break
            cand = dict(cand, funcs=reachable(cand, [0]))
            if fails(cand):
                cur = cand
                progress = True
                break
    return cur


# ------------------------------------------------------------------ worker
# ---------------------------------------------------------------- rebinding a borrowed parameter
# Python rebinds only the callee's local name, so the caller keeps the value with the in-place
# updates made before; Guppy must either reject the rebinding (it does, "Borrow shadowed") or behave
# like that.  Enumerated: binding form x position x parameter type.
REBIND_FORMS = {
    "plain": "{p} = {new}",
    "tuple": "{p}, k_ = {new}, 1",
    "tuple_rev": "k_, {p} = 1, {new}",
    "nested": "(k_, {p}), j_ = (1, {new}), 2",
    "for": "for {p} in array({new}, {new}):\n{ind}    pass",
    "starred": "k_, *{p} = array(7, 8, 9, 6)",
    "walrus": "k_ = len(({p} := {new}))",
    "aug": "{p} += {new}",
}
REBIND_POS = {
    "entry": "{stmt}",
    "if": "if c:\n    {stmt}",
    "else": "if c:\n    pass\nelse:\n    {stmt}",
    "while": "n_ = 0\nwhile n_ < 1:\n    n_ += 1\n    {stmt}",
    "after_if": "if c:\n    k0_ = 1\n{stmt}",
    "nested_if": "if c:\n    if c:\n        {stmt}",
}


def rebind_cases():
    out = []
    for fname, form in sorted(REBIND_FORMS.items()):
        for pname, pos in sorted(REBIND_POS.items()):
            for c in ("True", "False"):
                ind = "    " * (pos.split("{stmt}")[0].split("\n")[-1].count("    "))
                stmt = form.format(p="xs", new="array(9, 9, 49)", ind=ind)
                stmt = stmt.replace("\n", "\n" + ind)
                body = pos.format(stmt=stmt)
                src = ("@guppy\ndef f(xs: array[int, 3], c: bool) -> None:\n    xs[0] += 10\n"
                       + "".join("    " + l + "\n" for l in body.split("\n"))
                       + "    xs[1] += 5\n\n@guppy\ndef main() -> None:\n    ys = array(1, 2, 3)\n    f(ys, " + c + ")\n"
                       "    result(\"c0:ys\", ys)\n")
                out.append({"form": fname, "pos": pname, "c": c, "src": src})
    return out


def eval_rebind(case):
    """-> (status, detail): rejected | ok | mismatch | other"""
    st_, pay = run_program(case["src"], 1)
    if st_ == "rejected":
        return "rejected", pay[0]
    if st_ == "ok":
        from vlib import pyref

        emu, ref = pay
        for k in sorted(set(emu) | set(ref)):
            if not pyref.streams_equal(emu.get(k, []), ref.get(k, [])):
                return "mismatch", f"{k}: emulator {emu.get(k)} vs Python reference {ref.get(k)}\n{case['src']}"
        return "ok", ""
    if st_ == "generr":
        return "generr", str(pay)
    return "other", f"{st_}: {pay[0]}\n{pay[1]}\n{case['src']}"


def worker(ctx):
    import time

    # enumerated rebinding family (split over the shards)
    for i, case in enumerate(rebind_cases()):
        if i % ctx.nshards != ctx.shard:
            continue
        r, detail = eval_rebind(case)
        ctx.case(("rebind", case["form"], case["pos"], case["c"]), True, labels=["rebind", "rebind:" + r, "rebind_form:" + case["form"]],
                 sample={"rebind": case["form"], "pos": case["pos"], "outcome": r})
        if r == "mismatch":
            ctx.violation(f"rebind.accepted_caller_sees_new_value.{case['form']}", {"src": case["src"], "bucket": f"rebind.accepted_caller_sees_new_value.{case['form']}", "qubits": 1}, detail)
        elif r == "other":
            ctx.violation(f"rebind.{detail.split(':')[0]}.{case['form']}", {"src": case["src"], "qubits": 1}, detail)
        elif r == "generr" and "SyntaxError" not in detail and "pyref" not in detail:
            ctx.harness_error("rebind family: " + detail[:500])

    from hypothesis import strategies as st

    strategy = st.randoms(use_true_random=True)
    shrink_spent = [0.0]
    SHRINK_CAP = ctx.budget_s * 0.3
    known = {}  # bucket -> (kind, features of the minimised case)
    rejected = [0]
    total = [0]

    count = [0]

    def body(rnd0):
        # Hypothesis starts every chunk with its minimal example (the same Random for every shard):
        # derive the program's Random from the drawn one, the shard and a running number
        import random

        count[0] += 1
        rnd = random.Random(f"{rnd0.getrandbits(64)}:{ctx.seed}:{ctx.shard}:{count[0]}")
        prog = generate(rnd)
        if prog["excluded"]:
            ctx.exclude("same-element-siblings: two borrowed arguments below one struct/tuple array element", prog["excluded"])
        if prog["excluded_idx"]:
            ctx.exclude("nested-call-indices: two subscripts of one argument place with a call as index (C05 nested_subscript_order)",
                        prog["excluded_idx"])
        idxs = list(range(len(prog["cases"])))
        res = evaluate(prog, idxs)
        for k in idxs:
            r = res.get(k)
            p1 = single(prog, k)
            src1 = program_src(p1, [0])
            total[0] += 1
            if r and r[0] == "__unsupported__":
                ctx.unsupported_case(r[1][:120])
                continue
            if r and r[0] == "__harness__":
                rejected[0] += 1
                ctx.harness_error(r[1])
                continue
            nontriv, labels = classify(p1)
            ctx.case(src1, nontriv and not r, labels=sorted(labels), sample=src1 if nontriv else None)
            if not r:
                continue
            kind, detail = r
            raw_kind = kind
            if kind == "panic.unexpected" and "already borrowed" in detail and has_sibling_call(p1):
                kind = SIBLING_BUCKET
            if kind == "value.mismatch" and has_nested_call_idx(p1):
                kind = NESTED_IDX_BUCKET
            small = p1
            feats = features(p1)
            sig = next((sg for sg, (k2, f2) in known.items() if k2 == kind and f2 <= feats), None)
            if sig is None:
                if shrink_spent[0] < SHRINK_CAP and not ctx.out_of_time(0.6):
                    t0 = time.monotonic()
                    small = minimise(p1, raw_kind, t0 + min(ctx.budget_s * 0.15, SHRINK_CAP - shrink_spent[0]), time.monotonic)
                    shrink_spent[0] += time.monotonic() - t0
                    r2 = evaluate(small, [0]).get(0)
                    if r2 and r2[0] == raw_kind:
                        detail = r2[1]
                    else:
                        small = p1
                    sig = bucket_name(kind, features(small))
                    known[sig] = (kind, features(small))
                else:
                    sig = kind if kind.startswith("crash:") or kind in (SIBLING_BUCKET, NESTED_IDX_BUCKET) else kind + ":unminimised"
            src = program_src(small, [0])
            ctx.violation(sig, {"src": src, "bucket": sig, "qubits": small["cases"][0]["qubits"], "leaf": small["leaf"]},
                          f"{detail}\n--- program\n{src}")

    harness.hyp_search(ctx, strategy, body, max_examples=ctx.params["n"], chunk=10, time_frac=0.75)


SPEC = harness.Spec(
    PROP, worker, replay,
    rule=("a random.Random drawn from Hypothesis builds one program: leaf kind int (65%) or qubit, N in 2..4, M in 2..3, structs "
          "S{xs,k,ys} U{s,zs} P{t,k} W{xss,k} (Q2{a,b}), 5-10 functions in levels 0/1/2 with 1-2 borrowed parameters (the second of "
          "the first one's type in half of the two-parameter functions) of the types A AA S U TU P W AS G=array[AA,M] AW=array[W,M] "
          "(L Q2) + i, j, v: int, 2-5 statements each: element assignment / += / swap / field replacement (x / cx for qubits) / "
          "mem_swap of two places of one type or of a place with a fresh local struct whose classical field depends on i, j, v "
          "through sub-places of depth 0-4 with literal and run-time indices, for / while loops, if/else, early return, optional int "
          "result (constant expression or an element of a parameter), and calls that lend parameters or sub-places of them (pairwise "
          "non-overlapping, 1-2 per call) to lower-level functions; 40% of the call statements whose callee returns an int are the "
          "element expression of an array comprehension over range(1..3), 65% of the argument places with a subscript get a call "
          "`f(<other places>, ...) % n` as one index; 12 case functions per program, each with 2-4 locals of those types holding distinct values and 2-5 "
          "calls passing variable / field / tuple element / array element / nested places, then reporting every leaf incl. the classical fields. One evaluation = "
          "one case function (its result stream against CPython's). non-trivial = some reachable callee statement writes through a "
          "place of depth >= 2 or the case reaches a chain of >= 2 nested borrowing calls; distinct = distinct single-case program text"),
    assumptions=[
        "CPython list / object reference semantics is the reference (pyref executes the same source text); ints stay far below 2^63",
        "qubits are only ever in computational basis states (x / cx from |0>), modelled as one bit per qubit object; measurement outcomes are then deterministic",
        "two borrowed arguments of one call (and the operands of cx) never overlap: places below the same array use different literal indices (overlapping borrows panic at run time by design and would alias in Python)",
        "mem_swap(a, b) exchanges the values of the two places: the reference exchanges the contents of the two Python objects (list items / attributes / the basis bit); tuples are not swapped (immutable in Python)",
        "the places lent inside an index call overlap no other argument of the enclosing call, and at most one subscript per argument place has a call index (two: evaluation order, C05 finding nested_subscript_order; excluded by construction, C07_EXCLUDE=none re-opens it)",
        "the classical field of an array element is read through a borrowing helper `k_of(ss[0])` (`ss[0].k` is rejected: 'Subscript consumed')",
        "whole-element replacement `xss[i] = array(...)` on arrays of non-copyable elements is not generated (panics by design: the slot is not empty); whole-field replacement is",
        "array lengths are concrete (classical xs[i] in a length-generic function cannot run on the installed selene, DESIGN 1.4)",
        "programs are accepted by construction: a rejection is reported as harness error (exit 2); compiler crashes, invalid HUGR (hugr validate) and panics are violations",
    ],
    shards={"quick": 8, "thorough": 16},
    budget_s={"quick": 90, "thorough": 840},
    params={"quick": {"n": 10}, "thorough": {"n": 150}},
    min_nontrivial=40,
)

if __name__ == "__main__":
    harness.main(SPEC)
