"""C23 Comptime tracing leaves the user's module untouched.

Domain: a Hypothesis RuleBasedStateMachine.  Each machine first draws two generated modules
(B, and A which imports B's functions).  Every module independently binds or does not bind
each of `int`, `float`, `len` (to a user function, a user class, a plain value, the builtin
itself, or Guppy's definition of that name) and contains `@guppy.comptime` functions (plus a
few regular `@guppy` callers) whose bodies use the shadowed names, call earlier comptime /
guppy functions of the same or the other module, re-enter the compiler (`other.compile()`
from inside a trace, guarded by try/except or not), raise a Python exception at a drawn
statement, or hit a Guppy error (type mismatch on return, leaked / twice used qubit, wrong
arity, iteration / branching on a dynamic value).  Fault statements are guarded by switches the
machine can toggle, so the same function can fail first and succeed later (and vice versa).
Rules: compile / compile_function / check any function, toggle a fault switch - any order.

Oracle (from the statement): before every rule a shallow copy of `module.__dict__` of both
modules is taken; after the rule - whether it returned or raised - both dicts must have the same
keys bound to the *identical* objects (`is`)."""
import os
import sys

sys.path.insert(0, os.path.dirname(os.path.dirname(os.path.abspath(__file__))))
from vlib import harness  # noqa: E402

PROP = "C23"
SHADOWED = ("int", "float", "len")
MOCKMOD = "guppylang_internals.tracing.builtins_mock"
BIND_KINDS = [None, "func", "class", "value", "builtin", "guppy"]

PRE = """from guppylang import guppy
from guppylang.std.builtins import nat, array, owned, comptime
from guppylang.std.quantum import qubit, discard


class UserErr(Exception):
    pass


class Stop(BaseException):
    pass

"""

# --------------------------------------------------------------------------- rendering
_VALUE = {"int": "7", "float": "2.5", "len": "(1, 2)"}
USE = {
    "int": "t = int(v)",
    "float": "t = float(v)",
    "len_py": "t = len([1, 2, 3])",
    "len_arr": "t = len(array(1, 2, 3))",
    "py_int": "t = int('12') + int(3.7)",
    "py_float": "t = float('1.5') + float(2)",
    "isinst": "assert isinstance(3, int) and isinstance(2.0, float)",
}
RAISE = {
    "ValueError": "raise ValueError('boom')",
    "KeyError": "raise KeyError('boom')",
    "UserErr": "raise UserErr('boom')",
    "Stop": "raise Stop('boom')",
    "ZeroDiv": "t = 1 // 0",
}
GERR = {
    "iter": "for _ in v: pass",
    "attr": "v.nosuch",
    "branch": "if v > nat(1): pass",
    "leak": "q = qubit()",
    "twice": "q = qubit(); discard(q); discard(q)",
    "rettype": "v = 1.5",
    "arity": "v = {callee}(v, v)",
}


def render_bind(name, kind):
    if kind is None:
        return ""
    if kind == "func":
        return f"def {name}(*args):\n    return 41\n\n"
    if kind == "class":
        return f"class {name}:\n    pass\n\n"
    if kind == "value":
        return f"{name} = {_VALUE[name]}\n"
    if kind == "builtin":
        return f"from builtins import {name}\n"
    if kind == "guppy":
        return f"from guppylang.std.builtins import {name}\n"
    raise ValueError(kind)


def fault_keys(spec):
    keys = []
    for f in spec["funcs"]:
        for i, s in enumerate(f["body"]):
            if s[0] in ("raise", "gerr"):
                keys.append(f"{f['name']}.{i}")
    return keys


def render_func(f):
    n = f["name"]
    if f["kind"] == "guppy":
        lines = ["@guppy", f"def {n}(x: nat) -> nat:", "    v = x"]
        for s in f["body"]:
            if s[0] == "arith":
                lines.append(f"    v = v + nat({s[1]})")
            elif s[0] == "call":
                lines.append(f"    v = {s[1]}(v)")
            else:
                raise ValueError(s)
        lines.append("    return v")
        return "\n".join(lines) + "\n\n"
    L = ["@guppy.comptime", f"def {n}(x: nat) -> nat:",
         f"    _CTL['log'].append(('enter', '{n}', getattr(globals().get('len'), '__module__', '') == '{MOCKMOD}'))",
         "    v = x"]
    for i, s in enumerate(f["body"]):
        if s[0] == "arith":
            L.append(f"    v = v + nat({s[1]})")
        elif s[0] == "use":
            L.append("    " + USE[s[1]])
        elif s[0] == "call":
            L.append(f"    _CTL['log'].append(('call', '{n}', '{s[1]}'))")
            L.append(f"    v = {s[1]}(v)")
        elif s[0] == "reenter":
            _, callee, how, guarded = s
            L.append(f"    _CTL['log'].append(('reenter', '{n}', '{callee}'))")
            if guarded:
                L += ["    try:", f"        {callee}.{how}()", "    except Exception:",
                      f"        _CTL['log'].append(('reenter_exc', '{n}', '{callee}'))"]
            else:
                L.append(f"    {callee}.{how}()")
        elif s[0] in ("raise", "gerr"):
            L.append(f"    if _CTL['on']['{n}.{i}']:")
            L.append(f"        _CTL['log'].append(('fault', '{n}', '{s[1]}'))")
            stmt = RAISE[s[1]] if s[0] == "raise" else GERR[s[1]].replace("{callee}", s[3] if len(s) > 3 and s[3] else "nat")
            L.append("        " + stmt)
        else:
            raise ValueError(s)
    L.append(f"    _CTL['log'].append(('exit', '{n}', getattr(globals().get('len'), '__module__', '') == '{MOCKMOD}'))")
    L.append("    return v")
    return "\n".join(L) + "\n\n"


def render_module(spec, which, bname=None):
    funcs = [f for f in spec["funcs"] if f["mod"] == which]
    on = {}
    for f in funcs:
        for i, s in enumerate(f["body"]):
            if s[0] in ("raise", "gerr"):
                on[f"{f['name']}.{i}"] = bool(s[2])
    src = PRE
    if which == "A":
        bnames = [f["name"] for f in spec["funcs"] if f["mod"] == "B"]
        src += f"from {bname} import {', '.join(bnames)}\n"
    src += f"_CTL = {{'log': [], 'on': {on!r}}}\n\n"
    for name in SHADOWED:
        src += render_bind(name, spec["binds"][which][name])
    src += "\n"
    for f in funcs:
        src += render_func(f)
    return src


def render_case(spec, steps):
    def b(which):
        return ",".join(f"{n}={spec['binds'][which][n]}" for n in SHADOWED if spec["binds"][which][n]) or "-"

    fs = []
    for f in spec["funcs"]:
        body = " ".join("/".join(str(x) for x in s if x is not None) for s in f["body"])
        fs.append(f"{f['name']}[{'c' if f['kind'] == 'comptime' else 'g'}]: {body}")
    return {"binds_A": b("A"), "binds_B": b("B"), "funcs": fs, "steps": " ; ".join(" ".join(map(str, s)) for s in steps)}


# --------------------------------------------------------------------------- interpreter
class Mismatch(Exception):
    def __init__(self, bucket, detail, case):
        super().__init__(f"{bucket}: {detail}")
        self.bucket, self.detail, self.case = bucket, detail, case


class Interp:
    def __init__(self, spec):
        self.spec = spec
        self.history = []
        self.mods = {}
        self.fmod = {f["name"]: f["mod"] for f in spec["funcs"]}
        self.fnames = [f["name"] for f in spec["funcs"]]
        self.fault_keys = fault_keys(spec)
        self.binds_any = {w: any(spec["binds"][w][n] for n in SHADOWED) for w in ("A", "B")}
        # per-history facts for the non-triviality rule and the labels
        self.raising_steps = 0
        self.nested_on_bound = 0
        self.labels = set()
        self.stale_after = 0

    def case(self):
        return {"mods": self.spec, "steps": [list(s) for s in self.history]}

    def begin(self):
        from guppylang_internals.tracing import state as ts

        from vlib import runner

        ts.reset_state()  # every history starts from a clean global tracing state
        try:
            lb = runner.load_module(render_module(self.spec, "B"))
            self.mods["B"] = lb
            la = runner.load_module(render_module(self.spec, "A", lb.name))
            self.mods["A"] = la
        except BaseException as e:  # noqa: BLE001
            self.close()
            raise harness.HarnessError(f"generated module does not load: {e!r}\n{render_module(self.spec, 'B')}\n"
                                       f"{render_module(self.spec, 'A', 'B')}") from e

    def close(self):
        from guppylang_internals.tracing import state as ts

        for lm in self.mods.values():
            lm.dispose()
        ts.reset_state()

    def snap(self):
        return {w: dict(lm.mod.__dict__) for w, lm in self.mods.items()}

    def compare(self, before, step):
        from guppylang_internals.tracing import builtins_mock as bm

        mocks = {"int": bm.int, "float": bm.float, "len": bm.len}
        for w, old in before.items():
            new = self.mods[w].mod.__dict__
            for k in list(old.keys()) + [k for k in new if k not in old]:
                cls = ("user_bound" if self.spec["binds"][w][k] else "unbound") if k in SHADOWED else "other_name"
                if k not in new:
                    change = "deleted"
                    what = f"was bound to {old[k]!r} before, is gone"
                elif k not in old:
                    change = "mock_left_behind" if new[k] is mocks.get(k) else "added"
                    what = f"was not bound before, is now {new[k]!r}"
                elif old[k] is not new[k]:
                    change = "rebound_to_mock" if new[k] is mocks.get(k) else "rebound"
                    what = f"was {old[k]!r} before, is now {new[k]!r}"
                else:
                    continue
                raise Mismatch(
                    f"ns.{change}.{cls}",
                    f"after step {len(self.history)} ({' '.join(map(str, step))}) the namespace of module {w} "
                    f"(binds: {self.spec['binds'][w]}) changed: `{k}` {what}\n"
                    f"case: {render_case(self.spec, self.history)}", self.case())

    def step(self, s):
        from guppylang_internals.tracing import state as ts

        from vlib import runner

        s = list(s)
        self.history.append(s)
        before = self.snap()
        for lm in self.mods.values():
            del lm.mod._CTL["log"][:]
        if s[0] == "toggle":
            fn = s[1].split(".")[0]
            ctl = self.mods[self.fmod[fn]].mod._CTL["on"]
            ctl[s[1]] = not ctl[s[1]]
        else:
            how, fn = s
            defn = self.mods[self.fmod[fn]].mod.__dict__[fn]
            if how == "check":
                out = runner.check_def(defn)
            else:
                out, _ = runner.compile_def(defn, entry=(how == "compile"))
            log = [e for w in ("B", "A") for e in self.mods[w].mod._CTL["log"]]
            if out.kind in ("crash", "rejected"):
                self.raising_steps += 1
            self.labels.add(f"step:{how}:{'ok' if out.kind == 'ok' else 'raises'}")
            if out.kind == "crash":
                self.labels.add("exc:" + type(out.exc).__name__)
            elif out.kind == "rejected":
                self.labels.add("exc:GuppyError")
            for e in log:
                if e[0] in ("call", "reenter"):
                    self.labels.add("event:" + e[0] + (":cross_module" if self.fmod[e[1]] != self.fmod[e[2]] else ":same_module"))
                    if self.binds_any[self.fmod[e[1]]]:
                        self.nested_on_bound += 1
                elif e[0] == "reenter_exc":
                    self.labels.add("event:reenter_raised_and_caught")
                elif e[0] == "fault":
                    self.labels.add("event:fault")
                elif e[0] == "enter" and e[2]:
                    self.labels.add("event:mock_active_in_body")
            if ts.tracing_active():
                self.stale_after += 1
                self.labels.add("info:tracing_state_left_set")
        self.compare(before, s)

    def nontrivial(self):
        return self.raising_steps >= 1 and self.nested_on_bound >= 1


def run_case(case):
    it = Interp(case["mods"])
    it.begin()
    try:
        for s in case["steps"]:
            it.step(s)
    except Mismatch as m:
        return (m.bucket, m.detail)
    finally:
        it.close()
    return None


def replay(case):
    return run_case(case)


# --------------------------------------------------------------------------- generator
def spec_strategy():
    from hypothesis import strategies as st

    @st.composite
    def spec(draw):
        binds = {}
        for w in ("B", "A"):
            mode = draw(st.sampled_from(["mixed", "all", "mixed", "none", "mixed"]))
            binds[w] = {}
            for n in SHADOWED:
                if mode == "none" or (mode == "mixed" and draw(st.integers(0, 2)) == 2):
                    binds[w][n] = None
                else:
                    binds[w][n] = draw(st.sampled_from(BIND_KINDS[1:]))
        nb = draw(st.integers(1, 2))
        na = draw(st.integers(2, 4))
        funcs = []
        for i in range(nb + na):
            mod = "B" if i < nb else "A"
            name = f"{mod.lower()}{i if mod == 'B' else i - nb}"
            visible = [f for f in funcs if mod == "A" or f["mod"] == "B"]
            kind = "comptime" if (not visible or draw(st.integers(0, 4))) else "guppy"
            body = []
            nst = draw(st.integers(1, 5))
            for _ in range(nst):
                if kind == "guppy":
                    t = draw(st.sampled_from(["arith", "call", "call"]))
                else:
                    t = draw(st.sampled_from(["arith", "use", "use", "call", "call", "call", "reenter", "reenter",
                                              "raise", "raise", "gerr"]))
                if t in ("call", "reenter") and not visible:
                    t = "use" if kind == "comptime" else "arith"
                if t == "arith":
                    body.append(["arith", draw(st.integers(0, 3))])
                elif t == "use":
                    body.append(["use", draw(st.sampled_from(sorted(USE)))])
                elif t == "call":
                    body.append(["call", draw(st.sampled_from(visible))["name"]])
                elif t == "reenter":
                    body.append(["reenter", draw(st.sampled_from(visible))["name"],
                                 draw(st.sampled_from(["compile", "compile", "compile_function", "check"])),
                                 draw(st.booleans())])
                elif t == "raise":
                    body.append(["raise", draw(st.sampled_from(sorted(RAISE))), draw(st.booleans())])
                else:
                    g = draw(st.sampled_from(sorted(GERR)))
                    callee = None
                    if g == "arity":
                        if visible:
                            callee = draw(st.sampled_from(visible))["name"]
                        else:
                            g = "attr"
                    body.append(["gerr", g, draw(st.booleans()), callee])
            funcs.append({"name": name, "mod": mod, "kind": kind, "body": body})
        return {"binds": binds, "funcs": funcs}

    return spec()


def make_machine(ctx):
    from hypothesis import strategies as st
    from hypothesis.stateful import RuleBasedStateMachine, initialize, precondition, rule

    class TraceMachine(RuleBasedStateMachine):
        def __init__(self):
            super().__init__()
            self.it = None
            self.failed = False

        def _do(self, s):
            try:
                self.it.step(s)
            except Mismatch:
                self.failed = True
                raise

        @initialize(spec=spec_strategy())
        def load(self, spec):
            self.it = Interp(spec)
            self.it.begin()

        @rule(i=st.integers(0, 11), how=st.sampled_from(["compile", "compile", "compile", "compile_function", "check"]))
        def build(self, i, how):
            # later functions (callers) first: index counted from the end
            names = self.it.fnames
            self._do([how, names[len(names) - 1 - i % len(names)]])

        @rule(i=st.integers(0, 11), how=st.sampled_from(["compile", "compile", "compile_function"]))
        def build2(self, i, how):
            names = self.it.fnames
            self._do([how, names[i % len(names)]])

        @precondition(lambda self: self.it is not None and self.it.fault_keys)
        @rule(i=st.integers(0, 11))
        def toggle(self, i):
            keys = self.it.fault_keys
            self._do(["toggle", keys[i % len(keys)]])

        def teardown(self):
            it = self.it
            if it is None:
                return
            try:
                if not self.failed and it.history:
                    labs = sorted(it.labels) + ["nontrivial" if it.nontrivial() else "trivial"]
                    for w in ("A", "B"):
                        k = sum(1 for n in SHADOWED if it.spec["binds"][w][n])
                        labs.append(f"binds:{w}:" + ("none" if k == 0 else "all" if k == 3 else "some"))
                    ctx.case(it.case(), it.nontrivial(), labels=labs)
                    ctx.sample(("nontrivial" if it.nontrivial() else "trivial") + f"/stale{min(it.stale_after, 1)}",
                               render_case(it.spec, it.history))
            finally:
                it.close()

    return TraceMachine


# informational probe (not part of the oracle): does a failed trace leave the global tracing
# state set, and does that change what happens later?
_PROBE = PRE + """
_CTL = {"on": False}

@guppy
def hi(x: int) -> int:
    return x * 2

@guppy.comptime
def f(x: nat) -> nat:
    if _CTL["on"]:
        raise KeyError("boom")
    return x + nat(1)

@guppy
def k() -> int:
    return comptime(hi(2))

@guppy
def main() -> nat:
    return f(nat(3))
"""


def tracing_state_probe():
    from guppylang_internals.tracing import state as ts

    from vlib import runner

    ts.reset_state()
    lm = runner.load_module(_PROBE)
    m = lm.mod
    res = {}

    def pycall():
        try:
            return "returned " + type(m.hi(2)).__name__
        except Exception as e:  # noqa: BLE001
            return f"raised {type(e).__name__}: {str(e)[:80]}"

    def obs(tag):
        o, pkg = runner.compile_def(m.main)
        res[tag] = {"tracing_active": ts.tracing_active(), "python_call_hi(2)": pycall(),
                    "check_k": runner.check_def(m.k).brief()[:160], "compile_main": o.kind}
        return pkg.to_bytes() if pkg is not None else None

    b0 = obs("clean")
    m._CTL["on"] = True
    o, _ = runner.compile_def(m.main)
    res["failing_compile"] = o.brief()[:80]
    m._CTL["on"] = False
    b1 = obs("after_failed_trace")
    res["correct_program_bytes_equal"] = b0 == b1
    ts.reset_state()
    lm.dispose()
    return res


def worker(ctx):
    if ctx.shard == 0:
        try:
            ctx.notes["tracing_state_probe"] = tracing_state_probe()
        except Exception as e:  # noqa: BLE001
            ctx.notes["tracing_state_probe"] = f"probe failed: {e!r}"
    machine = make_machine(ctx)
    n, chunk = ctx.params["n"], ctx.params.get("chunk", 30)
    failing_chunks = done = k = 0
    while done < n and not ctx.out_of_time(0.8) and failing_chunks < 2 and not (failing_chunks and ctx.out_of_time(0.25)):
        e = harness.run_machine(ctx, machine, max_examples=min(chunk, n - done), steps=ctx.params["steps"], extra_seed=k)
        done += chunk
        k += 1
        if e is None:
            continue
        failing_chunks += 1
        if isinstance(e, Mismatch):
            ctx.violation(e.bucket, e.case, e.detail)  # from the last (shrunk) execution
        else:
            import traceback

            ctx.harness_error("machine failed outside the oracle: " + "".join(
                traceback.format_exception(type(e), e, e.__traceback__))[-2500:])


SPEC = harness.Spec(
    PROP, worker, replay,
    rule=("Hypothesis RuleBasedStateMachine: each machine draws two generated modules (A imports B's functions); each module "
          "binds or not each of int/float/len (user function, user class, value, the builtin, Guppy's definition); 3-6 "
          "functions, mostly @guppy.comptime, with bodies using int()/float()/len()/isinstance, calling earlier comptime or "
          "guppy functions (same / other module), re-entering the compiler from inside a trace (guarded or not), raising "
          "ValueError/KeyError/user Exception/user BaseException/ZeroDivisionError or hitting a Guppy error at a drawn "
          "statement behind a toggleable switch. Rules: compile / compile_function / check any function, toggle a switch. "
          "One machine run = one case. non-trivial = history with >= 1 step that raised and >= 1 executed nested comptime "
          "call (call of / re-entrant compile of another function from inside a traced body) in a module that binds a "
          "shadowed name; distinct = distinct (modules, steps)"),
    assumptions=[
        "bodies never assign or delete module globals themselves, so any namespace change is the tracer's",
        "namespace equality = same key set and identical (`is`) values of module.__dict__ for both modules; key order is not compared",
        "every history starts from a clean global tracing state (reset_state()); inside a history a stale state persists",
        "call graphs are acyclic (a function only calls / re-enters earlier functions)",
    ],
    shards={"quick": 16, "thorough": 16},
    budget_s={"quick": 90, "thorough": 600},
    params={"quick": {"n": 60, "steps": 10, "chunk": 30}, "thorough": {"n": 1500, "steps": 20, "chunk": 100}},
    min_nontrivial=30,
)

if __name__ == "__main__":
    harness.main(SPEC)
