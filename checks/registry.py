"""Registry of claimed checks -> MANIFEST.json (run tools_gen_manifest.py)."""
SETUP_CMD = "/venv/bin/python setup_verif.py"
HOOKS = {
    "guard": "CQCL_GUPPYLANG_VERIF",
    "enable": "no source hooks are needed: checks import /repo's sources directly (PYTHONPATH front) through /verif/compat; the worklist schedule is injected from the harness side (DESIGN.md 2.7)",
    "baseline_off_cmd": "cd /repo && /venv/bin/python -m pytest -ra -q -p no:cacheprovider --timeout=900 --continue-on-collection-errors",
    "source_commits": [],
    "add_only": True,
}
NOTES = ("All checks run /repo's working-tree sources (guppylang 0.21.6) through /verif/compat, a third-party-side bridge to the "
         "hugr/tket-exts/selene versions installed in /venv (DESIGN.md 1.2). Exit 0 held / 1 VIOLATION / 2 harness problem. "
         "known_findings.json lists genuine defects (known / fixed).")
NOT_APPLICABLE = {}
REGISTRY = {
    "C30": {
        "technique": "exhaustive enumeration over a small grid + Hypothesis large coordinates vs interval-semantics oracle",
        "level_text": "every span/span and loc/span pair on a 3x4 grid in two files is enumerated exhaustively and compared with the closed-interval definitions of the statement; Hypothesis adds large coordinates. Exploration is the right level: the operators are total functions of 8 integers and the small grid already contains every order relation between the four endpoints.",
        "level_note": "oracle = interval definitions written from the property statement (touching spans intersect in an empty span); trusted: CPython tuple ordering",
    },
}
