"""Registry of claimed checks -> MANIFEST.json (run tools_gen_manifest.py)."""
SETUP_CMD = "/venv/bin/python setup_verif.py"
HOOKS = {
    "guard": "CQCL_GUPPYLANG_VERIF",
    "enable": "no source hooks are needed: checks import /repo's sources directly (PYTHONPATH front) through /verif/compat; the worklist schedule is injected from the harness side (DESIGN.md 2.7)",
    "baseline_off_cmd": "cd /repo && /venv/bin/python -m pytest -ra -q -p no:cacheprovider --timeout=900 --continue-on-collection-errors",
    "source_commits": [],
    "add_only": True,
}
NOTES = ("All checks run /repo's working-tree sources (guppylang 0.21.6) through /verif/compat, a third-party-side bridge to the "
         "hugr/tket-exts/selene versions installed in /venv (DESIGN.md 1.2). Exit 0 held / 1 VIOLATION / 2 harness problem. "
         "known_findings.json lists genuine defects (known / fixed).")
NOT_APPLICABLE = {}
REGISTRY = {
    "C30": {
        "technique": "exhaustive enumeration over a small grid + Hypothesis large coordinates vs interval-semantics oracle",
        "level_text": "every span/span and loc/span pair on a 3x4 grid in two files is enumerated exhaustively and compared with the closed-interval definitions of the statement; Hypothesis adds large coordinates. Exploration is the right level: the operators are total functions of 8 integers and the small grid already contains every order relation between the four endpoints.",
        "level_note": "oracle = interval definitions written from the property statement (touching spans intersect in an empty span); trusted: CPython tuple ordering",
    },
    "C23": {
        "technique": "Hypothesis RuleBasedStateMachine over generated two-module namespaces (user/builtin/Guppy/no bindings of int, float, len; comptime call graphs incl. re-entrant compiles and toggleable faults) with a before/after identity snapshot oracle on module.__dict__",
        "level_text": "each machine generates two modules whose int/float/len are unbound or bound (user function, class, value, the builtin, Guppy's definition) and 3-6 mostly @guppy.comptime functions that use the shadowed names, call each other within and across modules, re-enter the compiler from inside a trace, and raise Python exceptions (incl. a BaseException subclass) or Guppy errors at drawn statements behind toggleable switches; compile / compile_function / check run in any order and after every rule both modules' __dict__ must have the same keys bound to the identical objects. Exploration is the right level: the mechanism is a save/patch/restore of three names, and all binding kinds x success/raise x nested/not combinations are reached in the quick tier.",
        "level_note": "oracle = key set + `is` identity of a shallow snapshot (key order not compared); bodies never mutate globals themselves; stale tracing state after a failed trace (set_tracing_state without try/finally) is observed and recorded in evidence notes but belongs to C11, not flagged here; call graphs acyclic",
    },
    "C31": {
        "technique": "Hypothesis-generated type descriptions built into /repo's own type objects; print -> ast.parse -> type_from_ast round-trip oracle under the generated struct module's Globals, plus a binder/occurrence bijection oracle on printed generic function types",
        "level_text": "first-order ground types (depth 1-4) over int/nat/float/bool/str/None, tuples of length 0-5, array/frozenarray with nat lengths up to 10^30, Option and 11 @guppy.struct definitions (plain, Generic[T..], nat/bool/float const params, PEP 695 syntax) are printed with str() and read back as annotations with type_from_ast in the context the compiler uses for that module; equality with the original type is required. Rank-1 generic function types with up to 5 bound and 4 existential variables drawn from small name pools are printed and the variable tokens of binder and body are matched positionally against the known variable occurrences: variable <-> name must be a bijection. Exploration is the right level: printer and parser are small structural recursions over 8 constructors and ~10k cases per quick run cover every constructor pair at depth <= 2 many times.",
        "level_note": "oracle = round trip and name bijection as worded in the statement (no printed name is predicted). Two known findings (known_findings.json) are excluded from the search while their fixed probes fail: roundtrip.tuple1 and roundtrip.single_tuple_arg. Not claimed: types with function components in the round-trip half, negative/non-finite float const arguments (not writable as annotation), types with more than one quantifier. Trusted: CPython ast.parse, dataclass equality of /repo's type classes.",
    },
    "C33": {
        "technique": "Hypothesis RuleBasedStateMachine over the public gate API (calls, nested/exceptional with-blocks, check() of fresh gated/ungated programs) vs a stack-of-saved-values reference model",
        "level_text": "histories of plain enable()/disable() calls, LIFO-nested with-blocks (normal and exceptional __exit__) and check() of 11 gated programs (4 list shapes, 2 tensor positions, 2 closure shapes, 3 modifiers) + an ungated control are generated and shrunk by Hypothesis; after every step the process-global flag must equal the model and accept/reject (with the experimental-feature diagnostic) must follow the model; a fresh-process case checks the default-closed gate. Exploration is the right level: the state is one boolean plus a stack, and nesting depth <=4 with every rule interleaving is reached in the quick tier.",
        "level_note": "oracle written from the statement (stack model), not from experimental.py; closures' `Unsupported: Capturing closures` wording accepted as the gate's message; with-statement modelled as ctor+type.__enter__/type.__exit__; a context manager constructed early and entered later is outside the domain",
    },
}
