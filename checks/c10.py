"""C10 Compiler output and diagnostics are deterministic.

Domain: a seeded corpus of accepted programs (GenProg) and rejected programs (near-miss mutants,
deliberately including programs with >= 2 independent errors of the same kind).  Each corpus is
compiled in K fresh interpreters that differ in PYTHONHASHSEED and in heap layout (a drawn amount
of garbage allocated first), and in-process under drawn worklist schedules of the dataflow
analyses (a `set` subclass injected into cfg/analysis.py).  Oracle (metamorphic): identical
outcome class, identical sha-256 of Package.to_bytes() on success, identical rendered
diagnostic on failure."""
import hashlib
import json
import os
import subprocess
import sys

sys.path.insert(0, os.path.dirname(os.path.dirname(os.path.abspath(__file__))))
from vlib import harness  # noqa: E402

PROP = "C10"


# ----------------------------------------------------------------------------- child
class _Sched:
    mode = None  # None = builtin order; ("asc"|"desc"|"hash", salt)


def _install_sched():
    import guppylang_internals.cfg.analysis as an

    class SchedSet(set):
        def pop(self):
            if _Sched.mode is None:
                return set.pop(self)
            kind, salt = _Sched.mode
            def key(bb):
                i = getattr(bb, "idx", 0)
                if kind == "asc":
                    return i
                if kind == "desc":
                    return -i
                return int(hashlib.sha1(f"{salt}:{i}".encode()).hexdigest()[:8], 16)
            x = min(self, key=key)
            self.remove(x)
            return x

    # only hash-ordered worklists are schedule-dependent: the injection replaces the name `set` as
    # seen by cfg/analysis.py; a deterministic worklist class (as /repo now has) is left alone
    an.set = SchedSet


def compile_one(src, idx, prelude):
    from guppylang_internals.error import GuppyComptimeError, GuppyError

    from vlib import runner

    try:
        lm = runner.load_module(prelude + src, name=f"c10mod_{idx}")
    except BaseException as e:  # noqa: BLE001
        return ["pyerror", type(e).__name__]
    try:
        main = getattr(lm.mod, "main", None)
        if main is None or not hasattr(main, "compile"):
            return ["pyerror", "no-main"]
        try:
            with runner.quiet():
                pkg = main.compile()
        except GuppyError as e:
            try:
                return ["rejected", runner.render_error(e)]
            except BaseException as e2:  # noqa: BLE001
                return ["rejected", f"<render failed {type(e2).__name__}>"]
        except GuppyComptimeError as e:
            return ["rejected", "GuppyComptimeError: " + str(e)]
        except BaseException as e:  # noqa: BLE001
            if isinstance(e, (KeyboardInterrupt, SystemExit)):
                raise
            return ["crash", runner.crash_bucket(e)]
        b = pkg.to_bytes()
        j = json.dumps(pkg._to_serial().model_dump(mode="json"), sort_keys=False)
        return ["ok", hashlib.sha256(b).hexdigest(), hashlib.sha256(j.encode()).hexdigest()]
    finally:
        lm.dispose()


def child_main(corpus_path, out_path, garbage, sched, deadline=None):
    # heap layout: allocate a drawn amount of garbage (and keep part of it alive)
    keep = []
    for i in range(garbage):
        o = [object() for _ in range((i * 7) % 13 + 1)]
        if i % 3 == 0:
            keep.append(o)
    sys.path.insert(0, harness.VERIF)
    import compat

    compat.install()
    import c02  # noqa: E402  (prelude)

    from guppylang_internals.cfg.bb import BB  # noqa: F401

    dummies = [type("D", (), {})() for _ in range(garbage % 97)]
    _install_sched()
    if sched:
        _Sched.mode = tuple(sched)
    corpus = json.load(open(corpus_path))
    out = []
    import time

    for i, src in enumerate(corpus):
        if deadline is not None and time.time() > deadline:
            break  # time budget: the parent compares the common prefix only (inconclusive for the rest)
        out.append(compile_one(src, i, c02.PRELUDE_EXTRA))
    json.dump(out, open(out_path, "w"))
    del keep, dummies


# ----------------------------------------------------------------------------- parent side
def run_children(ctx, corpus, configs, tag, deadline=None):
    work = os.environ.get("VERIF_WORK") or os.path.join(harness.VERIF, ".work")
    os.makedirs(work, exist_ok=True)
    cpath = os.path.join(work, f"c10corpus_{ctx.shard}_{tag}.json")
    json.dump(corpus, open(cpath, "w"))
    outs = []
    procs = []
    for k, (hs, garbage, sched) in enumerate(configs):
        opath = os.path.join(work, f"c10out_{ctx.shard}_{tag}_{k}.json")
        env = dict(os.environ)
        env["PYTHONHASHSEED"] = str(hs)
        cmd = [sys.executable, os.path.abspath(__file__), "--child", cpath, opath, str(garbage), json.dumps(sched), json.dumps(deadline)]
        procs.append((opath, subprocess.Popen(cmd, env=env, stdout=subprocess.DEVNULL, stderr=subprocess.PIPE)))
    for op, p in procs:
        _, err = p.communicate()
        outs.append((op, p.returncode, err))
    results = []
    for (op, rc, err), cfg in zip(outs, configs):
        if rc != 0 or not os.path.exists(op):
            ctx.harness_error(f"child {cfg} failed rc={rc}: {err.decode()[-800:]}")
            results.append(None)
        else:
            results.append(json.load(open(op)))
            os.unlink(op)
    os.unlink(cpath)
    return results


def compare(ctx, corpus, meta, configs, results):
    ok = [r for r in results if r is not None]
    if len(ok) < 2:
        return
    n_common = min(len(r) for r in ok)
    if n_common < len(corpus):
        ctx.notes["time_budget_cut"] = f"{n_common}/{len(corpus)} programs compared (children stopped at the deadline)"
    for i, src in enumerate(corpus[:n_common]):
        outs = [r[i] for r in ok]
        first = outs[0]
        kind = first[0]
        nontrivial = meta[i]["nontrivial"]
        ctx.case(src, nontrivial, labels=["kind:" + kind] + meta[i]["labels"],
                 sample={"src": src[-500:], "outcome": kind, "configs": len(ok)} if nontrivial else None)
        diff = [(c, o) for c, o in zip(configs, outs) if o != first]
        if not diff:
            continue
        c2, o2 = diff[0]
        if o2[0] != kind:
            bucket = f"nondet.outcome.{kind}-{o2[0]}"
            detail = f"outcome {kind} under {configs[0]} but {o2[0]} under {c2}"
        elif kind == "ok":
            bucket = "nondet.hugr_bytes"
            detail = f"HUGR sha differs between {configs[0]} and {c2}: {first[1][:12]} vs {o2[1][:12]}"
        elif kind == "rejected":
            t1 = first[1].split("\n")[0]
            t2 = o2[1].split("\n")[0]
            bucket = "nondet.diagnostic." + (t1.split("(at")[0].strip().replace(" ", "_")[:40])
            detail = f"rendered diagnostic differs between {configs[0]} and {c2}:\n--- A\n{first[1][-700:]}\n--- B\n{o2[1][-700:]}"
        else:
            bucket = "nondet." + kind
            detail = f"{first} vs {o2}"
        ctx.violation(bucket, {"src": src, "configs": [list(map(str, configs[0])), list(map(str, c2))]}, detail + "\n--- program ---\n" + src[-1500:])


def replay(case):
    """re-run one program in fresh interpreters under PYTHONHASHSEED 0..7 and three schedules"""
    ctx = harness.Ctx(PROP, 99, 1, 1, "quick", 600, {})
    configs = [(h, 10 * h, None) for h in range(8)] + [(0, 0, ["asc", 0]), (0, 0, ["desc", 0]), (0, 0, ["hash", 5])]
    res = run_children(ctx, [case["src"]], configs, "replay")
    ok = [r[0] for r in res if r is not None]
    if len(set(json.dumps(o) for o in ok)) > 1:
        return ("nondet", f"{len(set(json.dumps(o) for o in ok))} distinct outcomes over {len(ok)} interpreters: "
                + " | ".join(sorted(set(json.dumps(o)[:200] for o in ok))))
    return None


def worker(ctx):
    from hypothesis import strategies as st

    from vlib.gen import mutate, prog

    @st.composite
    def item(draw):
        p = draw(prog.programs(n_funcs=(1, 2), max_depth=3, size=0.8))
        if draw(st.integers(0, 9)) < 5:
            return {"src": p["src"], "labels": ["accepted-gen"] + p["labels"], "nontrivial": bool(p["nontrivial"])}
        n = draw(st.sampled_from([2, 2, 3, 4]))
        src, labels = mutate.mutate(draw, p["src"], n)
        return {"src": src, "labels": ["mutant"] + ["mut:" + l.split(":")[0] for l in labels], "nontrivial": True}

    NAMES = ["alpha", "beta", "gamma", "delta", "x", "y", "z", "a", "b", "c", "foo", "bar", "baz", "qux", "i", "j", "k",
             "v1", "v2", "tmp", "left", "right", "acc", "n", "m"]
    TYPED = [("1", "1.5"), ("1", "True"), ("True", "2.5"), ("(1, 2)", "3"), ("1.5", "(1.5, 2)"), ("array(1)", "1")]

    @st.composite
    def multi(draw):
        """several independent errors of the SAME kind in one function: which one is reported must not
        depend on hash seed / heap layout / worklist order"""
        k = draw(st.integers(2, 4))
        names = draw(st.lists(st.sampled_from(NAMES), min_size=k, max_size=k, unique=True))
        uses = draw(st.permutations(names))
        kind = draw(st.sampled_from(["mistyped_if", "mistyped_loop", "maybe_undef", "undef_expr", "leak", "double_use",
                                     "two_funcs", "unsupported", "mistyped_elif", "maybe_undef_nested", "maybe_undef_nested"]))
        L = ["@guppy", "def main() -> None:", "    cnd_ = 1 > 0"]
        if kind in ("mistyped_if", "mistyped_elif"):
            tys = [draw(st.sampled_from(TYPED)) for _ in names]
            L.append("    if cnd_:")
            L += [f"        {n} = {t[0]}" for n, t in zip(names, tys)]
            if kind == "mistyped_elif":
                L.append("    elif 2 > 1:")
                L += [f"        {n} = {t[0]}" for n, t in zip(reversed(names), reversed(tys))]
            L.append("    else:")
            L += [f"        {n} = {t[1]}" for n, t in zip(draw(st.permutations(list(zip(names, tys)))) and names, tys)]
            L += [f"    u{i}_ = {n}" for i, n in enumerate(uses)]
        elif kind == "mistyped_loop":
            tys = [draw(st.sampled_from(TYPED)) for _ in names]
            L += [f"    {n} = {t[0]}" for n, t in zip(names, tys)]
            L.append("    while cnd_:")
            L += [f"        {n} = {t[1]}" for n, t in zip(names, tys)]
            L.append("        cnd_ = False")
            L += [f"    u{i}_ = {n}" for i, n in enumerate(uses)]
        elif kind == "maybe_undef":
            L.append("    if cnd_:")
            L += [f"        {n} = 1" for n in names]
            if draw(st.booleans()):
                L += [f"    u{i}_ = {n}" for i, n in enumerate(uses)]
            else:
                L.append("    u_ = " + " + ".join(uses))
        elif kind == "maybe_undef_nested":
            # one variable assigned under several nested / sequential branch points: the diagnostic's
            # "... if this expression is `False`" note has several candidate conditions to point at
            depth = draw(st.integers(2, 4))
            L = ["@guppy", "def main() -> None:"] + [f"    c{i}_ = {i + 1} > {i}" for i in range(depth)]
            shape = draw(st.sampled_from(["nested", "sequential", "mixed", "loop"]))
            x = names[0]
            if shape == "nested":
                for i in range(depth):
                    L.append("    " * (i + 1) + f"if c{i}_:")
                L.append("    " * (depth + 1) + f"{x} = 1")
            elif shape == "sequential":
                for i in range(depth):
                    L += [f"    if c{i}_:", f"        {x} = {i}"]
            elif shape == "mixed":
                L += ["    if c0_:", "        if c1_:", f"            {x} = 1", "    else:", "        if c1_:", f"            {x} = 2"]
            else:
                L += ["    while c0_:", "        if c1_:", f"            {x} = 1", "        c0_ = False"]
            L.append(f"    u_ = {x}")
        elif kind == "undef_expr":
            L.append("    u_ = " + " + ".join(n + "_undefined" for n in uses))
        elif kind == "leak":
            L += [f"    {n} = qubit()" for n in names]
            if draw(st.booleans()):
                L.append("    if cnd_:")
                L += [f"        discard({n})" for n in uses]
        elif kind == "double_use":
            L += [f"    {n} = qubit()" for n in names]
            L += [f"    discard({n})" for n in uses]
            L += [f"    h({n})" for n in draw(st.permutations(names))]
        elif kind == "two_funcs":
            pre = []
            for n in names:
                pre += ["@guppy", f"def f_{n}() -> int:", f"    return {n}_undefined", ""]
            L = pre + L + ["    r_ = " + " + ".join(f"f_{n}()" for n in uses)]
        else:
            snips = draw(st.permutations(["    import math", "    assert cnd_", "    aa_ = bb_ = 1", "    raise ValueError()",
                                          "    del cnd_"]))
            L += list(snips[:k])
        return {"src": "\n".join(L) + "\n", "labels": ["multi", "multi:" + kind], "nontrivial": True}

    @st.composite
    def item(draw):  # noqa: F811
        r = draw(st.integers(0, 9))
        if r < 3:
            return draw(multi())
        p = draw(prog.programs(n_funcs=(1, 2), max_depth=3, size=0.8))
        if r < 6:
            return {"src": p["src"], "labels": ["accepted-gen"] + p["labels"], "nontrivial": bool(p["nontrivial"])}
        n = draw(st.sampled_from([2, 2, 3, 4]))
        src, labels = mutate.mutate(draw, p["src"], n)
        return {"src": src, "labels": ["mutant"] + ["mut:" + l.split(":")[0] for l in labels], "nontrivial": True}

    corpus, meta = [], []

    def body(it):
        corpus.append(it["src"])
        meta.append(it)

    harness.hyp_search(ctx, item(), body, max_examples=ctx.params["n"], chunk=20, time_frac=0.25)

    # interpreter configurations: a pure function of (VERIF_SEED, shard)
    def derived(i, mod):
        return ctx.shard_seed(("cfg", i)) % mod

    hs = [0, 1, 2] + [3 + derived(i, 4_000_000_000) for i in range(ctx.params["k"] - 3)]
    configs = [(h, derived(100 + i, 5000) if i else 0, None) for i, h in enumerate(hs)]
    configs += [(0, 0, ["desc", 0]), (0, derived(7, 3000), ["hash", derived(8, 10**6)])]
    import time

    results = run_children(ctx, corpus, configs, "main", deadline=time.time() + max(10.0, (ctx.budget_s - ctx.elapsed()) * 0.8))
    compare(ctx, corpus, meta, configs, results)
    ctx.notes["configs"] = [list(map(str, c)) for c in configs]


SPEC = harness.Spec(
    PROP, worker, replay,
    rule=("per shard a corpus of generated programs (half accepted GenProg programs, half 2-4-fold near-miss mutants incl. snippets with "
          "two or three variables mistyped / undefined at one join and several leaked qubits) is compiled in K fresh interpreters with "
          "PYTHONHASHSEED 0,1,2 + drawn values and drawn amounts of pre-allocated garbage, plus two interpreters with injected "
          "worklist schedules (descending / hashed block order; only effective while cfg/analysis.py uses hash-ordered sets); outcomes must be identical. non-trivial = accepted program "
          "with a loop or >=2 joins, or any multi-mutation mutant; distinct = distinct source; evaluations = programs (each compiled in "
          "all K+2 configurations)"),
    assumptions=["identity-hash iteration orders are reached through heap-layout perturbation (garbage) and directly through the injected worklist schedule",
                 "module names and compile order are identical in all interpreters so that definition ids agree"],
    shards={"quick": 3, "thorough": 3},
    budget_s={"quick": 120, "thorough": 900},
    params={"quick": {"n": 80, "k": 4}, "thorough": {"n": 1500, "k": 6}},
    min_nontrivial=60,
    needs_guppy=False,
)

if __name__ == "__main__":
    if len(sys.argv) > 1 and sys.argv[1] == "--child":
        sys.path.insert(0, os.path.dirname(os.path.abspath(__file__)))
        child_main(sys.argv[2], sys.argv[3], int(sys.argv[4]), json.loads(sys.argv[5]),
                   json.loads(sys.argv[6]) if len(sys.argv) > 6 else None)
        sys.exit(0)
    harness.main(SPEC)
