"""C10 Compiler output and diagnostics are deterministic.

Domain: a seeded corpus of accepted programs (GenProg), rejected programs (near-miss mutants,
deliberately including programs with >= 2 independent errors of the same kind) and a "comptime" family:
programs that embed Python values (`comptime(V)` / `py(V)` over representable and unrepresentable
module-level values, in synthesised / checked / argument / operand positions), call functions with
`T @ comptime` parameters (str, int, bool, float, tuple, generic; monomorphised per argument tuple, also
through each other), or put several comptime parameters on an entry point / a declaration.  Each corpus is
compiled in K fresh interpreters that differ in PYTHONHASHSEED and in heap layout (a drawn amount
of garbage allocated first), and in-process under drawn worklist schedules of the dataflow
analyses (a `set` subclass injected into cfg/analysis.py).  Oracle (metamorphic): identical
outcome class, identical sha-256 of Package.to_bytes() on success, identical rendered
diagnostic on failure."""
import hashlib
import json
import os
import subprocess
import sys

sys.path.insert(0, os.path.dirname(os.path.dirname(os.path.abspath(__file__))))
from vlib import harness  # noqa: E402

PROP = "C10"


# ----------------------------------------------------------------------------- child
class _Sched:
    mode = None  # None = builtin order; ("asc"|"desc"|"hash", salt)


def _install_sched():
    import guppylang_internals.cfg.analysis as an

    class SchedSet(set):
        def pop(self):
            if _Sched.mode is None:
                return set.pop(self)
            kind, salt = _Sched.mode
            def key(bb):
                i = getattr(bb, "idx", 0)
                if kind == "asc":
                    return i
                if kind == "desc":
                    return -i
                return int(hashlib.sha1(f"{salt}:{i}".encode()).hexdigest()[:8], 16)
            x = min(self, key=key)
            self.remove(x)
            return x

    # only hash-ordered worklists are schedule-dependent: the injection replaces the name `set` as
    # seen by cfg/analysis.py; a deterministic worklist class (as /repo now has) is left alone
    an.set = SchedSet


def compile_one(src, idx, prelude):
    from guppylang_internals.error import GuppyComptimeError, GuppyError

    from vlib import runner

    try:
        lm = runner.load_module(prelude + src, name=f"c10mod_{idx}")
    except BaseException as e:  # noqa: BLE001
        return ["pyerror", type(e).__name__]
    try:
        main = getattr(lm.mod, "main", None)
        if main is None or not hasattr(main, "compile"):
            return ["pyerror", "no-main"]
        try:
            with runner.quiet():
                pkg = main.compile()
        except GuppyError as e:
            try:
                return ["rejected", runner.render_error(e)]
            except BaseException as e2:  # noqa: BLE001
                return ["rejected", f"<render failed {type(e2).__name__}>"]
        except GuppyComptimeError as e:
            return ["rejected", "GuppyComptimeError: " + str(e)]
        except BaseException as e:  # noqa: BLE001
            if isinstance(e, (KeyboardInterrupt, SystemExit)):
                raise
            return ["crash", runner.crash_bucket(e)]
        b = pkg.to_bytes()
        j = json.dumps(pkg._to_serial().model_dump(mode="json"), sort_keys=False)
        return ["ok", hashlib.sha256(b).hexdigest(), hashlib.sha256(j.encode()).hexdigest()]
    finally:
        lm.dispose()


def child_main(corpus_path, out_path, garbage, sched, deadline=None):
    # heap layout: allocate a drawn amount of garbage (and keep part of it alive)
    keep = []
    for i in range(garbage):
        o = [object() for _ in range((i * 7) % 13 + 1)]
        if i % 3 == 0:
            keep.append(o)
    sys.path.insert(0, harness.VERIF)
    import compat

    compat.install()
    import c02  # noqa: E402  (prelude)

    from guppylang_internals.cfg.bb import BB  # noqa: F401

    dummies = [type("D", (), {})() for _ in range(garbage % 97)]
    _install_sched()
    if sched:
        _Sched.mode = tuple(sched)
    corpus = json.load(open(corpus_path))
    out = []
    import time

    for i, src in enumerate(corpus):
        if deadline is not None and time.time() > deadline:
            break  # time budget: the parent compares the common prefix only (inconclusive for the rest)
        out.append(compile_one(src, i, c02.PRELUDE_EXTRA))
    json.dump(out, open(out_path, "w"))
    del keep, dummies


# ----------------------------------------------------------------------------- parent side
def run_children(ctx, corpus, configs, tag, deadline=None):
    work = os.environ.get("VERIF_WORK") or os.path.join(harness.VERIF, ".work")
    os.makedirs(work, exist_ok=True)
    cpath = os.path.join(work, f"c10corpus_{ctx.shard}_{tag}.json")
    json.dump(corpus, open(cpath, "w"))
    outs = []
    procs = []
    for k, (hs, garbage, sched) in enumerate(configs):
        opath = os.path.join(work, f"c10out_{ctx.shard}_{tag}_{k}.json")
        env = dict(os.environ)
        env["PYTHONHASHSEED"] = str(hs)
        cmd = [sys.executable, os.path.abspath(__file__), "--child", cpath, opath, str(garbage), json.dumps(sched), json.dumps(deadline)]
        procs.append((opath, subprocess.Popen(cmd, env=env, stdout=subprocess.DEVNULL, stderr=subprocess.PIPE)))
    for op, p in procs:
        _, err = p.communicate()
        outs.append((op, p.returncode, err))
    results = []
    for (op, rc, err), cfg in zip(outs, configs):
        if rc != 0 or not os.path.exists(op):
            ctx.harness_error(f"child {cfg} failed rc={rc}: {err.decode()[-800:]}")
            results.append(None)
        else:
            results.append(json.load(open(op)))
            os.unlink(op)
    os.unlink(cpath)
    return results


def compare(ctx, corpus, meta, configs, results):
    ok = [r for r in results if r is not None]
    if len(ok) < 2:
        return
    n_common = min(len(r) for r in ok)
    if n_common < len(corpus):
        ctx.notes["time_budget_cut"] = f"{n_common}/{len(corpus)} programs compared (children stopped at the deadline)"
    for i, src in enumerate(corpus[:n_common]):
        outs = [r[i] for r in ok]
        first = outs[0]
        kind = first[0]
        nontrivial = meta[i]["nontrivial"]
        ctx.case(src, nontrivial, labels=["kind:" + kind] + meta[i]["labels"],
                 sample={"src": src[-500:], "outcome": kind, "configs": len(ok)} if nontrivial else None)
        diff = [(c, o) for c, o in zip(configs, outs) if o != first]
        if not diff:
            continue
        c2, o2 = diff[0]
        if o2[0] != kind:
            bucket = f"nondet.outcome.{kind}-{o2[0]}"
            detail = f"outcome {kind} under {configs[0]} but {o2[0]} under {c2}"
        elif kind == "ok":
            bucket = "nondet.hugr_bytes"
            detail = f"HUGR sha differs between {configs[0]} and {c2}: {first[1][:12]} vs {o2[1][:12]}"
        elif kind == "rejected":
            t1 = first[1].split("\n")[0]
            t2 = o2[1].split("\n")[0]
            bucket = "nondet.diagnostic." + (t1.split("(at")[0].strip().replace(" ", "_")[:40])
            detail = f"rendered diagnostic differs between {configs[0]} and {c2}:\n--- A\n{first[1][-700:]}\n--- B\n{o2[1][-700:]}"
        else:
            bucket = "nondet." + kind
            detail = f"{first} vs {o2}"
        ctx.violation(bucket, {"src": src, "configs": [list(map(str, configs[0])), list(map(str, c2))]}, detail + "\n--- program ---\n" + src[-1500:])


def replay(case):
    """re-run one program in fresh interpreters under PYTHONHASHSEED 0..7 and three schedules"""
    ctx = harness.Ctx(PROP, 99, 1, 1, "quick", 600, {})
    configs = [(h, 10 * h, None) for h in range(8)] + [(0, 0, ["asc", 0]), (0, 0, ["desc", 0]), (0, 0, ["hash", 5])]
    res = run_children(ctx, [case["src"]], configs, "replay")
    ok = [r[0] for r in res if r is not None]
    if len(set(json.dumps(o) for o in ok)) > 1:
        return ("nondet", f"{len(set(json.dumps(o) for o in ok))} distinct outcomes over {len(ok)} interpreters: "
                + " | ".join(sorted(set(json.dumps(o)[:200] for o in ok))))
    return None


# ----------------------------------------------------------------------------- comptime family
# Programs whose compilation involves *Python values*: `comptime(V)` / `py(V)` expressions over module-level
# values (representable ones and ones Guppy rejects: class instances, functions, sets of strings, ...) in
# synthesised / checked / argument / operand positions, and functions with `T @ comptime` parameters
# (str, int, bool, float, tuples, generic) that are monomorphised per call site, nested through other
# monomorphised functions.  Nothing here is specific to one diagnostic: the oracle stays "same program =>
# same bytes / same rendered diagnostic in every interpreter".
CT_WORDS = ["alpha", "beta", "gamma", "delta", "cx", "rz", "h", "measure", "reset", "tag", "q0", "out", "left", "right",
            "zz", "phase", "kappa", "lam"]
CT_PRE = ('import builtins as py_  # guppylang.std.builtins shadows frozenset/object/range/...\nimport math\n'
          'T_ = guppy.type_var("T_", copyable=True, droppable=True)\n\n\n'
          'class K_:\n    def __init__(self, v):\n        self.v = v\n\n    def meth(self):\n        return self.v\n\n\n'
          'def pyfn_(v):\n    return v\n\n\n'
          '@guppy\ndef ident_(v: T_) -> T_:\n    return v\n\n\n')
CT_SCALARS = ["str", "int", "bool", "float"]
CT_PARAM_TYPES = ["str", "str", "int", "bool", "float", "tuple[int, str]", "T_"]


def comptime_family(st):
    def lit(draw, ty):
        """source of a Python literal of Guppy type `ty`"""
        if ty == "str":
            return repr(draw(st.sampled_from(CT_WORDS)))
        if ty == "int":
            return str(draw(st.integers(-9, 40)))
        if ty == "bool":
            return str(draw(st.booleans()))
        if ty == "float":
            return repr(draw(st.sampled_from([0.25, 1.5, -2.0, 3.75, 10.0, 0.5])))
        if ty == "tuple[int, str]":
            return f"({lit(draw, 'int')}, {lit(draw, 'str')})"
        if ty == "tuple[str, str]":
            return f"({lit(draw, 'str')}, {lit(draw, 'str')})"
        raise AssertionError(ty)

    def strset(draw):
        ws = draw(st.lists(st.sampled_from(CT_WORDS), min_size=3, max_size=6, unique=True))
        return "{" + ", ".join(repr(w) for w in ws) + "}"

    def supported(draw):
        ty = draw(st.sampled_from(["str", "str", "int", "bool", "float", "tuple[int, str]", "tuple[str, str]", "list"]))
        if ty == "list":
            ety = draw(st.sampled_from(["float", "int", "bool"]))
            k = draw(st.integers(1, 4))
            return "[" + ", ".join(lit(draw, ety) for _ in range(k)) + "]", None, "val:list"
        return lit(draw, ty), ty, "val:" + ty.split("[")[0]

    def unsupported(draw):
        cls = draw(st.sampled_from(["addr", "addr", "strhash", "strhash", "stable"]))
        if cls == "addr":  # values whose default repr carries an address
            e = draw(st.sampled_from(["K_(1)", "K_(2).meth", "pyfn_", "lambda v: v", "py_.object()", "(K_(1), 2)", "[K_(3)]",
                                      "(w for w in ())", "{'k': K_(4)}"]))
        elif cls == "strhash":  # values whose repr iterates a string-hashed container
            s = strset(draw)
            e = draw(st.sampled_from(["{s}", "py_.frozenset({s})", "(1, {s})", "[{s}]", "{{'k': {s}}}"])).format(s=s)
        else:
            e = draw(st.sampled_from(["{1, 2, 3}", "{'a': 1}", "K_", "math", "b'xy'", "1j", "py_.range(3)", "[1, 'a']", "2 ** 70"]))
        return e, None, "val:unsupported-" + cls

    def use_param(p, ty, k):
        """statements (indented 4) that use comptime parameter `p` on the int accumulator `x`"""
        if ty == "str":
            return [f"    result({p}, x)"]
        if ty == "int":
            return [f"    x = x + {p}"]
        if ty == "bool":
            return [f"    if {p}:", "        x = x + 1"]
        if ty == "float":
            return [f"    if {p} > 0.5:", "        x = x + 2"]
        if ty == "tuple[int, str]":
            return [f"    u{k}_, w{k}_ = {p}", f"    x = x + u{k}_"]
        return [f"    g{k}_ = {p}"]

    @st.composite
    def build(draw):
        mode = draw(st.sampled_from(["accepted"] * 4 + ["rejected"] * 4 + ["entry_mono", "decl_mono"]))
        labels = ["comptime", "comptime:" + mode]
        if mode in ("entry_mono", "decl_mono"):
            # an entry point / a declaration may not be generic over comptime values: with several such
            # parameters the one named in the diagnostic must not depend on the interpreter run
            k = draw(st.integers(1, 4))
            names = draw(st.lists(st.sampled_from(CT_WORDS), min_size=k, max_size=k, unique=True))
            tys = [draw(st.sampled_from(CT_SCALARS + ["nat"])) for _ in names]
            sig = [f"{n}: {t} @ comptime" for n, t in zip(names, tys)]
            if mode == "entry_mono":
                src = f"@guppy\ndef main({', '.join(sig)}) -> None:\n    pass\n"
            else:
                args = [lit(draw, "int").lstrip("-") if t == "nat" else lit(draw, t) for t in tys]
                if draw(st.booleans()):
                    sig, args = ["x: int"] + sig, ["1"] + args
                src = (f"@guppy.declare\ndef ext_({', '.join(sig)}) -> None: ...\n\n\n"
                       f"@guppy\ndef main() -> None:\n    ext_({', '.join(args)})\n")
            return {"src": src, "labels": labels + ["ct:mono-params-" + ("1" if k == 1 else "2+")], "nontrivial": True}

        # --- module-level Python values
        vals = []  # (name, ty|None, unsupported?)
        L = []
        nv = draw(st.integers(2, 5))
        for i in range(nv):
            want_bad = mode == "rejected" and (i == 0 or draw(st.integers(0, 2)) == 0)
            e, ty, lab = (unsupported if want_bad else supported)(draw)
            vals.append((f"V{i}_", ty, want_bad))
            L.append(f"V{i}_ = {e}")
            labels.append(lab)
        L += ["", ""]
        good = [v for v in vals if not v[2]]

        def arg_for(ty, own=()):
            """a call argument for a comptime parameter of type `ty`"""
            if mode == "rejected" and draw(st.integers(0, 5)) == 0:
                return f"comptime({draw(st.sampled_from(vals))[0]})"  # any value: maybe unsupported / mistyped
            cands = [p for p, t in own if t == ty or (ty == "T_" and t in CT_SCALARS)]
            if cands and draw(st.booleans()):
                return draw(st.sampled_from(cands))  # pass the caller's own comptime parameter through
            want = draw(st.sampled_from(CT_SCALARS)) if ty == "T_" else ty
            vs = [v for v in good if v[1] == want]
            r = draw(st.integers(0, 3))
            if vs and r == 0:
                return f"comptime({draw(st.sampled_from(vs))[0]})"
            if r == 1 or want.startswith("tuple"):
                return f"comptime({lit(draw, want)})"
            return lit(draw, want)

        # --- functions with comptime parameters (monomorphised per distinct argument tuple)
        helpers = []  # (name, [param types])
        for i in range(draw(st.integers(1, 3))):
            ptys = draw(st.lists(st.sampled_from(CT_PARAM_TYPES), min_size=1, max_size=3))
            ptys = [t if t != "T_" or "T_" not in ptys[:k] else "str" for k, t in enumerate(ptys)]  # one generic at most
            own = [(f"p{i}{k}", t) for k, t in enumerate(ptys)]
            order = draw(st.permutations(["x: int"] + [f"{p}: {t} @ comptime" for p, t in own]))
            L += ["@guppy", f"def h{i}_({', '.join(order)}) -> int:"]
            for k, (p, t) in enumerate(own):
                L += use_param(p, t, k)
            if helpers and draw(st.booleans()):
                j = draw(st.integers(0, len(helpers) - 1))
                args = [("x" if a == "x" else arg_for(a, own)) for a in helpers[j][1]]
                L.append(f"    x = h{j}_({', '.join(args)})")
            L += ["    return x", "", ""]
            helpers.append((f"h{i}_", ["x" if o == "x: int" else o.split(": ")[1].split(" @")[0] for o in order]))
            if "str" in ptys:
                labels.append("ct:str-mono")

        # --- main: statements around comptime(...) expressions
        M = ["@guppy", "def main() -> None:", "    x = 1"]
        pre = []
        pool = vals if mode == "rejected" else good
        for i in range(draw(st.integers(2, 6))):
            kind = draw(st.sampled_from(["call", "call", "call", "bind", "py", "tuple", "ident", "annot", "ret", "op", "bare"]))
            v, vty, _bad = draw(st.sampled_from(pool))
            if kind == "call":
                name, ptys = draw(st.sampled_from(helpers))
                M.append(f"    x = {name}({', '.join('x' if a == 'x' else arg_for(a) for a in ptys)})")
            elif kind == "bind":
                M.append(f"    a{i}_ = comptime({v})")
            elif kind == "py":
                M.append(f"    a{i}_ = py({v})")
            elif kind == "tuple":
                M.append(f"    a{i}_ = (comptime({v}), {i})")
            elif kind == "ident":
                M.append(f"    a{i}_ = ident_(comptime({v}))")
            elif kind == "bare":
                M.append(f"    comptime({v})")
            elif kind in ("annot", "ret"):
                ty = vty  # accepted mode: the value's own type; rejected mode: often another one
                if mode == "rejected" and (ty is None or draw(st.booleans())):
                    ty = draw(st.sampled_from(CT_SCALARS))
                if ty is None:
                    M.append(f"    a{i}_ = comptime({v})")
                elif kind == "annot":
                    M.append(f"    a{i}_: {ty} = comptime({v})")
                else:
                    pre += ["@guppy", f"def r{i}_() -> {ty}:", f"    return comptime({v})", "", ""]
                    M.append(f"    a{i}_ = r{i}_()")
            else:
                ty = vty if mode == "accepted" else draw(st.sampled_from(CT_SCALARS))
                if ty == "int":
                    M.append(f"    x = x + comptime({v})")
                elif ty == "bool":
                    M += [f"    if comptime({v}):", "        x = x + 1"]
                elif ty == "float":
                    M.append(f"    result({draw(st.sampled_from(CT_WORDS))!r}, comptime({v}))")
                elif ty == "str":
                    M.append(f"    result(comptime({v}), x)")
                else:
                    M.append(f"    a{i}_ = comptime({v})")
        M.append("    result('out', x)")
        src = CT_PRE + "\n".join(L + pre + M) + "\n"
        return {"src": src, "labels": sorted(set(labels)), "nontrivial": True}

    return build()


def worker(ctx):
    from hypothesis import strategies as st

    from vlib.gen import mutate, prog

    @st.composite
    def item(draw):
        p = draw(prog.programs(n_funcs=(1, 2), max_depth=3, size=0.8))
        if draw(st.integers(0, 9)) < 5:
            return {"src": p["src"], "labels": ["accepted-gen"] + p["labels"], "nontrivial": bool(p["nontrivial"])}
        n = draw(st.sampled_from([2, 2, 3, 4]))
        src, labels = mutate.mutate(draw, p["src"], n)
        return {"src": src, "labels": ["mutant"] + ["mut:" + l.split(":")[0] for l in labels], "nontrivial": True}

    NAMES = ["alpha", "beta", "gamma", "delta", "x", "y", "z", "a", "b", "c", "foo", "bar", "baz", "qux", "i", "j", "k",
             "v1", "v2", "tmp", "left", "right", "acc", "n", "m"]
    TYPED = [("1", "1.5"), ("1", "True"), ("True", "2.5"), ("(1, 2)", "3"), ("1.5", "(1.5, 2)"), ("array(1)", "1")]

    @st.composite
    def multi(draw):
        """several independent errors of the SAME kind in one function: which one is reported must not
        depend on hash seed / heap layout / worklist order"""
        k = draw(st.integers(2, 4))
        names = draw(st.lists(st.sampled_from(NAMES), min_size=k, max_size=k, unique=True))
        uses = draw(st.permutations(names))
        kind = draw(st.sampled_from(["mistyped_if", "mistyped_loop", "maybe_undef", "undef_expr", "leak", "double_use",
                                     "two_funcs", "unsupported", "mistyped_elif", "maybe_undef_nested", "maybe_undef_nested"]))
        L = ["@guppy", "def main() -> None:", "    cnd_ = 1 > 0"]
        if kind in ("mistyped_if", "mistyped_elif"):
            tys = [draw(st.sampled_from(TYPED)) for _ in names]
            L.append("    if cnd_:")
            L += [f"        {n} = {t[0]}" for n, t in zip(names, tys)]
            if kind == "mistyped_elif":
                L.append("    elif 2 > 1:")
                L += [f"        {n} = {t[0]}" for n, t in zip(reversed(names), reversed(tys))]
            L.append("    else:")
            L += [f"        {n} = {t[1]}" for n, t in zip(draw(st.permutations(list(zip(names, tys)))) and names, tys)]
            L += [f"    u{i}_ = {n}" for i, n in enumerate(uses)]
        elif kind == "mistyped_loop":
            tys = [draw(st.sampled_from(TYPED)) for _ in names]
            L += [f"    {n} = {t[0]}" for n, t in zip(names, tys)]
            L.append("    while cnd_:")
            L += [f"        {n} = {t[1]}" for n, t in zip(names, tys)]
            L.append("        cnd_ = False")
            L += [f"    u{i}_ = {n}" for i, n in enumerate(uses)]
        elif kind == "maybe_undef":
            L.append("    if cnd_:")
            L += [f"        {n} = 1" for n in names]
            if draw(st.booleans()):
                L += [f"    u{i}_ = {n}" for i, n in enumerate(uses)]
            else:
                L.append("    u_ = " + " + ".join(uses))
        elif kind == "maybe_undef_nested":
            # one variable assigned under several nested / sequential branch points: the diagnostic's
            # "... if this expression is `False`" note has several candidate conditions to point at
            depth = draw(st.integers(2, 4))
            L = ["@guppy", "def main() -> None:"] + [f"    c{i}_ = {i + 1} > {i}" for i in range(depth)]
            shape = draw(st.sampled_from(["nested", "sequential", "mixed", "loop"]))
            x = names[0]
            if shape == "nested":
                for i in range(depth):
                    L.append("    " * (i + 1) + f"if c{i}_:")
                L.append("    " * (depth + 1) + f"{x} = 1")
            elif shape == "sequential":
                for i in range(depth):
                    L += [f"    if c{i}_:", f"        {x} = {i}"]
            elif shape == "mixed":
                L += ["    if c0_:", "        if c1_:", f"            {x} = 1", "    else:", "        if c1_:", f"            {x} = 2"]
            else:
                L += ["    while c0_:", "        if c1_:", f"            {x} = 1", "        c0_ = False"]
            L.append(f"    u_ = {x}")
        elif kind == "undef_expr":
            L.append("    u_ = " + " + ".join(n + "_undefined" for n in uses))
        elif kind == "leak":
            L += [f"    {n} = qubit()" for n in names]
            if draw(st.booleans()):
                L.append("    if cnd_:")
                L += [f"        discard({n})" for n in uses]
        elif kind == "double_use":
            L += [f"    {n} = qubit()" for n in names]
            L += [f"    discard({n})" for n in uses]
            L += [f"    h({n})" for n in draw(st.permutations(names))]
        elif kind == "two_funcs":
            pre = []
            for n in names:
                pre += ["@guppy", f"def f_{n}() -> int:", f"    return {n}_undefined", ""]
            L = pre + L + ["    r_ = " + " + ".join(f"f_{n}()" for n in uses)]
        else:
            snips = draw(st.permutations(["    import math", "    assert cnd_", "    aa_ = bb_ = 1", "    raise ValueError()",
                                          "    del cnd_"]))
            L += list(snips[:k])
        return {"src": "\n".join(L) + "\n", "labels": ["multi", "multi:" + kind], "nontrivial": True}

    ct = comptime_family(st)

    @st.composite
    def item(draw):  # noqa: F811
        r = draw(st.integers(0, 13))
        if r < 3:
            return draw(multi())
        if r >= 10:
            return draw(ct)
        p = draw(prog.programs(n_funcs=(1, 2), max_depth=3, size=0.8))
        if r < 6:
            return {"src": p["src"], "labels": ["accepted-gen"] + p["labels"], "nontrivial": bool(p["nontrivial"])}
        n = draw(st.sampled_from([2, 2, 3, 4]))
        src, labels = mutate.mutate(draw, p["src"], n)
        return {"src": src, "labels": ["mutant"] + ["mut:" + l.split(":")[0] for l in labels], "nontrivial": True}

    corpus, meta = [], []

    def body(it):
        corpus.append(it["src"])
        meta.append(it)

    harness.hyp_search(ctx, item(), body, max_examples=ctx.params["n"], chunk=20, time_frac=0.25)

    # interpreter configurations: a pure function of (VERIF_SEED, shard)
    def derived(i, mod):
        return ctx.shard_seed(("cfg", i)) % mod

    hs = [0, 1, 2] + [3 + derived(i, 4_000_000_000) for i in range(ctx.params["k"] - 3)]
    configs = [(h, derived(100 + i, 5000) if i else 0, None) for i, h in enumerate(hs)]
    configs += [(0, 0, ["desc", 0]), (0, derived(7, 3000), ["hash", derived(8, 10**6)])]
    import time

    results = run_children(ctx, corpus, configs, "main", deadline=time.time() + max(10.0, (ctx.budget_s - ctx.elapsed()) * 0.8))
    compare(ctx, corpus, meta, configs, results)
    ctx.notes["configs"] = [list(map(str, c)) for c in configs]


SPEC = harness.Spec(
    PROP, worker, replay,
    rule=("per shard a corpus of generated programs (3/14 snippets with two to four variables mistyped / undefined at one join or several "
          "leaked qubits, 3/14 accepted GenProg programs, 4/14 2-4-fold near-miss mutants, 4/14 comptime family: accepted programs whose "
          "functions are monomorphised over str/int/bool/float/tuple/generic comptime arguments and that embed Python values, rejected "
          "programs whose first error concerns a comptime(...) value - class instances, functions, sets of strings, mistyped values - "
          "and entry points / declarations with 1-4 comptime parameters) is compiled in K fresh interpreters with "
          "PYTHONHASHSEED 0,1,2 + drawn values and drawn amounts of pre-allocated garbage, plus two interpreters with injected "
          "worklist schedules (descending / hashed block order; only effective while cfg/analysis.py uses hash-ordered sets); outcomes must be identical. non-trivial = accepted program "
          "with a loop or >=2 joins, or any multi-mutation mutant; distinct = distinct source; evaluations = programs (each compiled in "
          "all K+2 configurations)"),
    assumptions=["identity-hash iteration orders are reached through heap-layout perturbation (garbage) and directly through the injected worklist schedule",
                 "module names and compile order are identical in all interpreters so that definition ids agree"],
    shards={"quick": 3, "thorough": 3},
    budget_s={"quick": 120, "thorough": 900},
    params={"quick": {"n": 100, "k": 4}, "thorough": {"n": 1500, "k": 6}},
    min_nontrivial=60,
    needs_guppy=False,
)

if __name__ == "__main__":
    if len(sys.argv) > 1 and sys.argv[1] == "--child":
        sys.path.insert(0, os.path.dirname(os.path.abspath(__file__)))
        child_main(sys.argv[2], sys.argv[3], int(sys.argv[4]), json.loads(sys.argv[5]),
                   json.loads(sys.argv[6]) if len(sys.argv) > 6 else None)
        sys.exit(0)
    harness.main(SPEC)
