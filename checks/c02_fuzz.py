"""Coverage-guided campaign for C02 (thorough tier): atheris (libFuzzer) drives the same Hypothesis
mutant strategy as checks/c02.py through `fuzz_one_input`, with guppylang_internals instrumented for
coverage.  Findings are appended to a JSON-lines file (the target never crashes, so the campaign
continues behind a finding).  usage: c02_fuzz.py <out.jsonl> <seconds> <seed> <corpus_dir>"""
import json
import os
import sys
import time

HERE = os.path.dirname(os.path.abspath(__file__))
VERIF = os.path.dirname(HERE)
sys.path.insert(0, os.path.join(VERIF, ".deps"))
sys.path.insert(0, VERIF)
sys.path.insert(0, HERE)

import atheris  # noqa: E402

out_path, seconds, seed, corpus = sys.argv[1], int(sys.argv[2]), int(sys.argv[3]), sys.argv[4]

with atheris.instrument_imports(include=["guppylang_internals"]):
    import compat

    compat.install()
    import guppylang_internals.checker.expr_checker  # noqa: F401
    import guppylang_internals.checker.stmt_checker  # noqa: F401
    import guppylang_internals.checker.linearity_checker  # noqa: F401
    import guppylang_internals.cfg.builder  # noqa: F401
    import guppylang_internals.compiler.expr_compiler  # noqa: F401
    import guppylang_internals.tys.parsing  # noqa: F401

import c02  # noqa: E402
from hypothesis import HealthCheck, given, settings  # noqa: E402
from hypothesis import strategies as st  # noqa: E402

from vlib.gen import mutate, prog  # noqa: E402


@st.composite
def mutants(draw):
    p = draw(prog.programs(n_funcs=(1, 2), max_depth=2, size=0.6))
    n = draw(st.sampled_from([1, 1, 1, 2, 2, 3]))
    src, labels = mutate.mutate(draw, p["src"], n)
    return {"src": src, "labels": labels}


state = {"n": 0, "rejected": 0, "ok": 0, "seen": set(), "t0": time.time()}


@settings(database=None, deadline=None, suppress_health_check=list(HealthCheck), max_examples=10**9)
@given(mutants())
def target(m):
    st_, bucket, detail = c02.evaluate(m["src"])
    state["n"] += 1
    if st_ == "rejected":
        state["rejected"] += 1
    elif st_ == "ok":
        state["ok"] += 1
    elif st_ == "violation":
        key = bucket
        if key not in state["seen"]:
            state["seen"].add(key)
            with open(out_path, "a") as f:
                f.write(json.dumps({"bucket": bucket, "src": m["src"], "detail": detail}) + "\n")
    if state["n"] % 50 == 0:
        with open(out_path + ".stats", "w") as f:
            json.dump({"execs": state["n"], "rejected": state["rejected"], "ok": state["ok"],
                       "wall_s": time.time() - state["t0"]}, f)


os.makedirs(corpus, exist_ok=True)
atheris.Setup([sys.argv[0], f"-max_total_time={seconds}", f"-seed={seed}", "-max_len=4096", "-len_control=0",
               "-print_final_stats=0", corpus], target.hypothesis.fuzz_one_input)
atheris.Fuzz()
