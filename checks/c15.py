"""C15 Overloaded calls pick the first applicable variant.

Domain: overload sets of 2-5 *defined* variants `@guppy.overload(v0, v1, ...)`, every variant
returns a value that identifies it (its index as int / nat, index + 0.5 as float, or - for a
generic `(x: T, ...) -> T` variant - its first argument, whose value is >= 100).  Signatures are
drawn from a pool with deliberate overlap: arity 0-3; `int` / `float` / `nat` (implicitly
coercible), `bool`, generic `T` / `U` vs concrete, tuples vs scalars (`tuple[int, int]`,
`tuple[float, bool]`, `tuple[T, T]`, ...), arrays of different sizes and element types incl. a
length-generic one, `int @comptime`.  Call sites: argument expressions are literals, typed local
variables and composite literals (tuple displays, `array(...)`), in three positions:
  synth  `y = f(a, b)`             nothing known about the result type
  check  `y: RT = f(a, b)`         variants differ in return type, RT drawn
  nested `result(tag, f(a, b))`    f is itself an argument of an (overloaded) call
Oracle (metamorphic, from the statement; no model of the type checker): the *same function
text* with `f` replaced by `variant_i` is type-checked for every i (compile-only).  expected =
first i whose direct call is accepted.  Then the overloaded function must be accepted and, when
emulated, emit exactly what the direct call to variant `expected` emits; if no direct call is
accepted the overloaded call must be rejected with the `Invalid call of overloaded function`
diagnostic naming f.  An earlier coercible variant beating a later exact one is what "first
applicable" means and is never flagged (the direct call decides applicability).
"""
import json
import os
import sys

sys.path.insert(0, os.path.dirname(os.path.dirname(os.path.abspath(__file__))))
from vlib import harness  # noqa: E402

PROP = "C15"
OVERLOAD_TITLE = "Invalid call of overloaded function"
LATER_PASS_TITLES = {"Copy violation", "Drop violation", "Not owned", "Borrow shadowed"}

# Known-finding input classes that can be left out by construction so that the search goes on
# behind them (AUTHORING requirement 1).  An exclusion is active only when known_findings.json
# lists its key for C15, or VERIF_C15_EXCLUDE=<key,...|all> forces it (`none` forces it off).
EXCLUDE = {
    # OverloadedFunctionDef.check_call/synthesize_call hand the *same* argument AST nodes to every
    # attempt and the checker annotates / rewrites composite argument nodes in place
    # (ExprChecker.visit_Tuple: `node.elts[i], s = self.check(...)`; `_fail` -> `synthesize` stamps
    # the synthesized type on the display node; the `array(...)` checker coerces its elements in
    # place), so an attempt that fails after touching such an argument leaves it typed / coerced
    # and the following variants are checked against that instead of the source expression.
    # The same happens to a plain int literal: checked against `int` it is stamped `int` and is
    # then no longer accepted for a `nat` parameter (a fresh literal is).
    # Class (judged from the case + the direct-call verdicts only): some argument is checked
    # type-directedly - a composite literal (tuple display or `array(...)`), or a non-negative int
    # literal at a position where some variant has a `nat` parameter - and a variant with the
    # call's arity is tried before the expected one (any variant with the call's arity if no
    # variant is expected).
    "stale_arg_ast": "type-directed literal argument re-checked after a failed attempt of an earlier same-arity variant",
}


# fixed inputs of the class (run by shard 0 while the class is searched; PROBES[0] is the
# known_findings.json probe): silent wrong pick, and rejection although a variant accepts
PROBES = {
    "stale_arg_ast": [
        {"variants": [{"params": ["tuple[float, bool]"], "ret": "int"}, {"params": ["tuple[int, int]"], "ret": "int"},
                      {"params": ["T"], "ret": "int"}], "args": ["(123, 124)"], "pos": "synth"},
        {"variants": [{"params": ["int"], "ret": "float"}, {"params": ["nat"], "ret": "nat"}], "args": ["120"],
         "pos": "check", "rt": "nat"},
    ],
}


def active_exclusions():
    env = os.environ.get("VERIF_C15_EXCLUDE", "").strip()
    if env == "none":
        return set()
    act = set()
    if env:
        act |= set(EXCLUDE) if env == "all" else {k for k in env.split(",") if k in EXCLUDE}
    try:
        known, _ = harness.load_known(PROP)
        act |= {k["key"] for k in known if k.get("key") in EXCLUDE}
    except Exception:  # noqa: BLE001
        pass
    return act


# ------------------------------------------------------------------------------ the pools
HEADER = 'T = guppy.type_var("T")\nU = guppy.type_var("U")\nNN = guppy.nat_var("NN")\n'

PTYPES = [
    "int", "float", "nat", "bool", "T", "U",
    "tuple[int, int]", "tuple[float, bool]", "tuple[int, float]", "tuple[float, float]", "tuple[T, T]",
    "tuple[T, bool]", "tuple[int, int, int]",
    "array[int, 2]", "array[int, 3]", "array[float, 2]", "array[T, 2]", "array[int, NN]",
    "int @comptime",
]
RTYPES = ["int", "float", "nat"]

# local variables a call site may use: name -> declaration
VARS = {
    "i": "i = 100", "n": "n: nat = 101", "x": "x = 102.5", "b": "b = True",
    "tii": "tii = (103, 104)", "tfb": "tfb = (105.5, False)",
    "a2": "a2 = array(106, 107)", "a3": "a3 = array(108, 109, 110)", "fa2": "fa2 = array(111.5, 112.5)",
}
# argument expressions: text, natural type, variables used, composite literal kind
ARGS = [
    {"e": "120", "t": "int"}, {"e": "-121", "t": "int"}, {"e": "122.5", "t": "float"}, {"e": "True", "t": "bool"},
    {"e": "i", "t": "int"}, {"e": "n", "t": "nat"}, {"e": "x", "t": "float"}, {"e": "b", "t": "bool"},
    {"e": "tii", "t": "tuple[int, int]"}, {"e": "tfb", "t": "tuple[float, bool]"},
    {"e": "(123, 124)", "t": "tuple[int, int]", "c": "tuple"},
    {"e": "(125, 126.5)", "t": "tuple[int, float]", "c": "tuple"},
    {"e": "(127, True)", "t": "tuple[int, bool]", "c": "tuple"},
    {"e": "(128.5, False)", "t": "tuple[float, bool]", "c": "tuple"},
    {"e": "(i, 129)", "t": "tuple[int, int]", "c": "tuple"},
    {"e": "(n, i)", "t": "tuple[nat, int]", "c": "tuple"},
    {"e": "(x, b)", "t": "tuple[float, bool]", "c": "tuple"},
    {"e": "(130, 131, 132)", "t": "tuple[int, int, int]", "c": "tuple"},
    {"e": "a2", "t": "array[int, 2]"}, {"e": "a3", "t": "array[int, 3]"}, {"e": "fa2", "t": "array[float, 2]"},
    {"e": "array(133, 134)", "t": "array[int, 2]", "c": "array"},
    {"e": "array(135, 136, 137)", "t": "array[int, 3]", "c": "array"},
    {"e": "array(138.5, 139.5)", "t": "array[float, 2]", "c": "array"},
    {"e": "array(i, 140)", "t": "array[int, 2]", "c": "array"},
]
for _a in ARGS:
    _a.setdefault("c", None)
ARG_BY_TEXT = {a["e"]: a for a in ARGS}
SCALAR = {"int", "float", "nat", "bool"}
RANK = {"nat": 0, "int": 1, "float": 2}


def split_tuple(t):
    assert t.startswith("tuple[")
    return [s.strip() for s in t[6:-1].split(",")]


def plausible(ptype, arg):
    """Generation heuristic only (which arguments are worth trying for a parameter type); the
    oracle never consults it."""
    at = arg["t"]
    if ptype in ("T", "U"):
        return not at.startswith("array")
    if ptype == "int @comptime":
        return arg["e"] in ("120", "-121")
    if ptype in RANK:
        if at in RANK:
            return RANK[at] <= RANK[ptype] or (ptype == "nat" and arg["e"] == "120")
        return False
    if ptype == "bool":
        return at == "bool"
    if ptype.startswith("tuple["):
        if not at.startswith("tuple["):
            return False
        ps, as_ = split_tuple(ptype), split_tuple(at)
        if len(ps) != len(as_):
            return False
        for p, a in zip(ps, as_):
            if p in ("T", "U"):
                continue
            if p in RANK and a in RANK and (RANK[a] <= RANK[p]):
                continue
            if p == a:
                continue
            return False
        return True
    if ptype.startswith("array["):
        if not at.startswith("array["):
            return False
        pe, pn = [s.strip() for s in ptype[6:-1].split(",")]
        ae, an = [s.strip() for s in at[6:-1].split(",")]
        return (pn == "NN" or pn == an) and (pe == "T" or pe == ae or (arg["c"] and pe == "float"))
    return False


# ------------------------------------------------------------------------------ rendering
def variant_src(k, i, v):
    ps = ", ".join(f"x{j}: {t}" for j, t in enumerate(v["params"]))
    if v["ret"] == "T":
        body = "x0"
    elif v["ret"] == "float":
        body = f"{i}.5"
    else:
        body = str(i)
    return f"@guppy\ndef c{k}_v{i}({ps}) -> {v['ret']}:\n    return {body}\n"


def run_src(k, case, callee, tag):
    """The call-site function; identical text for every callee except the callee's name/tag."""
    used = []
    for a in case["args"]:
        for name in VARS:
            if name not in used and name in _names(a):
                used.append(name)
    lines = [f"@guppy\ndef c{k}_run_{tag}() -> None:"]
    lines += [f"    {VARS[nm]}" for nm in VARS if nm in used]
    call = f"c{k}_{callee}({', '.join(case['args'])})"
    if case["pos"] == "synth":
        lines += [f"    y = {call}", f'    result("c{k}.{tag}", y)']
    elif case["pos"] == "check":
        lines += [f"    y: {case['rt']} = {call}", f'    result("c{k}.{tag}", y)']
    else:
        lines += [f'    result("c{k}.{tag}", {call})']
    return "\n".join(lines) + "\n"


def _names(expr):
    import re

    return set(re.findall(r"[A-Za-z_][A-Za-z_0-9]*", expr))


def case_src(k, case, callees):
    """All definitions of one case: variants, the overloaded f, one run function per callee."""
    nv = len(case["variants"])
    s = "".join(variant_src(k, i, v) for i, v in enumerate(case["variants"]))
    names = [f"c{k}_v{i}" for i in range(nv)]
    # in a quarter of the cases two consecutive variants are grouped into an inner overload that is
    # listed at their position (an overloaded function is itself a legal variant); resolution order is
    # the flattened order, so the oracle (first accepting direct call) is unchanged.  The grouping is a
    # pure function of the case, so replays reproduce it.
    h = sum(len(str(v)) for v in case["variants"]) + len(case.get("args", []))
    if nv >= 3 and h % 4 == 0:
        a = (h // 4) % (nv - 1)
        s += f"@guppy.overload({names[a]}, {names[a + 1]})\ndef c{k}_g(): ...\n"
        names[a:a + 2] = [f"c{k}_g"]
    s += f"@guppy.overload({', '.join(names)})\ndef c{k}_f(): ...\n"
    for c in callees:
        s += run_src(k, case, c, c)
    return s


def render_case(case):
    """Readable form of a case (k = 0) for samples / violation details."""
    return case_src(0, case, ["f"])


# ------------------------------------------------------------------------------ evaluation
def _brief(o):
    if o.kind == "ok":
        return "ok"
    if o.kind == "rejected":
        return f"rejected[{o.title}]"
    return f"{o.kind}[{o.title}]"


def statics(cases):
    """Compile-only part.  For every case: kinds of the k direct programs, expected index,
    outcome of the overloaded program, and a preliminary verdict.  -> list of dicts"""
    from vlib import runner

    src = runner.PRELUDE + HEADER
    for k, case in enumerate(cases):
        src += case_src(k, case, [f"v{i}" for i in range(len(case["variants"]))] + ["f"])
    res = []
    try:
        lm = runner.load_module(src)
    except BaseException as e:  # noqa: BLE001
        if isinstance(e, (KeyboardInterrupt, SystemExit)):
            raise
        return [{"status": "generr", "detail": f"module did not load: {e!r}"} for _ in cases]
    try:
        for k, case in enumerate(cases):
            nv = len(case["variants"])
            directs = [runner.check_def(getattr(lm.mod, f"c{k}_run_v{i}")) for i in range(nv)]
            fo = runner.check_def(getattr(lm.mod, f"c{k}_run_f"))
            acc = [i for i, d in enumerate(directs) if d.kind == "ok"]
            exp = acc[0] if acc else None
            r = {"directs": [_brief(d) for d in directs], "accepting": acc, "expected": exp, "f": _brief(fo),
                 "status": "agree", "bucket": None, "detail": ""}
            if any(d.kind not in ("ok", "rejected") for d in directs):
                # a direct call crashing the compiler: C02's business; nothing to compare against
                r["status"] = "outside"
                r["detail"] = "direct call crashed: " + "; ".join(r["directs"])
            elif fo.kind not in ("ok", "rejected"):
                r["status"] = "violation"
                r["bucket"] = "crash." + runner.crash_bucket(fo.exc)
                r["detail"] = f"overloaded call crashed the compiler: {fo.message[-600:]}"
            elif exp is None:
                if fo.kind == "ok":
                    r["status"] = "violation"
                    r["bucket"] = "accepted.no_variant_accepts"
                    r["detail"] = f"every direct call is rejected ({r['directs']}) but the overloaded call is accepted"
                else:
                    func = getattr(getattr(fo.exc, "error", None), "func", None)
                    if fo.title in LATER_PASS_TITLES and any(fo.title in d for d in r["directs"]):
                        # rejected by a pass that runs after overload resolution (linearity), like the direct calls
                        r["status"] = "outside"
                        r["detail"] = f"direct calls and the overloaded call are rejected by a later pass: {fo.title}"
                    elif fo.title != OVERLOAD_TITLE or func != f"c{k}_f":
                        r["status"] = "violation"
                        r["bucket"] = "rejected.wrong_error"
                        r["detail"] = (f"no variant accepts; expected the `{OVERLOAD_TITLE}` error for c{k}_f, got "
                                       f"`{fo.title}` (func={func}):\n{fo.message[-500:]}")
            else:
                if fo.kind == "rejected":
                    r["status"] = "violation"
                    r["bucket"] = "rejected.variant_accepts"
                    r["detail"] = (f"direct call to variant {exp} is accepted (directs: {r['directs']}) but the overloaded "
                                   f"call is rejected:\n{fo.message[-500:]}")
                else:
                    r["status"] = "run"  # needs the emulated comparison
            res.append(r)
    finally:
        lm.dispose()
    return res


def emulate(cases, sts):
    """Emulate all cases with status 'run' in one program; -> {k: (f_value, direct_value)} or an
    Outcome when the program as a whole did not run."""
    from vlib import runner

    ks = [k for k, r in enumerate(sts) if r["status"] == "run"]
    if not ks:
        return {}
    src = runner.PRELUDE + HEADER
    main = "@guppy\ndef main() -> None:\n"
    for k in ks:
        e = sts[k]["expected"]
        src += case_src(k, cases[k], [f"v{e}", "f"])
        main += f"    c{k}_run_v{e}()\n    c{k}_run_f()\n"
    out, lm = runner.run_source(src + main)
    if lm is not None:
        lm.dispose()
    if out.kind != "ok":
        return out
    vals = {}
    for tag, v in out.stream:
        vals.setdefault(tag, []).append(v)
    got = {}
    for k in ks:
        e = sts[k]["expected"]
        got[k] = (vals.get(f"c{k}.f"), vals.get(f"c{k}.v{e}"))
    return got


def shape(case):
    comp = sorted({ARG_BY_TEXT[a]["c"] for a in case["args"] if a in ARG_BY_TEXT and ARG_BY_TEXT[a]["c"]})
    return "+".join(comp) + "_arg" if comp else "plain_args"


def picked_index(case, val):
    """Which variant produced the emitted value (index encoding), for the detail text."""
    if val is None or len(val) != 1:
        return None
    v = val[0]
    for i, var in enumerate(case["variants"]):
        if var["ret"] == "float" and v == i + 0.5 and isinstance(v, float):
            return i
        if var["ret"] in ("int", "nat") and v == i and not isinstance(v, float):
            return i
    cands = [i for i, var in enumerate(case["variants"]) if var["ret"] == "T"]
    return cands[0] if len(cands) == 1 and abs(v) >= 100 else None


def evaluate(cases):
    """Full evaluation of a list of cases. -> list of result dicts with final status in
    agree | violation | outside | unsupported | generr"""
    sts = statics(cases)
    if any(r["status"] == "run" for r in sts):
        got = emulate(cases, sts)
        if not isinstance(got, dict):
            # the batch did not run as a whole: judge every runnable case on its own
            if len([r for r in sts if r["status"] == "run"]) == 1:
                for k, r in enumerate(sts):
                    if r["status"] != "run":
                        continue
                    if got.kind == "unsupported":
                        r["status"] = "unsupported"
                        r["detail"] = got.message[:300]
                    else:
                        r["status"] = "violation"
                        r["bucket"] = {"invalid": "invalid_hugr", "panic": "panic"}.get(
                            got.kind, f"{got.kind}.after_check[{got.title}]")
                        r["detail"] = (f"every function type-checks on its own but the program calling the overloaded "
                                       f"function and variant {r['expected']} ends {got.kind}: {got.message[-700:]}")
            else:
                for k, r in enumerate(sts):
                    if r["status"] == "run":
                        r1 = evaluate([cases[k]])[0]
                        sts[k] = r1
            return _finish(cases, sts)
        for k, (fv, dv) in got.items():
            r = sts[k]
            if fv is None or dv is None or len(fv) != 1 or len(dv) != 1:
                r["status"] = "generr"
                r["detail"] = f"result stream lacks the tags of case {k}: f={fv} direct={dv}"
            elif fv == dv and type(fv[0]) is type(dv[0]):
                r["status"] = "agree"
                r["emitted"] = fv[0]
            else:
                p = picked_index(cases[k], fv)
                e = r["expected"]
                r["status"] = "violation"
                r["bucket"] = "wrong_variant"
                r["detail"] = (f"direct calls: {r['directs']} -> expected variant {e} (emits {dv[0]!r}); the overloaded "
                               f"call emits {fv[0]!r}" + (f" (the value variant {p} returns)" if p is not None else ""))
    return _finish(cases, sts)


def _finish(cases, sts):
    """bucket = symptom + call-site position (the argument shape is a label, not a root cause)"""
    for case, r in zip(cases, sts):
        if r["status"] == "violation" and not r.get("final"):
            r["final"] = True
            if not r["bucket"].startswith(("crash.", "invalid", "panic")):
                r["bucket"] += f".{case['pos']}"
    return sts


def in_known_class(case, r):
    """-> key of the EXCLUDE class the case belongs to (judged from the case and the direct-call
    verdicts only), or None."""
    exp = r.get("expected")
    nargs = len(case["args"])
    before = case["variants"] if exp is None else case["variants"][:exp]
    directed = False
    for j, a in enumerate(case["args"]):
        if ARG_BY_TEXT.get(a, {}).get("c"):
            directed = True
        elif a == "120" and any(len(v["params"]) > j and v["params"][j] == "nat" for v in case["variants"]):
            directed = True
    if not directed:
        return None
    if any(len(v["params"]) == nargs for v in before):
        return "stale_arg_ast"
    return None


def replay(case):
    rec = case.get("bucket")
    case = {k: v for k, v in case.items() if k != "bucket"}
    r = evaluate([case])[0]
    if r["status"] == "violation":
        return (rec or r["bucket"], r["detail"] + "\n" + render_case(case))
    return None


# ------------------------------------------------------------------------------ generation
def strategies():
    from hypothesis import strategies as st

    @st.composite
    def case(draw):
        # all choices from one random.Random drawn from Hypothesis (uniform at every position;
        # Hypothesis' own draws are biased towards the first list elements and repeat examples)
        rnd = draw(st.randoms(use_true_random=True))
        nv = rnd.randint(2, 5)
        pool = rnd.sample(PTYPES, rnd.randint(2, 5))
        base = rnd.choice([0, 1, 1, 1, 2, 2, 2, 3])
        pos = rnd.choice(["synth", "check", "check", "nested"])
        variants = []
        for _ in range(nv):
            ar = base if rnd.randrange(5) else rnd.randint(0, 3)
            params = [rnd.choice(pool) for _ in range(ar)]
            if pos == "nested":
                ret = "int"
            else:
                rts = list(RTYPES) + (["T"] if params and params[0] == "T" else [])
                ret = rnd.choice(rts)
            variants.append({"params": params, "ret": ret})
        # arguments: mostly aimed at one of the variants so that accepted calls are common
        if rnd.randrange(10) < 7:
            tgt = rnd.choice(variants)
            args = []
            for p in tgt["params"]:
                c = [a["e"] for a in ARGS if plausible(p, a)] or [a["e"] for a in ARGS]
                args.append(rnd.choice(c))
        else:
            n = base if rnd.randrange(4) else rnd.randint(0, 3)
            args = [rnd.choice(ARGS)["e"] for _ in range(n)]
        # the same array variable twice would be a borrow error after overload resolution
        alt = {"a2": "array(133, 134)", "a3": "array(135, 136, 137)", "fa2": "array(138.5, 139.5)"}
        args = [alt[a] if a in alt and a in args[:j] else a for j, a in enumerate(args)]
        # a `-> T` variant returns its first argument: keep that observable through `result`
        if any(v["ret"] == "T" for v in variants) and args and ARG_BY_TEXT[args[0]]["t"] not in SCALAR:
            args[0] = rnd.choice([a["e"] for a in ARGS if a["t"] in SCALAR])
        c = {"variants": variants, "args": args, "pos": pos}
        if pos == "check":
            c["rt"] = rnd.choice(RTYPES)
        return c

    return case(), st.lists(case(), min_size=1, max_size=1)


def labels_of(case, r):
    labs = ["pos:" + case["pos"], "shape:" + shape(case)]
    acc = r.get("accepting")
    if acc is not None:
        labs.append("accepting:" + ("0" if not acc else "1" if len(acc) == 1 else "2+"))
        if acc:
            labs.append("expected:" + ("first_listed" if acc[0] == 0 else "later"))
            v = case["variants"][acc[0]]
            nat = [ARG_BY_TEXT[a]["t"] for a in case["args"]]
            if len(nat) == len(v["params"]) and any(p in RANK and t in RANK and p != t for p, t in zip(v["params"], nat)):
                labs.append("picked_through_coercion")
    vs = case["variants"]
    if any(any(p in ("T", "U") or "T" in p.replace("tuple", "").replace("NN", "") for p in v["params"]) for v in vs):
        labs.append("has:generic")
    if any(any(p.startswith("tuple") for p in v["params"]) for v in vs):
        labs.append("has:tuple_param")
    if any(any(p.startswith("array") for p in v["params"]) for v in vs):
        labs.append("has:array_param")
    if len({len(v["params"]) for v in vs}) > 1:
        labs.append("has:arity_mix")
    if len({v["ret"] for v in vs}) > 1:
        labs.append("has:ret_types_differ")
    labs.append("status:" + r["status"])
    return labs


def reduce_case(case, bucket, budget_evals=12):
    """Greedy reduction: drop variants / argument positions while the same bucket shows."""
    n = [0]

    def fails(c):
        n[0] += 1
        r = evaluate([c])[0]
        return r["status"] == "violation" and r["bucket"] == bucket

    cur = case
    changed = True
    while changed and n[0] < budget_evals:
        changed = False
        for i in range(len(cur["variants"])):
            if len(cur["variants"]) <= 2 or n[0] >= budget_evals:
                break
            c = dict(cur, variants=cur["variants"][:i] + cur["variants"][i + 1:])
            if fails(c):
                cur, changed = c, True
                break
        if changed:
            continue
        for j in range(len(cur["args"])):
            if n[0] >= budget_evals:
                break
            c = dict(cur, args=cur["args"][:j] + cur["args"][j + 1:],
                     variants=[dict(v, params=v["params"][:j] + v["params"][j + 1:]) if len(v["params"]) > j else v
                               for v in cur["variants"]])
            if any(v["ret"] == "T" and (not v["params"] or v["params"][0] != "T") for v in c["variants"]):
                continue
            if fails(c):
                cur, changed = c, True
                break
    return cur


def worker(ctx):
    from hypothesis import strategies as st

    one, _ = strategies()
    B = ctx.params["batch"]
    excl = active_exclusions()
    ctx.notes["active_exclusions"] = sorted(excl)
    viol = {}
    totals = {"n": 0, "outside": 0, "generr": 0}

    def body(cases):
        sts = evaluate(cases)
        for case, r in zip(cases, sts):
            totals["n"] += 1
            acc = r.get("accepting") or []
            nontriv = len(acc) >= 2 or (bool(acc) and acc[0] > 0)
            kc = in_known_class(case, r) if "accepting" in r else None
            if kc and kc in excl:
                ctx.exclude(kc)
                continue
            ok = r["status"] == "agree"
            ctx.case(case, nontriv and ok, labels=labels_of(case, r),
                     sample={"case": render_case(case), "directs": r.get("directs"), "expected": r.get("expected"),
                             "overloaded": r.get("f"), "emitted": r.get("emitted")} if ok and nontriv else None)
            if r["status"] == "violation":
                b = r["bucket"]
                if kc:
                    b = f"{kc}.{b.split('.')[0]}"
                cur = viol.get(b)
                if cur is None or len(json.dumps(case)) < len(json.dumps(cur[0])):
                    viol[b] = (case, r["detail"], r["bucket"])
                ctx.label("violation:" + b)
            elif r["status"] == "outside":
                totals["outside"] += 1
                ctx.sample("outside", {"case": render_case(case), "why": r["detail"]})
            elif r["status"] == "unsupported":
                ctx.unsupported_case(r["detail"][:80])
            elif r["status"] == "generr":
                totals["generr"] += 1
                ctx.harness_error(r["detail"] + "\n" + render_case(case))

    # one case per Hypothesis example (B cases in one example would overrun Hypothesis' entropy
    # buffer and bias the later cases towards minimal draws); B examples are evaluated together
    pending = []

    def collect(case):
        pending.append(case)
        if len(pending) >= B:
            batch = list(pending)
            del pending[:]
            body(batch)

    if ctx.shard == 0:
        for kc, probes in PROBES.items():
            if kc not in excl:
                body([dict(p) for p in probes])
    harness.hyp_search(ctx, one, collect, max_examples=ctx.params["n"] * B, chunk=B * 2, time_frac=0.7)
    if pending and not ctx.out_of_time(0.7):
        body(list(pending))
    if totals["n"] >= 40 and totals["outside"] > 0.05 * totals["n"]:
        ctx.harness_error(f"{totals['outside']}/{totals['n']} cases had a direct call crashing or rejected after type checking (generator leaves C15's domain)")
    for b, (case, detail, raw_bucket) in sorted(viol.items()):
        small = case
        if not ctx.out_of_time(0.8):
            try:
                small = reduce_case(case, raw_bucket)
            except Exception:  # noqa: BLE001
                small = case
        if small is not case:
            r = evaluate([small])[0]
            if r["status"] == "violation":
                detail = r["detail"]
            else:
                small = case
        ctx.violation(b, dict(small, bucket=b), detail + "\n" + render_case(small))


SPEC = harness.Spec(
    PROP, worker, replay,
    rule=("a case = overload set of 2-5 defined variants (arity 0-3, parameter types from a pool of 19 overlapping types: "
          "int/float/nat/bool, generic T/U, 7 tuple types, 5 array types incl. length-generic, int @comptime; each variant "
          "returns a value identifying it) + one call site (0-3 arguments out of 25 literal / variable / tuple-display / "
          "array(...) expressions; 70% aimed at one drawn variant) in synth `y = f(..)`, check `y: RT = f(..)` or nested "
          "`result(tag, f(..))` position; B cases share one emulated program. expected variant = first whose direct call "
          "type-checks. non-trivial = agreeing case where >= 2 variants accept the call or the first accepting variant is not "
          "the first listed; distinct = distinct (variants, args, position)"),
    assumptions=["a direct call `variant_i(args)` in the same function text is the definition of 'variant i accepts the arguments (and "
                 "the expected result type)'",
                 "the variant that ran is observed through the emulated result value (selene 0.4.3 on the lowered package, DESIGN 1.2)",
                 "direct calls that crash the compiler are outside C15 (C02 judges them); their rate is bounded (<5%) else exit 2"],
    shards={"quick": 16, "thorough": 16},
    budget_s={"quick": 90, "thorough": 900},
    params={"quick": {"n": 12, "batch": 20}, "thorough": {"n": 60, "batch": 24}},
    min_nontrivial=150,
)

if __name__ == "__main__":
    harness.main(SPEC)
