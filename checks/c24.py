"""C24 Unitary contexts reject non-unitary quantum operations.

Domain.  A case is a small Guppy module: declared/defined callees + one `main`.
  context   = decorator kwargs of `main` (all 16 subsets of unitary/control/dagger/power)
              and/or 0-2 nested `with` layers whose modifier lists are drawn from
              dagger, dagger(), control(c), control(c, c'), power(2), power(k) (repetitions allowed)
  callee    = @guppy.declare(kw) | @guppy(kw) def | std gate (h cx reset project_z) |
              Callable parameter of main | barrier | state_result
  arguments = 1-3 per call out of: qubit, qubit array element qs[i], qubit array, struct with a
              qubit field, s.q, int literal, int variable, xs[0], s.n, nested call (depth <= 2)
  position  = expression statement, `if`/`if a and`/`if a or`/`if not` condition, `while`
              condition, `for .. in range(CALL)`, body of if/else/while/for, RHS of `=`, `: int =`,
              `+=`, operand of `+`, `return`, and statements outside the `with` block
  dagger    = while / for / assignment / annotated / augmented assignment with and without calls,
              subscripted places qs[i], xs[0]
Shards sweep a deterministic slice of the single-statement product first, then Hypothesis
composes 1-3 statements per function.

Oracle (from the property statement, computed on the case structure - never on the compiler's
answer): required flags R of a statement = union of the flags of every enclosing context
(unitary = control+dagger+power; a `with` needs Dagger iff it has an odd number of daggers,
Control iff it has a control, Power iff it has a power).  Reject iff some call that is not
barrier/state_result has a qubit-containing argument and callee flags F with R not a subset of F,
or Dagger in R and a loop / assignment / subscripted place occurs.  Accept otherwise, and then the
compiled HUGR must carry metadata unitary == 1*Control + 2*Dagger + 4*Power on the FuncDefn of
main, of every `with` body and of every defined callee.

Mismatch buckets (root cause by *shape* of the offending construct; the search continues):
  missed.branch_condition   the only offending constructs sit in an if/while condition
  missed.later_argument     ... sit in an argument after the callee's first qubit argument
  missed.exempt_argument    ... are subscripted places passed to barrier/state_result under dagger
  missed.struct_argument    ... are calls whose only qubit-containing arguments are structs
  missed.outer_context      ... are only forbidden by an *outer* context of a nested `with`
  (combinations are joined with '+');  accepted.<reason>.<ctx> for anything else that should have
  been rejected;  rejected.<title>.<ctx> for a program that should have been accepted;
  metadata.<which>;  crash.<signature>.
"""
import itertools
import os
import sys

sys.path.insert(0, os.path.dirname(os.path.dirname(os.path.abspath(__file__))))
from vlib import harness  # noqa: E402

PROP = "C24"

#: shapes (see buckets above) to leave out of the violation report once they are known findings;
#: they are then counted with ctx.exclude(). Empty: everything is reported. Shapes: branch_condition,
#: later_argument, exempt_argument, struct_argument, outer_context (env VERIF_C24_EXCLUDE=a,b overrides).
EXCLUDE = set(filter(None, os.environ.get("VERIF_C24_EXCLUDE", "").split(",")))

KW = ("unitary", "control", "dagger", "power")
KW_FLAGS = {"unitary": "CDP", "control": "C", "dagger": "D", "power": "P"}
BIT = {"C": 1, "D": 2, "P": 4}  # metadata encoding (assumption, see SPEC.assumptions)
MODS = ("dagger", "dagger()", "control", "control2", "power", "powerk")

#: argument kinds
Q_IMPLVISIBLE = ("q", "qsub", "qarr", "sfq")  # qubit-containing, not hidden in a struct
#: structs whose qubits sit below a field: in an array field, in a nested struct, in a tuple field
DEEP_STRUCTS = {"sarr": ("QR", "    qs: array[qubit, 2]\n    size: int\n"),
                "snest": ("QN", "    inner: QS\n    n: int\n"),
                "stup": ("QT", "    p: tuple[int, qubit]\n")}
STRUCT_KINDS = ("struct",) + tuple(DEEP_STRUCTS)
Q_KINDS = Q_IMPLVISIBLE + STRUCT_KINDS  # qubit-containing per the statement
C_KINDS = ("lit", "n", "csub", "sfn", "call")
SUB_KINDS = ("qsub", "csub")

#: generic parameters (a flagged function keeps its flags whatever its parameters are): spelling of the extra
#: trailing parameter and of the argument a caller passes for it.  `tvar` a type variable, `nvar` an array whose
#: length is a nat variable (qubit-array arguments of such a callee are typed array[qubit, NV] as well),
#: `comptime` a comptime nat.  All are classical, so the oracle's verdict does not depend on them.
GENERIC = {"tvar": ("tg: TV", "1"), "nvar": ("ga: array[int, NV]", "ys"), "comptime": ("cn: nat @comptime", "3")}
GENERIC_HEADER = 'TV = guppy.type_var("TV")\nNV = guppy.nat_var("NV")\n\n'

REJECT_TITLES = {
    "Unitary constraint violation": "call",
    "Invalid expression in dagger": "dagger",
    "Unsupported": "subscript",
}


# ------------------------------------------------------------------------------- flags
def kw_flags(kw):
    s = set()
    for k in kw:
        s |= set(KW_FLAGS[k])
    return frozenset(s)


def mods_flags(mods):
    s = set()
    if sum(1 for m in mods if m.startswith("dagger")) % 2:
        s.add("D")
    if any(m.startswith("control") for m in mods):
        s.add("C")
    if any(m.startswith("power") for m in mods):
        s.add("P")
    return frozenset(s)


def bits(fl):
    return sum(BIT[f] for f in fl)


def fstr(fl):
    return "".join(sorted(fl)) or "-"


def callee_flags(f):
    if f["k"] in ("decl", "def"):
        return kw_flags(f["kw"])
    if f["k"] == "std":
        return frozenset("CDP") if f["name"] in ("h", "cx") else frozenset()
    return frozenset()  # local callables cannot carry flags; barrier/state_result are exempt


# ------------------------------------------------------------------------------- oracle
def ev_call(ce, req, own, loc, out):
    """Append the reasons for rejection found in call expression `ce` evaluated under required
    flags `req`; `own` = flags of the innermost context alone (a reason that only exists because of
    an outer context is tagged `outer_context`); `loc` = shape tags of where the expression sits."""
    f = ce["f"]
    exempt = f["k"] in ("barrier", "state_result")
    kinds = [a["k"] for a in ce["args"]]
    has_q = any(k in Q_KINDS for k in kinds)
    if not exempt and has_q and not (req <= callee_flags(f)):
        cl = set(loc)
        if not any(k in Q_IMPLVISIBLE for k in kinds):
            cl.add("struct_argument")
        if own <= callee_flags(f):
            cl.add("outer_context")
        out.append(("nonunitary_call", frozenset(cl)))
    seen_q = False
    for a in ce["args"]:
        al = set(loc)
        if exempt:
            al.add("exempt_argument")
        elif seen_q:
            al.add("later_argument")
        if a["k"] in SUB_KINDS and "D" in req:
            out.append(("dagger_subscript", frozenset(al | ({"outer_context"} if "D" not in own else set()))))
        if a["k"] == "call":
            ev_call(a["e"], req, own, al, out)
        if a["k"] in Q_IMPLVISIBLE:
            seen_q = True


def ev_stmt(s, req, own, out):
    k = s["k"]
    e = s.get("e")
    outer = frozenset() if "D" in own else frozenset({"outer_context"})
    if k in ("expr", "binop", "return"):
        ev_call(e, req, own, set(), out)
    elif k in ("if", "ifand", "ifor", "ifnot"):
        if e is not None:
            ev_call(e, req, own, {"branch_condition"}, out)
    elif k == "while":
        if "D" in req:
            out.append(("dagger_loop", outer))
        if e is not None:
            ev_call(e, req, own, {"branch_condition"}, out)
    elif k == "for":
        if "D" in req:
            out.append(("dagger_loop", outer))
        if e is not None:
            ev_call(e, req, own, set(), out)
    elif k in ("assign", "annassign", "augassign"):
        if "D" in req:
            out.append(("dagger_assign", outer))
        if e is not None:
            ev_call(e, req, own, set(), out)
    elif k == "pass":
        pass
    else:
        raise harness.HarnessError(f"unknown statement kind {k}")
    for sub in s.get("b", []) + s.get("o", []):
        ev_stmt(sub, req, own, out)


def contexts(case):
    """(flags of main, [own flags of each with layer], required flags in the innermost body)"""
    ff = kw_flags(case["fkw"])
    layers = [mods_flags(m) for m in case["withs"]]
    req = set(ff)
    for l in layers:
        req |= l
    return ff, layers, frozenset(req)


def oracle(case):
    ff, layers, req = contexts(case)
    out = []
    own = layers[-1] if layers else ff
    for s in case.get("pre", []):
        ev_stmt(s, ff, ff, out)
    for s in case["body"]:
        ev_stmt(s, req, own, out)
    if case.get("ret") is not None:
        ev_stmt({"k": "return", "e": case["ret"]}, ff, ff, out)
    return out


def ctx_kind(case):
    if case["withs"] and (case["fkw"] or len(case["withs"]) > 1):
        return "nested"
    return "with" if case["withs"] else "func"


# ------------------------------------------------------------------------------- rendering
class Render:
    PRIO = ["q", "c", "qs", "rs", "xs", "ys", "s", "n", "k", "g"]

    def __init__(self):
        self.header = []
        self.params = {}
        self.nf = 0
        self.ng = 0
        self.nt = 0
        self.nc = 0
        self.std = set()
        self.need_struct = False
        self.deep = set()
        self.need_callable = False
        self.defs = []  # (name, flags, generic kind or None) of defined callees
        self.need_generic = False

    def param(self, name, ty):
        self.params.setdefault(name, ty)

    def arg(self, a, alloc):
        k = a["k"]
        if k == "q":
            name = f"q{alloc['q']}"
            alloc["q"] += 1
            self.param(name, "qubit")
            return name, "qubit"
        if k == "qsub":
            i = alloc["qsub"]
            alloc["qsub"] += 1
            self.param("qs", "array[qubit, 4]")
            return f"qs[{i}]", "qubit"
        if k == "qarr":
            name = f"rs{alloc['qarr']}"
            alloc["qarr"] += 1
            self.param(name, "array[qubit, 2]")
            return name, "array[qubit, 2]"
        if k == "struct":
            name = f"s{alloc['struct']}"
            alloc["struct"] += 1
            self.need_struct = True
            self.param(name, "QS")
            return name, "QS"
        if k in DEEP_STRUCTS:
            name = f"d{k[1]}{alloc['struct']}"
            alloc["struct"] += 1
            self.need_struct = True
            self.deep.add(k)
            self.param(name, DEEP_STRUCTS[k][0])
            return name, DEEP_STRUCTS[k][0]
        if k == "sfq":
            name = f"sq{alloc['sfq']}"
            alloc["sfq"] += 1
            self.need_struct = True
            self.param(name, "QS")
            return f"{name}.q", "qubit"
        if k == "sfn":
            self.need_struct = True
            self.param("sn", "QS")
            return "sn.n", "int"
        if k == "lit":
            return "1", "int"
        if k == "n":
            self.param("n", "int")
            return "n", "int"
        if k == "csub":
            self.param("xs", "array[int, 2]")
            return "xs[0]", "int"
        if k == "call":
            return self.call(a["e"], "int", alloc), "int"
        raise harness.HarnessError(f"unknown arg kind {k}")

    def call(self, ce, ret, alloc):
        f = ce["f"]
        texts, tys = [], []
        for a in ce["args"]:
            t, ty = self.arg(a, alloc)
            texts.append(t)
            tys.append(ty)
        kind = f["k"]
        rty = {"none": "None", "int": "int", "bool": "bool"}[ret]
        if kind in ("decl", "def"):
            name = f"f{self.nf}"
            self.nf += 1
            kws = ", ".join(f"{k}=True" for k in f["kw"])
            gen = f.get("gen")
            if gen:
                self.need_generic = True
                if gen == "nvar":
                    tys = ["array[qubit, NV]" if ty == "array[qubit, 2]" else ty for ty in tys]
                    self.param("ys", "array[int, 2]")
                texts = texts + [GENERIC[gen][1]]
            sig = ", ".join([f"a{i}: {ty}" for i, ty in enumerate(tys)] + ([GENERIC[gen][0]] if gen else []))
            if kind == "decl":
                dec = f"@guppy.declare({kws})" if kws else "@guppy.declare"
                self.header.append(f"{dec}\ndef {name}({sig}) -> {rty}: ...\n")
            else:
                dec = f"@guppy({kws})" if kws else "@guppy"
                body = {"none": "pass", "int": "return 0", "bool": "return False"}[ret]
                self.header.append(f"{dec}\ndef {name}({sig}) -> {rty}:\n    {body}\n")
                self.defs.append((name, kw_flags(f["kw"]), gen))
            return f"{name}({', '.join(texts)})"
        if kind == "local":
            name = f"g{self.ng}"
            self.ng += 1
            self.need_callable = True
            self.param(name, f"Callable[[{', '.join(tys)}], {rty}]")
            return f"{name}({', '.join(texts)})"
        if kind == "std":
            self.std.add(f["name"])
            return f"{f['name']}({', '.join(texts)})"
        if kind == "barrier":
            self.std.add("barrier")
            return f"barrier({', '.join(texts)})"
        if kind == "state_result":
            self.std.add("state_result")
            return f"state_result(\"t\", {', '.join(texts)})"
        raise harness.HarnessError(f"unknown callee kind {kind}")

    @staticmethod
    def fresh_alloc():
        return {"q": 0, "qsub": 0, "qarr": 0, "struct": 0, "sfq": 0}

    def stmt(self, s, ind, lines):
        k = s["k"]
        e = s.get("e")
        pad = "    " * ind
        al = self.fresh_alloc()

        def block(lst):
            if not lst:
                lines.append(pad + "    pass")
            for sub in lst:
                self.stmt(sub, ind + 1, lines)

        if k == "expr":
            lines.append(pad + self.call(e, "none", al))
        elif k == "binop":
            lines.append(pad + self.call(e, "int", al) + " + 1")
        elif k == "return":
            lines.append(pad + "return " + self.call(e, "int", al))
        elif k in ("if", "ifand", "ifor", "ifnot"):
            if e is None:
                self.param("n", "int")
                cond = "n > 0"
            else:
                c = self.call(e, "bool", al)
                if k == "ifand":
                    self.param("n", "int")
                    cond = f"n > 0 and {c}"
                elif k == "ifor":
                    self.param("n", "int")
                    cond = f"{c} or n > 0"
                elif k == "ifnot":
                    cond = f"not {c}"
                else:
                    cond = c
            lines.append(pad + f"if {cond}:")
            block(s.get("b", []))
            if s.get("o"):
                lines.append(pad + "else:")
                block(s["o"])
        elif k == "while":
            if e is None:
                self.param("n", "int")
                cond = "n > 0"
            else:
                cond = self.call(e, "bool", al)
            lines.append(pad + f"while {cond}:")
            block(s.get("b", []))
        elif k == "for":
            rng = "2" if e is None else self.call(e, "int", al)
            v = f"i{self.nt}"
            self.nt += 1
            lines.append(pad + f"for {v} in range({rng}):")
            block(s.get("b", []))
        elif k in ("assign", "annassign"):
            v = f"t{self.nt}"
            self.nt += 1
            rhs = "1" if e is None else self.call(e, "int", al)
            lines.append(pad + (f"{v} = {rhs}" if k == "assign" else f"{v}: int = {rhs}"))
        elif k == "augassign":
            self.param("n", "int")
            rhs = "1" if e is None else self.call(e, "int", al)
            lines.append(pad + f"n += {rhs}")
        elif k == "pass":
            lines.append(pad + "pass")
        else:
            raise harness.HarnessError(f"unknown statement kind {k}")

    def mod(self, m):
        if m in ("dagger", "dagger()"):
            return m
        if m == "control":
            c = f"c{self.nc}"
            self.nc += 1
            self.param(c, "qubit")
            return f"control({c})"
        if m == "control2":
            c, d = f"c{self.nc}", f"c{self.nc + 1}"
            self.nc += 2
            self.param(c, "qubit")
            self.param(d, "qubit")
            return f"control({c}, {d})"
        if m == "power":
            return "power(2)"
        if m == "powerk":
            self.param("k", "nat")
            return "power(k)"
        raise harness.HarnessError(f"unknown modifier {m}")

    def module(self, case):
        from vlib import runner

        lines = []
        for s in case.get("pre", []):
            self.stmt(s, 1, lines)
        ind = 1
        for mods in case["withs"]:
            lines.append("    " * ind + "with " + ", ".join(self.mod(m) for m in mods) + ":")
            ind += 1
        for s in case["body"]:
            self.stmt(s, ind, lines)
        rty = "None"
        if case.get("ret") is not None:
            self.stmt({"k": "return", "e": case["ret"]}, 1, lines)
            rty = "int"

        def prio(name):
            head = name.rstrip("0123456789")
            head = {"sq": "s", "sn": "s", "rs": "rs", "da": "s", "dn": "s", "dt": "s"}.get(head, head)
            num = name[len(name.rstrip("0123456789")):]
            return (self.PRIO.index(head), name.rstrip("0123456789"), int(num or 0))

        ps = ", ".join([f"{n}: {self.params[n]}" for n in sorted(self.params, key=prio)]
                       + [GENERIC[g][0].replace("array[int, NV]", "array[qubit, NV]") for g in case.get("gen", [])])
        if case.get("gen"):
            self.need_generic = True
        kws = ", ".join(f"{k}=True" for k in case["fkw"])
        dec = f"@guppy({kws})" if kws else "@guppy"
        warm = ""
        # every other flagged case applies one decorator object twice (`d = guppy(control=True)`): the flags
        # belong to each function it decorates, not only to the first one
        if kws and (len(lines) + len(self.header)) % 2 == 0:
            warm = f"dec_shared = guppy({kws})\n\n@dec_shared\ndef warm_(wq: qubit) -> None:\n    pass\n"
            dec = "@dec_shared"
        imports = ""
        if self.need_callable:
            imports += "from collections.abc import Callable\n"
        q = sorted(self.std & {"h", "cx"})
        if q:
            imports += f"from guppylang.std.quantum import {', '.join(q)}\n"
        if "state_result" in self.std:
            imports += "from guppylang.std.debug import state_result\n"
        if "barrier" in self.std:
            imports += "from guppylang.std.builtins import barrier\n"
        struct = "@guppy.struct\nclass QS:\n    q: qubit\n    n: int\n\n" if self.need_struct else ""
        for k in sorted(self.deep):
            struct += f"@guppy.struct\nclass {DEEP_STRUCTS[k][0]}:\n{DEEP_STRUCTS[k][1]}\n"
        if self.need_generic:
            imports += GENERIC_HEADER
        return (runner.PRELUDE + imports + "\n" + struct + "\n".join(self.header)
                + "\n" + warm + f"\n{dec}\ndef main({ps}) -> {rty}:\n" + "\n".join(lines) + "\n")


def render(case):
    r = Render()
    return r.module(case), r


# ------------------------------------------------------------------------------- evaluation
_enabled = [False]


def _enable():
    if not _enabled[0]:
        from guppylang_internals.experimental import enable_experimental_features

        enable_experimental_features()
        _enabled[0] = True


def func_defns(pkg):
    import hugr.ops as ops

    out = []
    for mod in pkg.modules:
        for _, d in mod.nodes():
            if isinstance(d.op, ops.FuncDefn):
                md = d.metadata
                md = md.as_dict() if hasattr(md, "as_dict") else dict(md)
                out.append((d.op.f_name, md.get("unitary", "<missing>")))
    return out


def evaluate(case):
    """-> (findings [(bucket, detail)], info dict).  Raises HarnessError for generator problems."""
    from vlib import runner

    _enable()
    src, r = render(case)
    reasons = oracle(case)
    ck = ctx_kind(case)
    info = {"src": src, "reasons": reasons, "expect": "reject" if reasons else "accept"}
    try:
        lm = runner.load_module(src)
    except SyntaxError as e:
        raise harness.HarnessError(f"generated module is not valid Python: {e}\n{src}") from e
    try:
        out, pkg = runner.compile_def(lm.mod.main, entry=False)
        info["got"] = out.kind
        info["title"] = out.title
        finds = []
        if out.kind == "crash":
            return [("crash." + runner.crash_bucket(out.exc), out.message[-1500:] + "\n" + src)], info
        if out.kind == "rejected" and out.title not in REJECT_TITLES:
            raise harness.HarnessError(
                f"generator unsound: rejected with unrelated error {out.title!r}\n{out.message}\n{src}")
        if out.kind == "rejected":
            if not reasons:
                finds.append((f"rejected.{REJECT_TITLES[out.title]}.{ck}",
                              f"statement demands acceptance (required flags {fstr(contexts(case)[2])}); "
                              f"compiler says:\n{out.message}\n--- program\n{src}"))
            else:
                cls = {"nonunitary_call": "call", "dagger_loop": "dagger", "dagger_assign": "dagger",
                       "dagger_subscript": "subscript"}
                info["reason_agrees"] = REJECT_TITLES[out.title] in {cls[k] for k, _ in reasons}
            return finds, info
        # accepted by the compiler
        if reasons:
            plain = sorted({k for k, loc in reasons if not loc})
            if plain:
                for k in plain:
                    finds.append((f"accepted.{k}.{ck}",
                                  f"statement demands rejection ({k}); compiler accepted\n--- program\n{src}"))
            else:
                for loc in sorted({"+".join(sorted(loc)) for _, loc in reasons}):
                    kinds = sorted({k for k, l in reasons if "+".join(sorted(l)) == loc})
                    finds.append((f"missed.{loc}",
                                  f"statement demands rejection ({', '.join(kinds)} located in {loc}); "
                                  f"compiler accepted\n--- program\n{src}"))
            return finds, info
        # accepted and expected: metadata
        ff, layers, _ = contexts(case)
        defs = func_defns(pkg)
        mains = [v for n, v in defs if n == "main"]
        if mains != [bits(ff)]:
            finds.append(("metadata.function",
                          f"FuncDefn main should carry unitary={bits(ff)} (flags {fstr(ff)}); found {mains}\n{src}"))
        blocks = sorted((v for n, v in defs if n.startswith("__WithBlock__")), key=str)
        own = [bits(l) for l in layers]
        cum, acc = [], set()
        for l in layers:
            acc |= l
            cum.append(bits(acc))
        cumf = [bits(set(ff) | set(l)) for l in layers]
        allowed = [sorted(own, key=str), sorted(cum, key=str), sorted(cumf, key=str)]
        if blocks not in allowed:
            finds.append(("metadata.with_block",
                          f"with-body FuncDefns should carry unitary={own}; found {blocks}\n{src}"))
        for name, fl, _gen in r.defs:
            vs = [v for n, v in defs if n == name]
            if vs != [bits(fl)]:
                finds.append(("metadata.callee",
                              f"FuncDefn {name} should carry unitary={bits(fl)}; found {vs}\n{src}"))
        info["generic_flagged"] = bool(case.get("gen") and ff) or any(g and fl for _, fl, g in r.defs)
        return finds, info
    finally:
        lm.dispose()


def replay(case):
    finds, _ = evaluate(case)
    finds = [f for f in finds if not (f[0].startswith("missed.") and set(f[0][7:].split("+")) <= EXCLUDE)]
    return finds[0] if finds else None


# ------------------------------------------------------------------------------- labels
def walk_calls(case):
    """yield (callexpr, position, depth) for every call in the case"""
    def from_call(ce, pos, d):
        yield ce, pos, d
        for a in ce["args"]:
            if a["k"] == "call":
                yield from from_call(a["e"], pos, d + 1)

    def from_stmt(s, where):
        if s.get("e") is not None:
            yield from from_call(s["e"], s["k"], 0)
        for sub in s.get("b", []) + s.get("o", []):
            yield from from_stmt(sub, where)

    for s in case.get("pre", []):
        yield from from_stmt(s, "pre")
    for s in case["body"]:
        yield from from_stmt(s, "body")
    if case.get("ret") is not None:
        yield from from_call(case["ret"], "return", 0)


def describe(case, reasons):
    ff, layers, req = contexts(case)
    labels = ["ctx:" + ctx_kind(case), "req:" + fstr(req), "expect:" + ("reject" if reasons else "accept")]
    for k, loc in set(reasons):
        labels.append("reason:" + k + ("@" + "+".join(sorted(loc)) if loc else ""))
    mixed = cond = nested = False
    seen = set()
    for ce, pos, d in walk_calls(case):
        kinds = [a["k"] for a in ce["args"]]
        hq = any(k in Q_KINDS for k in kinds)
        hc = any(k in C_KINDS for k in kinds)
        mix = "mixed" if hq and hc else "qubit" if hq else "classical"
        if hq and hc:
            mixed = True
        if d > 0 or "call" in kinds:
            nested = True
        if pos in ("if", "ifand", "ifor", "ifnot", "while"):
            cond = True
        seen.add("pos:" + pos)
        seen.add("args:" + mix)
        seen.add("callee:" + ce["f"]["k"])
        if ce["f"].get("gen"):
            seen.add("generic:callee:" + ce["f"]["gen"])
        for k in kinds:
            if k in ("qsub", "csub", "qarr", "sfq") + STRUCT_KINDS:
                seen.add("arg:" + k)
    for s in itertools.chain(case.get("pre", []), case["body"]):
        stack = [s]
        while stack:
            t = stack.pop()
            if t["k"] in ("while", "for"):
                seen.add("has:loop")
            if t["k"] in ("assign", "annassign", "augassign"):
                seen.add("has:" + t["k"])
            stack.extend(t.get("b", []) + t.get("o", []))
    if case.get("gen"):
        seen.add("generic:main")
    labels.extend(sorted(seen))
    nontrivial = bool(req) and (mixed or cond or nested)
    return labels, nontrivial


# ------------------------------------------------------------------------------- enumerated product
def subsets(xs):
    for r in range(len(xs) + 1):
        yield from (list(c) for c in itertools.combinations(xs, r))


ENUM_CONTEXTS = (
    [{"fkw": kw, "withs": []} for kw in subsets(KW) if kw]
    + [{"fkw": [], "withs": [m]} for m in (
        ["dagger"], ["dagger()"], ["control"], ["control2"], ["power"], ["powerk"],
        ["dagger", "control"], ["control", "dagger"], ["dagger", "power"], ["power", "control"],
        ["dagger", "control", "power"], ["powerk", "control2", "dagger()"],
        ["dagger", "dagger"], ["dagger", "dagger", "dagger"], ["control", "control"], ["power", "powerk"])]
    + [{"fkw": ["control"], "withs": [["dagger"]]}, {"fkw": ["dagger"], "withs": [["control"]]},
       {"fkw": ["power"], "withs": [["power"]]}, {"fkw": ["unitary"], "withs": [["dagger", "control"]]},
       {"fkw": [], "withs": [["dagger"], ["power"]]}, {"fkw": [], "withs": [["control"], ["dagger"]]},
       {"fkw": [], "withs": [["power"], ["control"]]}]
)

#: flagged mains with generic parameters (the kind rotates over the kwarg subsets)
_GEN_ROT = [["tvar"], ["nvar"], ["comptime"], ["tvar", "nvar", "comptime"]]
ENUM_GENERIC_CONTEXTS = (
    [{"fkw": kw, "withs": [], "gen": _GEN_ROT[i % 4]} for i, kw in enumerate(kw for kw in subsets(KW) if kw)]
    + [{"fkw": ["control"], "withs": [["dagger"]], "gen": ["nvar"]}, {"fkw": [], "withs": [["power"]], "gen": ["tvar"]}]
)

CANON_KW = [[], ["control"], ["dagger"], ["power"], ["control", "dagger"], ["control", "power"],
            ["dagger", "power"], ["control", "dagger", "power"], ["unitary"]]


def _c(f, *args):
    return {"f": f, "args": list(args)}


def _a(k, e=None):
    return {"k": k} if e is None else {"k": k, "e": e}


NU = {"k": "decl", "kw": []}


def enum_cases():
    """Single-call cases: context x callee x argument mix x position (+ dagger constructs)."""
    mixes = [
        ("q", lambda f: _c(f, _a("q"))),
        ("c", lambda f: _c(f, _a("n"))),
        ("cq", lambda f: _c(f, _a("lit"), _a("q"))),
        ("qc", lambda f: _c(f, _a("q"), _a("lit"))),
        ("arr", lambda f: _c(f, _a("qarr"))),
        ("struct", lambda f: _c(f, _a("struct"))),
        ("sarr", lambda f: _c(f, _a("sarr"))),
        ("snest", lambda f: _c(f, _a("snest"))),
        ("stup", lambda f: _c(f, _a("lit"), _a("stup"))),
        ("sfq", lambda f: _c(f, _a("sfq"))),
    ]
    positions = ["expr", "if", "ifand", "while", "return", "assign", "annassign", "augassign", "binop",
                 "for", "ifbody", "elsebody", "pre"]

    def place(ctx, ce, pos):
        case = {"fkw": ctx["fkw"], "withs": ctx["withs"], "body": [], "pre": [], "ret": None}
        if ctx.get("gen"):
            case["gen"] = ctx["gen"]
        if pos == "return":
            case["ret"] = ce
            case["body"] = [{"k": "pass"}]
        elif pos == "pre":
            if not ctx["withs"]:
                return None
            case["pre"] = [{"k": "expr", "e": ce}]
            case["body"] = [{"k": "pass"}]
        elif pos == "ifbody":
            case["body"] = [{"k": "if", "e": None, "b": [{"k": "expr", "e": ce}]}]
        elif pos == "elsebody":
            case["body"] = [{"k": "if", "e": None, "b": [{"k": "pass"}], "o": [{"k": "expr", "e": ce}]}]
        elif pos in ("if", "ifand", "while", "for"):
            case["body"] = [{"k": pos, "e": ce, "b": [{"k": "pass"}]}]
        else:
            case["body"] = [{"k": pos, "e": ce}]
        return case

    # flagged generic mains: callee flag lattice x a few argument mixes / positions
    for ctx in ENUM_GENERIC_CONTEXTS:
        for kw in CANON_KW:
            f = {"k": "decl", "kw": kw}
            for mname, mk in mixes:
                if mname in ("q", "c", "qc", "arr"):
                    for pos in ("expr", "if", "return"):
                        yield place(ctx, mk(f), pos)
    for ctx in ENUM_CONTEXTS:
        # generic callees (declared and defined): flag lattice x kind of generic parameter
        for kw in CANON_KW:
            for kind in ("decl", "def"):
                for gen in GENERIC:
                    f = {"k": kind, "kw": kw, "gen": gen}
                    for mname, mk in mixes:
                        if mname in ("q", "qc", "arr") and (kind == "def" or mname != "qc"):
                            yield place(ctx, mk(f), "expr" if mname != "qc" else "if")
        # callee flag lattice x argument mix x position
        for kw in CANON_KW:
            for kind in ("decl", "def"):
                f = {"k": kind, "kw": kw}
                for mname, mk in mixes:
                    for pos in positions:
                        if kind == "def" and (mname not in ("q", "qc") or pos not in ("expr", "if", "return")):
                            continue
                        c = place(ctx, mk(f), pos)
                        if c:
                            yield c
            # nested call in an earlier / later argument of a fully unitary callee, and the reverse
            f = {"k": "decl", "kw": kw}
            U = {"k": "decl", "kw": ["unitary"]}
            for pos in ("expr", "if", "return", "assign"):
                for ce in (_c(U, _a("q"), _a("call", _c(f, _a("q")))),
                           _c(U, _a("call", _c(f, _a("q"))), _a("q")),
                           _c(U, _a("call", _c(f, _a("q")))),
                           _c(f, _a("q"), _a("call", _c(U, _a("q")))),
                           _c(U, _a("lit"), _a("q"), _a("call", _c(f, _a("lit"), _a("q"))))):
                    c = place(ctx, ce, pos)
                    if c:
                        yield c
        # other callee kinds
        for f, ret in (({"k": "local"}, None), ({"k": "std", "name": "h"}, "none"),
                       ({"k": "std", "name": "reset"}, "none"), ({"k": "std", "name": "project_z"}, "bool"),
                       ({"k": "barrier"}, "none"), ({"k": "state_result"}, "none")):
            for ak in ("q", "qsub", "sfq") + (("qarr",) if f["k"] in ("barrier", "state_result", "local") else ()) \
                    + (("n", "struct", "sarr", "snest") if f["k"] == "local" else ()):
                for pos in (["expr", "ifbody", "pre"] if ret == "none" else
                            ["if", "while", "ifand"] if ret == "bool" else ["expr", "if", "return", "assign"]):
                    c = place(ctx, _c(f, _a(ak)), pos)
                    if c:
                        yield c
        yield place(ctx, _c({"k": "std", "name": "cx"}, _a("q"), _a("qsub")), "expr")
        yield place(ctx, _c({"k": "barrier"}, _a("q"), _a("qsub")), "expr")
        # dagger constructs with a fully unitary callee / no callee
        U = {"k": "decl", "kw": ["control", "dagger", "power"]}
        base = {"fkw": ctx["fkw"], "withs": ctx["withs"], "pre": [], "ret": None}
        for body in (
            [{"k": "while", "e": None, "b": [{"k": "pass"}]}],
            [{"k": "for", "e": None, "b": [{"k": "expr", "e": _c(U, _a("q"))}]}],
            [{"k": "assign", "e": None}], [{"k": "annassign", "e": None}], [{"k": "augassign", "e": None}],
            [{"k": "if", "e": None, "b": [{"k": "assign", "e": None}]}],
            [{"k": "if", "e": None, "b": [{"k": "pass"}], "o": [{"k": "while", "e": None, "b": []}]}],
            [{"k": "expr", "e": _c(U, _a("qsub"))}], [{"k": "expr", "e": _c(U, _a("csub"))}],
            [{"k": "expr", "e": _c(U, _a("q"), _a("qsub"))}], [{"k": "expr", "e": _c(U, _a("q"), _a("csub"))}],
            [{"k": "expr", "e": _c(U, _a("lit"), _a("qsub"))}],
            [{"k": "if", "e": _c(U, _a("qsub")), "b": [{"k": "pass"}]}],
            [{"k": "binop", "e": _c(U, _a("csub"))}],
            [{"k": "pass"}],
        ):
            yield dict(base, body=body)
        if ctx["withs"]:
            for pre in ([{"k": "while", "e": None, "b": []}], [{"k": "assign", "e": None}],
                        [{"k": "augassign", "e": None}], [{"k": "expr", "e": _c(NU, _a("qsub"))}],
                        [{"k": "for", "e": _c(NU, _a("q")), "b": []}]):
                yield dict(base, body=[{"k": "expr", "e": _c(U, _a("q"))}], pre=pre)


# ------------------------------------------------------------------------------- hypothesis
def strategies():
    from hypothesis import strategies as st

    kw_sets = st.sampled_from(list(subsets(KW)))

    def callee_kw(req):
        """callee kwargs: half of the time a superset of the required flags"""
        need = [k for k in ("control", "dagger", "power") if KW_FLAGS[k] in req]

        def sup(extra):
            kws = sorted(set(need) | set(extra), key=KW.index)
            return ["unitary"] if set(kws) >= {"control", "dagger", "power"} and len(extra) % 2 else kws

        return st.one_of(kw_sets, st.sampled_from(list(subsets(("control", "dagger", "power")))).map(sup))

    @st.composite
    def call(draw, ret, req, depth, budget):
        kinds = ["decl"] * 6 + ["def"] * 2 + ["local"] * 2
        if ret == "none":
            kinds += ["std", "std", "barrier", "state_result"]
        if ret == "bool":
            kinds += ["std", "std"]
        kind = draw(st.sampled_from(kinds))

        def qlike(allowed):
            opts = [k for k in allowed if k not in ("qsub",) or budget["qsub"] > 0]
            k = draw(st.sampled_from(opts))
            if k == "qsub":
                budget["qsub"] -= 1
            return _a(k)

        if kind == "std":
            name = draw(st.sampled_from(["h", "cx", "reset"])) if ret == "none" else "project_z"
            n = 2 if name == "cx" else 1
            return _c({"k": "std", "name": name}, *[qlike(["q", "q", "qsub", "sfq"]) for _ in range(n)])
        if kind in ("barrier", "state_result"):
            if kind == "state_result":  # all arguments of one type: qubits or one array
                if draw(st.integers(0, 3)) == 0:
                    return _c({"k": kind}, _a("qarr"))
                n = draw(st.integers(1, 2))
                return _c({"k": kind}, *[qlike(["q", "q", "qsub", "sfq"]) for _ in range(n)])
            n = draw(st.integers(1, 3))
            return _c({"k": kind}, *[qlike(["q", "q", "qsub", "qarr", "sfq"]) for _ in range(n)])
        f = {"k": kind}
        if kind in ("decl", "def"):
            f["kw"] = draw(callee_kw(req))
            gen = draw(st.sampled_from([None, None, None, "tvar", "nvar", "comptime"]))
            if gen:
                f["gen"] = gen
        n = draw(st.integers(1, 3))
        args = []
        for _ in range(n):
            opts = ["q"] * 4 + ["lit"] * 2 + ["n", "csub", "sfn", "qarr", "struct", "sfq", "sarr", "snest", "stup"]
            if budget["qsub"] > 0:
                opts += ["qsub"]
            if depth < 2 and budget["calls"] > 0:
                opts += ["call"] * 3
            k = draw(st.sampled_from(opts))
            if k == "qsub":
                budget["qsub"] -= 1
            if k == "call":
                budget["calls"] -= 1
                args.append(_a("call", draw(call("int", req, depth + 1, budget))))
            else:
                args.append(_a(k))
        return _c(f, *args)

    def top_call(ret, req):
        return st.deferred(lambda: call(ret, req, 0, {"qsub": 4, "calls": 3}))

    @st.composite
    def stmt(draw, req, depth):
        kinds = (["expr"] * 5 + ["if", "if", "ifand", "ifor", "ifnot", "while", "while", "for", "for",
                                 "assign", "annassign", "augassign", "binop"])
        if depth >= 2:
            kinds = ["expr"] * 3 + ["assign", "augassign", "binop", "pass"]
        k = draw(st.sampled_from(kinds))
        s = {"k": k}
        if k in ("expr", "binop"):
            s["e"] = draw(top_call("none" if k == "expr" else "int", req))
        elif k in ("if", "ifand", "ifor", "ifnot", "while"):
            with_call = k != "if" and k != "while" or draw(st.integers(0, 3)) > 0
            s["e"] = draw(top_call("bool", req)) if with_call else None
            s["b"] = draw(st.lists(stmt(req, depth + 1), min_size=0, max_size=1 if depth else 2))
            if k == "if" and draw(st.booleans()):
                s["o"] = draw(st.lists(stmt(req, depth + 1), min_size=1, max_size=1))
        elif k == "for":
            s["e"] = draw(top_call("int", req)) if draw(st.booleans()) else None
            s["b"] = draw(st.lists(stmt(req, depth + 1), min_size=0, max_size=1))
        elif k in ("assign", "annassign", "augassign"):
            s["e"] = draw(top_call("int", req)) if draw(st.integers(0, 3)) > 0 else None
        return s

    @st.composite
    def case(draw):
        shape = draw(st.sampled_from(["func"] * 4 + ["with"] * 4 + ["func+with", "with+with"]))
        mods = st.lists(st.sampled_from(MODS), min_size=1, max_size=3)
        fkw, withs = [], []
        if shape in ("func", "func+with"):
            fkw = draw(kw_sets.filter(bool)) if shape == "func" else draw(kw_sets)
        if shape in ("with", "func+with"):
            withs = [draw(mods)]
        if shape == "with+with":
            withs = [draw(mods), draw(mods)]
        c = {"fkw": fkw, "withs": withs, "pre": [], "ret": None}
        gen = draw(st.sampled_from([[]] * 4 + _GEN_ROT))
        if gen:
            c["gen"] = gen
        ff, _, req = contexts(c)
        c["body"] = draw(st.lists(stmt(req, 0), min_size=1, max_size=3))
        if withs and draw(st.integers(0, 2)) == 0:
            c["pre"] = draw(st.lists(stmt(ff, 1), min_size=1, max_size=1))
        if draw(st.integers(0, 3)) == 0:
            c["ret"] = draw(top_call("int", ff))
        return c

    return case()


# ------------------------------------------------------------------------------- worker
def run_case(ctx, case):
    try:
        finds, info = evaluate(case)
    except harness.HarnessError as e:
        ctx.harness_error(str(e))
        return
    labels, nontrivial = describe(case, info["reasons"])
    labels.append("got:" + info["got"])
    if info.get("reason_agrees") is False:
        labels.append("note:rejected_for_other_reason")
    if info.get("generic_flagged"):
        labels.append("metadata:generic_flagged_checked")
    from vlib import runner

    body = info["src"][len(runner.PRELUDE):].lstrip("\n")
    ctx.case(case, nontrivial, labels=labels,
             sample={"program": body, "expect": info["expect"], "got": info["got"],
                     "reasons": sorted({k + ("@" + "+".join(sorted(l)) if l else "") for k, l in info["reasons"]})})
    for bucket, detail in finds:
        if bucket.startswith("missed.") and set(bucket[7:].split("+")) <= EXCLUDE:
            ctx.exclude(bucket)
            continue
        ctx.violation(bucket, case, detail)


def worker(ctx):
    # 1. deterministic slice of the enumerated single-call product
    cap = ctx.params["enum"]
    mine = [c for i, c in enumerate(enum_cases()) if c is not None and i % ctx.nshards == ctx.shard]
    ctx.notes["enum_product_size"] = sum(1 for c in enum_cases() if c is not None)
    if cap and len(mine) > cap:
        rot = (ctx.seed * 7919) % len(mine)
        mine = mine[rot:] + mine[:rot]
        step = len(mine) / cap
        mine = [mine[int(j * step)] for j in range(cap)]
    for c in mine:
        if ctx.out_of_time(0.5):
            ctx.label("note:enum_cut_by_time")
            break
        run_case(ctx, c)
    # 2. Hypothesis compositions of 1-3 statements
    harness.hyp_search(ctx, strategies(), lambda c: run_case(ctx, c), max_examples=ctx.params["n"], chunk=100)


SPEC = harness.Spec(
    PROP, worker, replay,
    rule=("each shard evaluates a deterministic slice of the single-call product context(16 decorator kwarg "
          "subsets, 16 with-modifier lists, 7 nested contexts) x callee(declared/defined with 9 kwarg spellings of "
          "the 8 flag sets, Callable parameter, h/cx/reset/project_z, barrier, state_result) x argument mix x "
          "position, then Hypothesis composes 1-3 statements (calls nested to depth 2, if/while/for bodies, "
          "statements outside the with block). Each program is compiled with compile_function() and the verdict "
          "compared with the oracle computed from the case structure; accepted programs have the `unitary` "
          "metadata of all FuncDefns checked. About a tenth of the enumerated product and a third of the composed "
          "programs give main and/or a declared/defined callee a generic parameter (type variable, array of "
          "nat-variable length, comptime nat). non-trivial = required flags non-empty and the program has a call "
          "mixing qubit and classical arguments, a nested call, or a call in an if/while condition; distinct = "
          "distinct case structure"),
    assumptions=[
        "unitary=True is control+dagger+power (UnitaryFlags.Unitary); kwargs combine by union",
        "a with block requires Dagger iff it has an odd number of dagger modifiers (dagger is an involution), "
        "Control iff it has a control modifier, Power iff it has a power modifier",
        "nested contexts (with inside a flagged function, with inside with) require the union of the enclosing "
        "flags; statements of the same function outside the with block are only bound by the function's flags",
        "qubit-containing argument = qubit, array of qubits, qubit field of a struct, or struct with a qubit field",
        "Callable parameters carry no flags (tests/error/modifier_errors/higher_order); std gates h/cx are fully "
        "unitary, reset/project_z carry no flags",
        "metadata encoding unitary = 1*Control + 2*Dagger + 4*Power on FuncDefn nodes (main, each with body, "
        "defined callees); a nested with body may record its own or the accumulated flags",
        "a classical subscript xs[0] is a subscripted place too; loops/assignments without any quantum call are "
        "still rejected under dagger (tests/error/modifier_errors/flag_dagger_assign, flag_loop)",
        "`for` under non-dagger contexts only calls classical iterator functions and is allowed",
        "generic parameters are classical (type variable instantiated with int, int array of nat-variable length, "
        "comptime nat) apart from qubit arrays of nat-variable length; every generic callee is instantiated once, "
        "so it has one FuncDefn, which must record the declared flags",
        "tensor calls, comptime functions, nested function definitions, linear type variables, owned qubit "
        "arguments and tuples containing qubits are outside the generated domain",
    ],
    shards={"quick": 16, "thorough": 16},
    budget_s={"quick": 90, "thorough": 900},
    params={"quick": {"enum": 1000, "n": 300}, "thorough": {"enum": 0, "n": 6000}},
    min_nontrivial=1000,
)

if __name__ == "__main__":
    harness.main(SPEC)
