"""C31 Printed types read back as the same type.

Statement: for every type without function components, the type string shown in diagnostics
(`str(ty)`) parses back, as a Guppy annotation, to the same type.  Distinct type variables are
always printed with distinct names.

Two halves, both driven by Hypothesis over JSON type descriptions that are turned into /repo's
own type objects (NumericType, NoneType, TupleType, OpaqueType via tys.builtin, StructType):

* round trip (kind "rt"): first-order ground types over int/nat/float/bool/str/None, tuples of
  length 0..5, array[T, n], frozenarray[T, n], Option[T] and structs (plain, generic over
  types, nat/bool/float consts; legacy `Generic[...]` and PEP 695 syntax) defined per process
  with `@guppy.struct` in a module made by `runner.load_module`.
  Oracle: `type_from_ast(ast.parse(str(ty), mode="eval").body, ctx) == ty`, ctx =
  `TypeParsingCtx(Globals(<frame of the struct module>))` - the very Globals the compiler uses
  for definitions of that module, so struct names and builtins resolve as in user code.
* name uniqueness (kind "fn"): rank-1 generic function types `forall p.. . inputs -> output`
  with bound type/const variables, hidden comptime parameters, existential type/const
  variables, repeated display names, nested (non-generic) function types.  Oracle, from the
  statement only (no name is predicted): the printed binder lists one name per visible
  parameter, all different; walking the printed body left to right the i-th variable token
  belongs to the i-th variable occurrence of the description, and variable <-> printed name is a
  bijection; a bound and an existential variable whose names differ only by the `?` sigil
  (`T` / `?T`) are reported too, in a bucket of their own (names.collision.sigil_only).

Failures are bucketed by root cause = shape of the innermost failing subterm (a subterm that
does not round-trip although all its children do).
"""
import ast
import math
import os
import re
import sys

sys.path.insert(0, os.path.dirname(os.path.dirname(os.path.abspath(__file__))))
from vlib import harness  # noqa: E402

PROP = "C31"

# Input classes left out of the *search* because they are findings of this very check (see
# PROBES: one fixed input per class, run by shard 0 and usable as known-finding probe).  A class
# is only excluded while its probe still fails: once /repo is fixed the class is searched again
# without touching this file.  Set to set() (or VERIF_C31_EXCLUDE="") to search everything.
EXCLUDE = {"tuple1", "single_tuple_arg"}
if "VERIF_C31_EXCLUDE" in os.environ:
    EXCLUDE = set(os.environ["VERIF_C31_EXCLUDE"].split(",")) - {""}

# ------------------------------------------------------------------------------- struct module
# name -> (source snippet, params, intrinsically copyable).  param = ("type", needs_copyable) |
# ("nat",) | ("bool",) | ("float",).  Every snippet is self-contained (declares its own vars).
STRUCTS = {
    "S0": ("@guppy.struct\nclass S0:\n    x: int\n    y: float\n", [], True),
    "Emp": ("@guppy.struct\nclass Emp:\n    pass\n", [], True),
    "Box": ('T = guppy.type_var("T")\n@guppy.struct\nclass Box(Generic[T]):\n    x: T\n',
            [("type", True)], True),
    "Pair": ('T = guppy.type_var("T")\nU = guppy.type_var("U")\n@guppy.struct\n'
             "class Pair(Generic[T, U]):\n    x: T\n    y: U\n", [("type", True), ("type", True)], True),
    "Aff": ('A = guppy.type_var("A", copyable=False, droppable=True)\n@guppy.struct\n'
            "class Aff(Generic[A]):\n    x: A\n", [("type", False)], True),
    "Vec": ('A = guppy.type_var("A", copyable=False, droppable=True)\nn = guppy.nat_var("n")\n'
            "@guppy.struct\nclass Vec(Generic[A, n]):\n    xs: array[A, n]\n",
            [("type", False), ("nat",)], False),
    "Sized": ('n = guppy.nat_var("n")\n@guppy.struct\nclass Sized(Generic[n]):\n    x: int\n',
              [("nat",)], True),
    "Flag": ('b = guppy.const_var("b", "bool")\n@guppy.struct\nclass Flag(Generic[b]):\n    x: int\n',
             [("bool",)], True),
    "Fl": ('f = guppy.const_var("f", "float")\n@guppy.struct\nclass Fl(Generic[f]):\n    x: int\n',
           [("float",)], True),
    "New": ("@guppy.struct\nclass New[T, n: nat]:\n    x: T\n", [("type", False), ("nat",)], True),
    "Mix": ("@guppy.struct\nclass Mix[T: (Copy, Drop), k: nat, U]:\n    x: T\n    y: U\n",
            [("type", True), ("nat",), ("type", False)], True),
}
HEADER = ("from guppylang import guppy\nfrom guppylang.std.builtins import *\n"
          "from guppylang.std.builtins import array, frozenarray, nat, owned, comptime\n"
          "from guppylang.std.option import Option\nfrom typing import Generic\n")
LEAVES = ["int", "nat", "float", "bool", "str", "None"]


def struct_src(names):
    return HEADER + "".join(STRUCTS[n][0] for n in sorted(names))


_ENVS = {}


class Env:
    """struct module + parsing context of one process (per source text)"""

    def __init__(self, src):
        from guppylang_internals.checker.core import Globals
        from guppylang_internals.engine import DEF_STORE
        from guppylang_internals.tys.parsing import TypeParsingCtx
        from vlib import runner

        self.src = src
        self.lm = runner.load_module(src)
        self.globals = None
        for name in STRUCTS:
            v = self.lm.mod.__dict__.get(name)
            if v is not None and getattr(v, "id", None) in DEF_STORE.frames and \
                    DEF_STORE.frames[v.id].f_globals is self.lm.mod.__dict__:
                # the Globals the compiler itself uses for definitions of this module
                self.globals = Globals(DEF_STORE.frames[v.id])
                break
        if self.globals is None:  # source without structs
            self.globals = Globals(None)
            self.globals.f_globals = self.lm.mod.__dict__
        self._ctx = TypeParsingCtx

    def ctx(self):
        return self._ctx(self.globals)  # fresh param_var_mapping every time

    def struct_def(self, name):
        from guppylang_internals.engine import ENGINE

        return ENGINE.get_checked(getattr(self.lm.mod, name).id)


def env_for(src=None):
    src = src or struct_src(STRUCTS)
    if src not in _ENVS:
        _ENVS[src] = Env(src)
    return _ENVS[src]


# ------------------------------------------------------------------------- description helpers
def children(d):
    k = d[0]
    if k == "tuple":
        return list(d[1])
    if k in ("array", "frozenarray"):
        return [d[1]]
    if k == "option":
        return [d[1]]
    if k == "struct":
        return [a for a in d[2] if a[0] != "const"]
    if k == "fun":
        return [i[0] for i in d[1]] + [d[2]]
    return []


def depth(d):
    cs = children(d)
    return 0 if not cs and d[0] in LEAVES else 1 + max([depth(c) for c in cs], default=0)


def subterms(d):
    yield d
    for c in children(d):
        yield from subterms(c)


def structs_in(d):
    return {t[1] for t in subterms(d) if t[0] == "struct"}


def copyable(d):
    k = d[0]
    if k == "array":
        return False
    if k == "struct" and not STRUCTS[d[1]][2]:
        return False
    return all(copyable(c) for c in children(d))


def valid(d):
    """well-formed for the parser: kinds/arity of struct args, copyable where demanded"""
    k = d[0]
    if k in LEAVES:
        return len(d) == 1
    if k == "frozenarray" and not copyable(d[1]):
        return False
    if k == "struct":
        ps = STRUCTS[d[1]][1]
        if len(ps) != len(d[2]):
            return False
        for p, a in zip(ps, d[2]):
            if p[0] == "type":
                if a[0] == "const" or (p[1] and not copyable(a)):
                    return False
            elif a[0] != "const" or a[1] != p[0]:
                return False
    return all(valid(c) for c in children(d))


def is_tuple1(d):
    return d[0] == "tuple" and len(d[1]) == 1


def is_single_tuple_arg(d):
    """generic with exactly one parameter whose argument is a tuple"""
    if d[0] == "option":
        a = d[1]
    elif d[0] == "struct" and len(d[2]) == 1:
        a = d[2][0]
    else:
        return False
    return a[0] == "tuple"


def features(d):
    f = set()
    for t in subterms(d):
        k = t[0]
        if k == "tuple":
            n = len(t[1])
            f.add("tuple%s" % (n if n < 3 else "3+"))
        elif k in ("array", "frozenarray", "option"):
            f.add(k)
        elif k == "struct":
            ps = STRUCTS[t[1]][1]
            f.add("struct_generic" if ps else "struct_plain")
            for a in t[2]:
                if a[0] == "const":
                    f.add("const_" + a[1])
        elif k in LEAVES:
            f.add("leaf_" + k)
    return f


def normalise(d, active):
    """rewrite the shapes of the active exclusion classes away (bottom-up). -> (d', hits)"""
    hits = {}

    def go(t):
        k = t[0]
        if k == "tuple":
            t = ["tuple", [go(c) for c in t[1]]]
            if "tuple1" in active and len(t[1]) == 1:
                hits["tuple1"] = hits.get("tuple1", 0) + 1
                t = ["tuple", [t[1][0], ["int"]]]
        elif k in ("array", "frozenarray"):
            t = [k, go(t[1]), t[2]]
        elif k == "option":
            t = ["option", go(t[1])]
        elif k == "struct":
            t = ["struct", t[1], [a if a[0] == "const" else go(a) for a in t[2]]]
        if "single_tuple_arg" in active and is_single_tuple_arg(t):
            hits["single_tuple_arg"] = hits.get("single_tuple_arg", 0) + 1
            a = t[1] if t[0] == "option" else t[2][0]
            while a[0] == "tuple":
                a = a[1][0] if a[1] else ["None"]
            t = ["option", a] if t[0] == "option" else ["struct", t[1], [a]]
        return t

    return go(d), hits


# ------------------------------------------------------------------- building /repo's types
def build(d, env, vars=None):
    from guppylang_internals.tys import builtin as B
    from guppylang_internals.tys.arg import ConstArg, TypeArg
    from guppylang_internals.tys.const import ConstValue
    from guppylang_internals.tys.ty import (FuncInput, FunctionType, InputFlags, NoneType,
                                            StructType, TupleType)

    def const(c):
        if c[0] == "const":
            ty = {"nat": B.nat_type, "bool": B.bool_type, "float": B.float_type}[c[1]]()
            return ConstValue(ty, c[2])
        return vars[(c[0], c[1])].const  # ("bc", i) / ("ec", j): ConstArg in vars

    k = d[0]
    if k == "int":
        return B.int_type()
    if k == "nat":
        return B.nat_type()
    if k == "float":
        return B.float_type()
    if k == "bool":
        return B.bool_type()
    if k == "str":
        return B.string_type()
    if k == "None":
        return NoneType()
    if k == "tuple":
        return TupleType([build(c, env, vars) for c in d[1]])
    if k == "array":
        return B.array_type(build(d[1], env, vars), const(d[2]))
    if k == "frozenarray":
        return B.frozenarray_type(build(d[1], env, vars), const(d[2]))
    if k == "option":
        return B.option_type(build(d[1], env, vars))
    if k == "struct":
        args = [ConstArg(const(a)) if a[0] in ("const", "bc", "ec") else TypeArg(build(a, env, vars))
                for a in d[2]]
        return StructType(args, env.struct_def(d[1]))
    if k in ("bv", "ev"):
        return vars[(k, d[1])].ty
    if k == "fun":
        return FunctionType([FuncInput(build(t, env, vars), _flag(InputFlags, f)) for t, f in d[1]],
                            build(d[2], env, vars))
    raise harness.HarnessError(f"bad description {d!r}")


def _flag(InputFlags, f):
    return {"": InputFlags.NoFlags, "inout": InputFlags.Inout, "owned": InputFlags.Owned,
            "comptime": InputFlags.Comptime}[f]


# --------------------------------------------------------------------------- round-trip oracle
def roundtrip_one(d, env):
    """None if `d` prints and reads back as itself, else (what, detail)"""
    from guppylang_internals.error import GuppyError
    from guppylang_internals.tys.parsing import type_from_ast

    ty = build(d, env)
    try:
        s = str(ty)
    except Exception as e:  # noqa: BLE001
        return ("print." + type(e).__name__, f"str(ty) raised {e!r}")
    try:
        node = ast.parse(s, mode="eval").body
    except SyntaxError as e:
        return ("SyntaxError", f"printed {s!r} is not a Python expression: {e}")
    try:
        back = type_from_ast(node, env.ctx())
    except GuppyError as e:
        return (type(e.error).__name__, f"printed {s!r} is rejected as annotation: {type(e.error).__name__}"
                f"({ {k: v for k, v in vars(e.error).items() if k in ('expected', 'actual', 'type_name', 'var')} })")
    except Exception as e:  # noqa: BLE001
        return ("parse." + type(e).__name__, f"type_from_ast({s!r}) raised {e!r}")
    if back != ty:
        return ("mismatch", f"printed {s!r} reads back as {str(back)!r} ({back!r})")
    return None


def innermost_failure(d, env):
    """(subterm, what, detail) of a failing subterm all of whose children round-trip, or None"""
    r = roundtrip_one(d, env)
    if r is None:
        return None
    for c in children(d):
        inner = innermost_failure(c, env)
        if inner is not None:
            return inner
    return (d, r[0], r[1])


def rt_bucket(sub, what):
    if is_tuple1(sub):
        return "roundtrip.tuple1"
    if is_single_tuple_arg(sub):
        return "roundtrip.single_tuple_arg"
    ctor = sub[1] if sub[0] == "struct" else sub[0]
    return f"roundtrip.{ctor}.{what}"


def eval_rt(d, env, minimise=False):
    """-> None | (bucket, case, detail); case = innermost failing subterm (greedily simplified
    within the same bucket if `minimise`)"""
    f = innermost_failure(d, env)
    if f is None:
        return None
    sub, what, detail = f
    b = rt_bucket(sub, what)
    if minimise:
        sub = shrink(sub, lambda t: (lambda g: g is not None and rt_bucket(g[0], g[1]) == b)(innermost_failure(t, env)))
    g = innermost_failure(sub, env)
    case = {"kind": "rt", "ty": g[0], "printed": _safe_str(g[0], env)}
    if structs_in(g[0]):
        case["src"] = struct_src(structs_in(g[0]))
    return (b, case, g[2])


def _safe_str(d, env):
    try:
        return str(build(d, env))
    except Exception as e:  # noqa: BLE001
        return f"<{e!r}>"


def _safe_fn_str(fd, env):
    try:
        return str(build_fn(fd, env))
    except Exception as e:  # noqa: BLE001
        return f"<{e!r}>"


def shrink(d, fails, rounds=12):
    """greedy: replace subterms by `int`/`None` or by one of their children while `fails`"""
    def variants(t):
        # every description obtained by simplifying exactly one position
        if t[0] not in ("int",):
            yield ["int"]
        for c in children(t):
            yield c
        k = t[0]
        if k == "tuple":
            for i in range(len(t[1])):
                if len(t[1]) > 2:
                    yield ["tuple", t[1][:i] + t[1][i + 1:]]
                for v in variants(t[1][i]):
                    yield ["tuple", t[1][:i] + [v] + t[1][i + 1:]]
        elif k in ("array", "frozenarray"):
            if t[2] != ["const", "nat", 1]:
                yield [k, t[1], ["const", "nat", 1]]
            for v in variants(t[1]):
                yield [k, v, t[2]]
        elif k == "option":
            for v in variants(t[1]):
                yield ["option", v]
        elif k == "struct":
            for i, a in enumerate(t[2]):
                if a[0] == "const":
                    continue
                for v in variants(a):
                    yield ["struct", t[1], t[2][:i] + [v] + t[2][i + 1:]]

    for _ in range(rounds):
        for v in variants(d):
            if valid(v) and len(repr(v)) < len(repr(d)) and fails(v):
                d = v
                break
        else:
            break
    return d


# ---------------------------------------------------------------------- name-uniqueness oracle
RESERVED = {"int", "nat", "float", "bool", "str", "None", "array", "frozenarray", "Option", "forall",
            "owned", "comptime", "True", "False"} | set(STRUCTS)
NAME_POOL = ["T", "U", "n", "x", "T1", "a"]
TOKEN = re.compile(r"(?<![\w.'?])\??[A-Za-z_][A-Za-z0-9_]*(?:'\d+)?")


def fn_occurrences(fd):
    """variable occurrences of the body in printing order (inputs left to right, then output)"""
    out = []

    def go(t):
        k = t[0]
        if k == "bv":
            out.append(("b", t[1]))
        elif k == "ev":
            out.append(("e", t[1]))
        elif k == "tuple":
            for c in t[1]:
                go(c)
        elif k in ("array", "frozenarray"):
            go(t[1])
            if t[2][0] in ("bc", "ec"):
                out.append((t[2][0][0], t[2][1]))
        elif k == "option":
            go(t[1])
        elif k == "struct":
            for a in t[2]:
                if a[0] in ("bc", "ec"):
                    out.append((a[0][0], a[1]))
                elif a[0] != "const":
                    go(a)
        elif k == "fun":
            for i in t[1]:
                go(i[0])
            go(t[2])

    for t, _ in fd["inputs"]:
        go(t)
    go(fd["output"])
    return out


def _level_fresh_ids(TV, CV, nat):
    """Variables only come from `fresh()`; their ids are an allocation detail the printer must not depend
    on.  If type and const existentials draw their ids from separate supplies, a fresh process starts with
    both supplies level; that situation is re-created here through the public API alone: read one id of
    each kind and draw throw-away variables of the kind that lags behind.  With one shared supply (the
    code as it stands) this draws a single variable and changes nothing."""
    t = TV.fresh("lvl", True, True).id
    c = CV.fresh("lvl", nat).id
    for _ in range(min(abs(t - c), 20000)):
        if c < t:
            CV.fresh("lvl", nat)
        else:
            TV.fresh("lvl", True, True)


def build_fn(fd, env):
    from guppylang_internals.tys import builtin as B
    from guppylang_internals.tys.arg import ConstArg, TypeArg
    from guppylang_internals.tys.const import ExistentialConstVar
    from guppylang_internals.tys.param import ConstParam, TypeParam
    from guppylang_internals.tys.ty import ExistentialTypeVar, FuncInput, FunctionType, InputFlags

    params, vars = [], {}
    for i, p in enumerate(fd["params"]):
        name, kind, hidden = p
        if kind == "type":
            par = TypeParam(i, name, must_be_copyable=False, must_be_droppable=False)
            vars[("bv", i)] = par.to_bound()
        else:
            par = ConstParam(i, name, B.nat_type(), from_comptime_arg=bool(hidden))
            vars[("bc", i)] = par.to_bound()
        params.append(par)
    if len({kind for _, kind in fd["evars"]}) > 1:
        _level_fresh_ids(ExistentialTypeVar, ExistentialConstVar, B.nat_type())
    for j, (name, kind) in enumerate(fd["evars"]):
        if kind == "type":
            vars[("ev", j)] = TypeArg(ExistentialTypeVar.fresh(name, True, True))
        else:
            vars[("ec", j)] = ConstArg(ExistentialConstVar.fresh(name, B.nat_type()))
    inputs = [FuncInput(build(t, env, vars), _flag(InputFlags, f)) for t, f in fd["inputs"]]
    return FunctionType(inputs, build(fd["output"], env, vars), params)


def eval_fn(fd, env):
    """-> None | (bucket, detail)"""
    ty = build_fn(fd, env)
    try:
        s = str(ty)
    except Exception as e:  # noqa: BLE001
        return ("names.print." + type(e).__name__, f"str(ty) raised {e!r}")
    body = s
    visible = [i for i, p in enumerate(fd["params"]) if not p[2]]
    name_of = {}  # variable -> printed name
    if fd["params"]:
        if not s.startswith("forall ") or ". " not in s:
            return ("names.binder", f"generic function type printed without a binder: {s!r}")
        binder, body = s[len("forall "):].split(". ", 1)
        bnames = [b.split(":")[0].strip() for b in binder.split(",")] if binder.strip() else []
        if len(bnames) != len(visible):
            return ("names.binder", f"{len(visible)} visible parameters but binder lists {bnames}: {s!r}")
        if len(set(bnames)) != len(bnames):
            return ("names.collision", f"binder repeats a name: {bnames} in {s!r}")
        for i, nm in zip(visible, bnames):
            name_of[("b", i)] = nm
    toks = [t for t in TOKEN.findall(body) if t.lstrip("?").split("'")[0] not in RESERVED]
    occ = fn_occurrences(fd)
    if len(toks) != len(occ):
        return ("names.occurrences", f"{len(occ)} variable occurrences in the type but the printed body "
                f"shows {len(toks)} variable tokens {toks}: {s!r}")
    for var, tok in zip(occ, toks):
        if (var[0] == "e") != tok.startswith("?"):
            return ("names.sigil", f"occurrence {var} printed as {tok!r} in {s!r}")
        if name_of.setdefault(var, tok) != tok:
            return ("names.unstable", f"variable {var} printed as {name_of[var]!r} and as {tok!r} in {s!r}")
    inv, bare = {}, {}
    for var, nm in sorted(name_of.items()):
        if inv.setdefault(nm, var) != var:
            return ("names.collision", f"distinct variables {inv[nm]} and {var} are both printed as {nm!r} in {s!r}")
    for var, nm in sorted(name_of.items()):
        # the printer draws bound and existential names from one supply (`T`, `?T'1`): a bound and an
        # existential variable that differ only by the `?` sigil are reported in a bucket of their own
        if bare.setdefault(nm.lstrip("?"), var) != var:
            return ("names.collision.sigil_only", f"variables {bare[nm.lstrip('?')]} and {var} are printed as "
                    f"{name_of[bare[nm.lstrip('?')]]!r} and {nm!r} (same name up to the `?` sigil) in {s!r}")
    # the DESIGN formulation: number of distinct names == number of distinct variables
    nvars = len(set(occ) | {("b", i) for i in visible})
    if len(set(name_of.values())) != nvars:
        return ("names.count", f"{nvars} distinct variables, {len(set(name_of.values()))} distinct names in {s!r}")
    return None


# ------------------------------------------------------------------------------------- probes
PROBES = {
    "tuple1": {"kind": "rt", "ty": ["tuple", [["int"]]]},
    "single_tuple_arg": {"kind": "rt", "ty": ["struct", "Box", [["tuple", [["int"], ["float"]]]]],
                         "src": struct_src({"Box"})},
}


def replay(case):
    env = env_for(case.get("src"))
    if case["kind"] == "rt":
        d = case["ty"]
        if not valid(d):
            raise harness.HarnessError(f"replay case is not a well-formed type description: {d!r}")
        r = eval_rt(d, env)
        return None if r is None else (r[0], r[2])
    return eval_fn(case["fn"], env)


# ---------------------------------------------------------------------------------- strategies
def make_strategies(st):
    nat_const = st.one_of(st.sampled_from([0, 1, 2, 3, 10]), st.integers(0, 2**64 - 1),
                          st.sampled_from([2**63, 2**64 - 1, 2**64, 10**30]))
    flt_const = st.floats(min_value=0.0, allow_nan=False, allow_infinity=False).filter(
        lambda x: math.copysign(1.0, x) > 0)
    cp_structs = [n for n, (_, _, ic) in STRUCTS.items() if ic]

    def const(kind):
        if kind == "nat":
            return nat_const.map(lambda v: ["const", "nat", v])
        if kind == "bool":
            return st.booleans().map(lambda v: ["const", "bool", v])
        return flt_const.map(lambda v: ["const", "float", v])

    @st.composite
    def ty(draw, d, cp):
        """ground type of depth <= d; cp: must be copyable"""
        if d <= 0:
            return [draw(st.sampled_from(LEAVES))]
        kinds = ["leaf", "tuple", "tuple", "frozenarray", "option", "struct", "struct", "struct"]
        if not cp:
            kinds += ["array", "array"]
        k = draw(st.sampled_from(kinds))
        if k == "leaf":
            return [draw(st.sampled_from(LEAVES))]
        if k == "tuple":
            n = draw(st.sampled_from([0, 0, 0, 1, 1, 1, 2, 2, 2, 3, 4, 5]))
            return ["tuple", [draw(ty(d - 1, cp)) for _ in range(n)]]
        if k == "array":
            return ["array", draw(ty(d - 1, False)), draw(const("nat"))]
        if k == "frozenarray":
            return ["frozenarray", draw(ty(d - 1, True)), draw(const("nat"))]
        if k == "option":
            return ["option", draw(ty(d - 1, cp))]
        name = draw(st.sampled_from((cp_structs if cp else sorted(STRUCTS)) + ["S0", "Emp"] + ["Flag", "Fl"] * 3))
        args = []
        for p in STRUCTS[name][1]:
            args.append(draw(ty(d - 1, cp or p[1])) if p[0] == "type" else draw(const(p[0])))
        return ["struct", name, args]

    rt = st.integers(1, 4).flatmap(lambda d: ty(d, False)).map(lambda t: ("rt", t))

    # ---- generic function types
    @st.composite
    def fn(draw):
        pool = draw(st.sampled_from([NAME_POOL[:1], NAME_POOL[:2], NAME_POOL[:3], NAME_POOL]))
        nm = st.sampled_from(pool)
        np_ = draw(st.integers(0, 5))
        params = []
        for _ in range(np_):
            kind = draw(st.sampled_from(["type", "type", "nat"]))
            hidden = kind == "nat" and draw(st.integers(0, 3)) == 0
            params.append([draw(nm), kind, hidden])
        ne = draw(st.integers(0 if np_ else 1, 4))
        evars = [[draw(nm), draw(st.sampled_from(["type", "type", "nat"]))] for _ in range(ne)]
        tvars = [["bv", i] for i, p in enumerate(params) if p[1] == "type"] + \
                [["ev", j] for j, e in enumerate(evars) if e[1] == "type"]
        cvars = [["bc", i] for i, p in enumerate(params) if p[1] == "nat"] + \
                [["ec", j] for j, e in enumerate(evars) if e[1] == "nat"]

        def length():
            if cvars and draw(st.booleans()):
                return draw(st.sampled_from(cvars))
            return ["const", "nat", draw(st.sampled_from([0, 1, 2, 7]))]

        def t(d):
            ks = ["var", "var", "leaf"] if tvars else ["leaf"]
            if d > 0:
                ks += ["tuple", "array", "option", "struct", "fun", "var" if tvars else "leaf"]
            k = draw(st.sampled_from(ks))
            if k == "var":
                return draw(st.sampled_from(tvars))
            if k == "leaf":
                return [draw(st.sampled_from(LEAVES))]
            if k == "tuple":
                return ["tuple", [t(d - 1) for _ in range(draw(st.sampled_from([0, 2, 2, 3])))]]
            if k == "array":
                return [draw(st.sampled_from(["array", "frozenarray"])), t(d - 1), length()]
            if k == "option":
                return ["option", t(d - 1)]
            if k == "struct":
                name = draw(st.sampled_from(["Box", "Pair", "Vec", "Sized", "New", "Mix", "S0"]))
                return ["struct", name, [t(d - 1) if p[0] == "type" else length() for p in STRUCTS[name][1]]]
            ins = [[t(d - 1), ""] for _ in range(draw(st.integers(0, 2)))]
            return ["fun", ins, t(d - 1)]

        inputs = []
        for _ in range(draw(st.integers(0, 4))):
            x = t(2)
            inputs.append([x, draw(st.sampled_from(["", "", "owned", "inout", "comptime"]))])
        return ("fn", {"params": params, "evars": evars, "inputs": inputs, "output": t(2)})

    return rt, fn()


# -------------------------------------------------------------------------------------- worker
def fn_labels(fd):
    occ = set(fn_occurrences(fd)) | {("b", i) for i, p in enumerate(fd["params"]) if not p[2]}
    names = []
    for v in sorted(occ):
        names.append(fd["params"][v[1]][0] if v[0] == "b" else fd["evars"][v[1]][0])
    rep = len(names) - len(set(names))
    labs = ["fn", "fn:repeated_name" if rep else "fn:all_names_differ"]
    if rep >= 2:
        labs.append("fn:3+_share_or_2_pairs")
    if any(v[0] == "e" for v in occ):
        labs.append("fn:existential")
    if any(p[2] for p in fd["params"]):
        labs.append("fn:hidden_comptime_param")
    if any(t[0] == "fun" for i in fd["inputs"] for t in subterms(i[0])) or \
            any(t[0] == "fun" for t in subterms(fd["output"])):
        labs.append("fn:nested_function")
    return labs, rep, len(occ)


def worker(ctx):
    from hypothesis import strategies as st

    env = env_for()
    # which exclusion classes are (still) needed: only while the fixed probe fails
    active = set()
    for cls in sorted(EXCLUDE):
        r = replay(PROBES[cls])
        if r is not None:
            active.add(cls)
            if ctx.shard == 0:
                ctx.violation(r[0], PROBES[cls], r[1])
        ctx.notes["probe:" + cls] = ("fails -> class excluded from the search" if r is not None
                                     else "passes -> class searched")
    if ctx.shard == 0:
        for cls in sorted(set(PROBES) - EXCLUDE):
            r = replay(PROBES[cls])
            if r is not None:
                ctx.violation(r[0], PROBES[cls], r[1])

    rt, fn = make_strategies(st)
    seen_buckets = {}

    def body(c):
        kind, d = c
        if kind == "rt":
            d, hits = normalise(d, active)
            for cls, n in hits.items():
                ctx.exclude(cls, n)
            if not valid(d):
                ctx.harness_error(f"generator produced an ill-formed type {d!r}")
                return
            feats = features(d)
            dp = depth(d)
            nontrivial = dp >= 2 or bool(feats & {"tuple0", "tuple1"})
            labels = ["rt", "rt:depth%d" % min(dp, 4)] + ["rt:has:" + f for f in sorted(feats) if not f.startswith("leaf_")]
            try:
                printed = str(build(d, env))
            except Exception:  # noqa: BLE001
                printed = "<print raises>"
            ctx.case(("rt", d), nontrivial, labels=labels)
            if dp >= 2:
                ctx.sample("rt:top:" + d[0], {"kind": "rt", "printed": printed, "ty": d})
            if roundtrip_one(d, env) is None:
                return
            # localise + minimise (bounded per bucket)
            f = innermost_failure(d, env)
            b = rt_bucket(f[0], f[1])
            seen_buckets[b] = seen_buckets.get(b, 0) + 1
            r = eval_rt(d, env, minimise=seen_buckets[b] <= 5)
            ctx.violation(r[0], r[1], r[2])
        else:
            labs, rep, nv = fn_labels(d)
            ctx.case(("fn", d), rep >= 1, labels=labs)
            if rep >= 1:
                ctx.sample("fn:%d_names_repeated" % min(rep, 3), {"kind": "fn", "printed": _safe_fn_str(d, env), "fn": d})
            r = eval_fn(d, env)
            if r:
                case = {"kind": "fn", "fn": d}
                used = set()
                for t, _ in d["inputs"]:
                    used |= structs_in(t)
                used |= structs_in(d["output"])
                if used:
                    case["src"] = struct_src(used)
                ctx.violation(r[0], case, r[1] + f"  [params={d['params']} evars={d['evars']}]")

    n = ctx.params["n"]
    harness.hyp_search(ctx, rt, body, max_examples=int(n * 0.7), chunk=500, time_frac=0.6)
    harness.hyp_search(ctx, fn, body, max_examples=n - int(n * 0.7), chunk=500, time_frac=0.9, extra_seed=1)


SPEC = harness.Spec(
    PROP, worker, replay,
    rule=("70% of the cases: Hypothesis draws a first-order ground type (depth 1-4) over int/nat/float/bool/str/"
          "None, tuples of length 0-5, array/frozenarray[T, n] (n up to 10^30), Option[T] and 11 structs defined "
          "with @guppy.struct in a generated module (plain, Generic[T..], nat/bool/float const params, PEP 695 "
          "syntax); respects the parser's copyability demands by construction; str(ty) is parsed back with "
          "type_from_ast under the struct module's Globals and compared with ==. non-trivial = depth >= 2 or "
          "contains a tuple of length <= 1. 30%: rank-1 generic function types with 0-5 bound (type / nat const / "
          "hidden comptime) parameters and 0-4 existential variables whose display names come from a pool of "
          "1-6 names, used in nested tuples/arrays/options/structs/non-generic function types; printed binder "
          "and body variable tokens must be in bijection with the variables. non-trivial = at least two "
          "distinct variables share a display name. distinct = distinct type description"),
    assumptions=[
        "types are built directly from /repo's type classes and tys.builtin helpers; struct types as StructType(args, ENGINE.get_checked(id)) - the object the compiler builds for an annotation",
        "annotation context = TypeParsingCtx(Globals(frame of the generated struct module)), i.e. what the compiler uses for definitions in that module; builtins resolve through Globals.builtin_defs",
        "const generic arguments: nat values >= 0, bools, non-negative finite floats. Negative / non-finite float const arguments are not generated (the annotation language has no negative literals at all, parsing.py TODO #1030), nor qubits, lists (experimental), SizedIter, existential variables in the round-trip half",
        "name uniqueness is claimed for rank-1 types only (one quantifier at the top): ParametrizedTypeBase.__post_init__ declares nested generic function types an internal error. A bound and an existential variable printed as `T` and `?T` are treated as a name clash as well (the printer draws both from one name supply; separate bucket names.collision.sigil_only so it can be triaged on its own). In addition to injectivity the oracle demands that one variable is printed under one name throughout (bucket names.unstable)",
        "display names are Python identifiers distinct from builtin/struct type names",
        "exclusion classes in EXCLUDE (1-tuples; one-parameter generic whose argument is a tuple) are rewritten away by the generator only while their fixed probe still fails; the probes themselves are evaluated by shard 0",
    ],
    shards={"quick": 16, "thorough": 16},
    budget_s={"quick": 90, "thorough": 600},
    params={"quick": {"n": 2500}, "thorough": {"n": 40000}},
    min_nontrivial=2000,
)

if __name__ == "__main__":
    harness.main(SPEC)
