"""C12 Type inference finds an instantiation exactly when one exists.

Half 1 (unify level).  Pairs of types/constants are generated as plain-tuple *mirror terms*
and translated into /repo's own classes (`to_real`).  `unify(s, t, start)` of
guppylang_internals.tys.ty is compared with `ref_unify`, a textbook Robinson unifier on the
mirror terms written from the property statement:
  * success agrees (both orientations (s, t) and (t, s) are evaluated);
  * a returned substitution, read as a triangular substitution, is acyclic, makes both sides
    (and the equations of the start substitution) identical, and is most general (theirs and
    the reference's are instances of each other on the variables of the problem);
  * `Substituter` (tys/subst.py) applied to both sides agrees with one-pass substitution on
    the mirror terms;
  * the call returns within a step / recursion budget.
Half 2 (call level).  Generated generic `@guppy.declare` declarations and callers; a call
type-checks iff first-order matching of the parameter types against the (closed) argument
types succeeds, every parameter is determined and the copy/drop bounds of the parameters hold.

Mirror terms (tuples; JSON lists in replay files):
  types   ("int",) ("nat",) ("float",) ("bool",) ("none",) ("qubit",)
          ("ev", i) existential type var   ("bv", i) bound type var
          ("tuple", (t, ...))   ("fn", ((flag, t), ...), out, k)   flag in "" "o" "b", k = #quantifiers
          ("array", t, c) ("option", t) ("list", t) ("SA", t, c) ("SB", t, u)
  consts  ("c", n) ("cv", i) existential const var   ("bc", i) bound const var
"""
import os
import sys

sys.path.insert(0, os.path.dirname(os.path.dirname(os.path.abspath(__file__))))
from vlib import harness  # noqa: E402

PROP = "C12"

# Known findings carved out of the search (VERIF_C12_EXCLUDE=0 searches inside them again).
# Unification reaches a binding `v := t` where
#  unify.cyclic_result       : t as written does not mention v but t under the bindings made so far
#                              does (the occurs check of `_unify_var` looks at `t.unsolved_vars` only);
#  unify.cyclic_result.const : t is a solved const variable whose solution is v (only a solved
#                              *type* variable on the right-hand side is chased).
# /repo then returns a cyclic substitution (buckets as named), or recurses without bound when it
# meets the cycle again (`<bucket>.diverges`).  Precise input class: `known_class()` below.
# both classes were fixed in /repo (295bfd9): nothing is excluded by default any more; VERIF_C12_EXCLUDE=1 restores the carve-out
EXCLUDE = {"unify.cyclic_result", "unify.cyclic_result.const"} if os.environ.get("VERIF_C12_EXCLUDE") == "1" else set()
KNOWN_CLASS_BUCKET = {"occurs_via_subst": "unify.cyclic_result", "const_alias": "unify.cyclic_result.const"}

# fixed probe inputs of the excluded classes (for known_findings.json "probe" / --replay)
PROBES = {
    # unify((?b, ?a), (?a, (?b,)), {}) -> {?a: (?b,), ?b: ?a}        (not unifiable)
    "unify.cyclic_result": {"kind": "unify", "s": ["tuple", [["ev", 1], ["ev", 0]]],
                            "t": ["tuple", [["ev", 0], ["tuple", [["ev", 1]]]]], "start": []},
    # unify(?m, ?k, {?k: ?m}) -> {?m: ?k, ?k: ?m}                    (unifiable: nothing to do)
    "unify.cyclic_result.const": {"kind": "unify", "s": ["cv", 1], "t": ["cv", 2], "start": [[["cv", 2], ["cv", 1]]]},
    # RecursionError on a unifiable pair (n = m = 0)
    "unify.cyclic_result.const.diverges": {
        "kind": "unify",
        "s": ["tuple", [["array", ["int"], ["cv", 1]], ["array", ["int"], ["cv", 0]], ["array", ["int"], ["c", 0]]]],
        "t": ["tuple", [["array", ["int"], ["cv", 0]], ["array", ["int"], ["cv", 1]], ["array", ["int"], ["cv", 1]]]],
        "start": []},
    # RecursionError on a non-unifiable pair (two independent cycles meet)
    "unify.cyclic_result.diverges": {
        "kind": "unify",
        "s": ["tuple", [["ev", 1], ["ev", 0], ["ev", 3], ["ev", 2], ["ev", 0]]],
        "t": ["tuple", [["ev", 0], ["tuple", [["ev", 1]]], ["ev", 2], ["tuple", [["ev", 3]]], ["ev", 2]]],
        "start": []},
}

SAMPLE_CLASSES = ("ok", "fail:occurs_direct", "fail:flags", "fail:arity", "ambiguous", "fail:const")
STEP_BUDGET = 4000  # calls of unify() per top-level call (largest count observed is reported in notes.max_unify_steps)

# copy/drop kinds of the variable pools (copyable, droppable)
EV_KIND = {0: (True, True), 1: (True, True), 2: (False, False), 3: (False, False)}
BV_KIND = {0: (True, True), 1: (False, False), 2: (True, True)}
N_CV = 3
FLAGS = ("", "o", "b")
LEAVES = ("int", "nat", "float", "bool", "none", "qubit")
UNARY = ("option", "list")


# ======================================================================= mirror terms
def tt(x):
    """JSON lists -> tuples"""
    if isinstance(x, list):
        return tuple(tt(y) for y in x)
    return x


def is_var(t):
    return t[0] in ("ev", "cv")


def is_const(t):
    return t[0] in ("c", "cv", "bc")


def children(t):
    h = t[0]
    if h == "tuple":
        return t[1]
    if h == "fn":
        return tuple(x for _, x in t[1]) + (t[2],)
    if h in ("array", "SA", "SB"):
        return (t[1], t[2])
    if h in UNARY:
        return (t[1],)
    return ()


def rebuild(t, ch):
    h = t[0]
    if h == "tuple":
        return ("tuple", tuple(ch))
    if h == "fn":
        return ("fn", tuple((f, c) for (f, _), c in zip(t[1], ch[:-1])), ch[-1], t[3])
    if h in ("array", "SA", "SB"):
        return (h, ch[0], ch[1])
    if h in UNARY:
        return (h, ch[0])
    return t


def head(t):
    """constructor symbol incl. arity (what must agree for two non-variable terms)"""
    h = t[0]
    if h == "tuple":
        return ("tuple", len(t[1]))
    if h == "fn":
        return ("fn", len(t[1]), t[3])
    if h in ("c", "bv", "bc"):
        return t
    return (h,)


def clash_reason(s, t):
    a, b = s[0], t[0]
    if a == b == "tuple":
        return "arity"
    if a == b == "fn":
        return "arity" if len(s[1]) != len(t[1]) else "params"
    if a == b == "c":
        return "const"
    if a in ("bv", "bc") or b in ("bv", "bc"):
        return "bound"
    return "head"


def tvars(t, acc=None):
    if acc is None:
        acc = []
    if is_var(t):
        acc.append(t)
    else:
        for c in children(t):
            tvars(c, acc)
    return acc


def size(t):
    return 1 + sum(size(c) for c in children(t))


def cd(t):
    """(copyable, droppable) of a mirror type, from the language rules: qubits are linear,
    arrays are never copyable, tuples/options/lists/structs inherit from their members, functions
    and scalars are plain values; variables carry their declared kind."""
    h = t[0]
    if h == "qubit":
        return (False, False)
    if h == "ev":
        return EV_KIND[t[1]]
    if h == "bv":
        return BV_KIND[t[1]]
    if h == "tuple":
        ks = [cd(x) for x in t[1]]
        return (all(k[0] for k in ks), all(k[1] for k in ks))
    if h == "array":
        return (False, cd(t[1])[1])
    if h in UNARY:
        return cd(t[1])
    if h == "SA":  # struct SA[T, n]: x: T; y: array[int, n]
        return (False, cd(t[1])[1])
    if h == "SB":  # struct SB[T, U]: x: T; y: U
        a, b = cd(t[1]), cd(t[2])
        return (a[0] and b[0], a[1] and b[1])
    return (True, True)


def lin(t):
    """does the ownership flag of a function input of this type matter?  Yes for every
    non-copyable type (qubits, but also arrays: a borrowed non-copyable input is handed back as an
    extra output, so `(array @owned) -> None` and `(array) -> None` are different function types).
    The statement's "linear function inputs" is read in this sense; /repo was fixed accordingly
    (it only compared flags of inputs that are neither copyable nor droppable, which let affine
    inputs with different ownership unify and produced invalid HUGR - found by C01)."""
    c, d = cd(t)
    return not c


def show(t):
    h = t[0]
    if h in LEAVES:
        return h
    if h == "ev":
        return "?" + "abcd"[t[1]]
    if h == "cv":
        return "?" + "nmk"[t[1]]
    if h == "bv":
        return "TUV"[t[1]]
    if h == "bc":
        return "NM"[t[1]]
    if h == "c":
        return str(t[1])
    if h == "tuple":
        return "(" + ", ".join(show(x) for x in t[1]) + ("," if len(t[1]) == 1 else "") + ")"
    if h == "fn":
        q = f"forall{t[3]}. " if t[3] else ""
        return q + "(" + ", ".join(show(x) + {"": "", "o": " @owned", "b": " @inout"}[f] for f, x in t[1]) + ") -> " + show(t[2])
    return h + "[" + ", ".join(show(x) for x in children(t)) + "]"


def show_subst(b):
    return "{" + ", ".join(f"{show(k)}: {show(v)}" for k, v in b.items()) + "}"


# ======================================================================= reference unifier
class RefState:
    def __init__(self, b):
        self.b = dict(b)
        self.edges = []  # pairs of function inputs ((flag, type), (flag, type)) that were identified
        self.fail = None  # failure reason


def walk(t, b):
    while is_var(t) and t in b:
        t = b[t]
    return t


def occurs_raw(v, t):
    return t == v or any(occurs_raw(v, c) for c in children(t))


def occurs(v, t, b):
    t = walk(t, b)
    return t == v or any(occurs(v, c, b) for c in children(t))


def _ref(s, t, st):
    """Robinson: dereference both sides, bind a variable after the occurs check (under the
    bindings made so far), otherwise compare constructors and descend left to right."""
    b = st.b
    s, t = walk(s, b), walk(t, b)
    if is_var(s) or is_var(t):
        if s == t:
            return True
        v, u = (s, t) if is_var(s) else (t, s)
        if occurs(v, u, b):
            st.fail = "occurs_direct" if occurs_raw(v, u) else "occurs_via_subst"
            return False
        b[v] = u
        return True
    if head(s) != head(t):
        st.fail = clash_reason(s, t)
        return False
    if s[0] == "fn":
        for x, y in zip(s[1], t[1]):
            st.edges.append((x, y))
    return all(_ref(x, y, st) for x, y in zip(children(s), children(t)))


def resolve(t, b):
    """apply a triangular substitution to a fixpoint; raises ValueError on a cycle"""
    memo = {}
    visiting = set()

    def go(u):
        if is_var(u):
            if u not in b:
                return u
            if u in memo:
                return memo[u]
            if u in visiting:
                raise ValueError(u)
            visiting.add(u)
            r = go(b[u])
            visiting.discard(u)
            memo[u] = r
            return r
        ch = children(u)
        if not ch:
            return u
        return rebuild(u, [go(c) for c in ch])

    return go(t)


def flag_verdict(edges, b, linf=None):
    """Side rule of the statement: function inputs that are both linear must agree on their
    ownership flags.  Inputs identified with each other form classes (union-find over the
    edges).  A class whose flags all agree is fine; a class of inputs that are not linear is
    fine; a class of linear inputs with different flags fails.  If linearity of a member as
    written differs from its linearity under the solution (a linear-capable variable solved to a
    classical type, or a copyable variable solved to a linear one) the statement does not decide:
    'ambiguous'."""
    linf = linf or lin
    parent = {}

    def find(x):
        while parent.setdefault(x, x) != x:
            parent[x] = parent[parent[x]]
            x = parent[x]
        return x

    for x, y in edges:
        parent[find(x)] = find(y)
    classes = {}
    for x in list(parent):
        classes.setdefault(find(x), []).append(x)
    verdict = "ok"
    for members in classes.values():
        if len({f for f, _ in members}) <= 1:
            continue
        raw = {linf(ty) for _, ty in members}
        res = {linf(resolve(ty, b)) for _, ty in members}
        if raw == res == {False}:
            continue
        if raw == res == {True}:
            return "fail"
        verdict = "ambiguous"
    return verdict


def ref_unify(s, t, start, linf=None):
    """-> dict(result='ok'|'fail'|'ambiguous', subst, reason)"""
    st = RefState(start)
    if not _ref(s, t, st):
        return {"result": "fail", "reason": st.fail, "subst": None}
    fv = flag_verdict(st.edges, st.b, linf)
    if fv == "fail":
        return {"result": "fail", "reason": "flags", "subst": None}
    return {"result": "ok" if fv == "ok" else "ambiguous", "reason": None, "subst": st.b}


# ----------------------------------------------------------------------- class of the known finding
def known_class(s, t, start):
    """Membership in the input class of the known finding `unify.cyclic_result` (used only to carve
    that class out of the search, never as an oracle).  The class is defined by the control flow
    of /repo's unify: the left variable is dereferenced one step at a time, then a solved *type*
    variable on the right, then the left variable is bound to the right term as written; when only
    the right side is a variable the sides swap.  An input is in the class iff, before any failure,
    this procedure reaches a binding `v := t` where
      occurs_via_subst: t as written does not mention v, but t under the bindings made so far does;
      const_alias:      t is a solved const variable whose solution is v itself.
    -> None | 'occurs_via_subst' | 'const_alias'"""
    b = dict(start)
    found = [None]

    def var(v, t):
        if v in b:
            return go(b[v], t)
        if t[0] == "ev" and t in b:
            return go(v, b[t])
        if occurs_raw(v, t):
            return False
        if t[0] == "cv" and t in b and walk(t, b) == v:
            found[0] = "const_alias"
            return False
        if occurs(v, t, b):
            found[0] = "occurs_via_subst"
            return False
        b[v] = t
        return True

    def go(s, t):
        if is_var(s) and s == t:
            return True
        if is_var(s):
            return var(s, t)
        if is_var(t):
            return var(t, s)
        if head(s) != head(t):
            return False
        if s[0] == "fn" and any(fa != fb and lin(x) and lin(y) for (fa, x), (fb, y) in zip(s[1], t[1])):
            return False
        return all(go(x, y) for x, y in zip(children(s), children(t)))

    go(s, t)
    return found[0]


def strip_flags(t):
    if t[0] == "fn":
        return ("fn", tuple(("", strip_flags(x)) for _, x in t[1]), strip_flags(t[2]), t[3])
    ch = children(t)
    return rebuild(t, [strip_flags(c) for c in ch]) if ch else t


def same_modulo_flags(a, b, strict):
    """identical, where flags of function inputs only count on linear inputs (strict) or not at
    all (for problems whose flag verdict is 'ambiguous')"""
    if head(a) != head(b) or (is_var(a) and a != b):
        return False
    if a[0] == "fn" and strict:
        for (fa, x), (fb, y) in zip(a[1], b[1]):
            if fa != fb and lin(x) and lin(y):
                return False
    return all(same_modulo_flags(x, y, strict) for x, y in zip(children(a), children(b)))


def instance_of(pattern, target):
    """is there a substitution theta with theta(pattern_i) == target_i for all i (flags ignored)"""
    theta = {}

    def go(p, q):
        if is_var(p):
            if p in theta:
                return theta[p] == q
            theta[p] = q
            return True
        if is_var(q) or head(p) != head(q):
            return False
        return all(go(x, y) for x, y in zip(children(p), children(q)))

    return all(go(strip_flags(p), strip_flags(q)) for p, q in zip(pattern, target))


def subst_once(t, b):
    """one simultaneous pass (what Substituter does)"""
    if is_var(t):
        return b.get(t, t)
    ch = children(t)
    return rebuild(t, [subst_once(c, b) for c in ch]) if ch else t


# ======================================================================= mirror <-> /repo classes
class World:
    """/repo objects needed to build real types (one per process)."""

    _inst = None

    STRUCT_SRC = '''from typing import Generic
from guppylang import guppy
from guppylang.std.builtins import array
_T = guppy.type_var("T", copyable=False, droppable=False)
_U = guppy.type_var("U", copyable=False, droppable=False)
_n = guppy.nat_var("n")

@guppy.struct
class SA(Generic[_T, _n]):
    x: _T
    y: array[int, _n]

@guppy.struct
class SB(Generic[_T, _U]):
    x: _T
    y: _U
'''

    @classmethod
    def get(cls):
        if cls._inst is None:
            cls._inst = cls()
        return cls._inst

    def __init__(self):
        from guppylang.std.quantum import qubit
        from guppylang_internals.engine import ENGINE
        from guppylang_internals.tys import arg, builtin, const, param, subst, ty

        from vlib import runner

        self.ty, self.arg, self.const, self.builtin, self.param, self.subst = ty, arg, const, builtin, param, subst
        self.lm = runner.load_module(self.STRUCT_SRC)
        self.sa = ENGINE.get_checked(self.lm.SA.id)
        self.sb = ENGINE.get_checked(self.lm.SB.id)
        self.qubit = qubit.wrapped.check_instantiate([])
        self.nat = builtin.nat_type()
        self.ev = {i: ty.ExistentialTypeVar(display_name="abcd"[i], id=9000 + i, copyable=k[0], droppable=k[1])
                   for i, k in EV_KIND.items()}
        self.cv = {i: const.ExistentialConstVar(ty=self.nat, display_name="nmk"[i], id=9100 + i)
                   for i in range(N_CV)}
        self.ev_rev = {v.id: i for i, v in self.ev.items()}
        self.cv_rev = {v.id: i for i, v in self.cv.items()}
        self.flag = {"": ty.InputFlags.NoFlags, "o": ty.InputFlags.Owned, "b": ty.InputFlags.Inout}
        self.flag_rev = {v: k for k, v in self.flag.items()}
        self.memo = {}
        # step counter around the module-global `unify` (recursion goes through the global name)
        self.steps = [0]
        self.active = False
        self.orig_unify = ty.unify
        world = self

        class StepBudget(Exception):
            pass

        self.StepBudget = StepBudget

        def counting_unify(s, t, subst):
            if world.active:
                world.steps[0] += 1
                if world.steps[0] > STEP_BUDGET:
                    raise StepBudget()
            return world.orig_unify(s, t, subst)

        counting_unify.__wrapped__ = ty.unify
        ty.unify = counting_unify
        self.unify = counting_unify

    def to_real(self, t):
        r = self.memo.get(t)
        if r is None:
            r = self.memo[t] = self._to_real(t)
        return r

    def _to_real(self, t):
        ty, arg, const, b = self.ty, self.arg, self.const, self.builtin
        h = t[0]
        R = self.to_real
        if h == "int":
            return b.int_type()
        if h == "nat":
            return b.nat_type()
        if h == "float":
            return b.float_type()
        if h == "bool":
            return b.bool_type()
        if h == "none":
            return ty.NoneType()
        if h == "qubit":
            return self.qubit
        if h == "ev":
            return self.ev[t[1]]
        if h == "bv":
            k = BV_KIND[t[1]]
            return ty.BoundTypeVar(display_name="TUV"[t[1]], idx=t[1], copyable=k[0], droppable=k[1])
        if h == "cv":
            return self.cv[t[1]]
        if h == "bc":
            return const.BoundConstVar(ty=self.nat, display_name="NM"[t[1]], idx=t[1])
        if h == "c":
            return const.ConstValue(ty=self.nat, value=t[1])
        if h == "tuple":
            return ty.TupleType([R(x) for x in t[1]])
        if h == "fn":
            params = [self.param.TypeParam(i, f"P{i}", True, True) for i in range(t[3])]
            return ty.FunctionType([ty.FuncInput(R(x), self.flag[f]) for f, x in t[1]], R(t[2]), params)
        if h == "array":
            return b.array_type(R(t[1]), R(t[2]))
        if h == "option":
            return b.option_type(R(t[1]))
        if h == "list":
            return b.list_type(R(t[1]))
        if h == "SA":
            return ty.StructType([arg.TypeArg(R(t[1])), arg.ConstArg(R(t[2]))], self.sa)
        if h == "SB":
            return ty.StructType([arg.TypeArg(R(t[1])), arg.TypeArg(R(t[2]))], self.sb)
        raise ValueError(t)

    def to_mirror(self, x):
        ty, const, b = self.ty, self.const, self.builtin
        M = self.to_mirror

        def a(g):
            return M(g.ty) if isinstance(g, self.arg.TypeArg) else M(g.const)

        if isinstance(x, ty.NumericType):
            return (x.kind.name.lower(),)
        if isinstance(x, ty.NoneType):
            return ("none",)
        if isinstance(x, ty.ExistentialTypeVar):
            return ("ev", self.ev_rev[x.id])
        if isinstance(x, ty.BoundTypeVar):
            return ("bv", x.idx)
        if isinstance(x, const.ExistentialConstVar):
            return ("cv", self.cv_rev[x.id])
        if isinstance(x, const.BoundConstVar):
            return ("bc", x.idx)
        if isinstance(x, const.ConstValue):
            return ("c", x.value)
        if isinstance(x, ty.TupleType):
            return ("tuple", tuple(M(e) for e in x.element_types))
        if isinstance(x, ty.FunctionType):
            return ("fn", tuple((self.flag_rev[i.flags], M(i.ty)) for i in x.inputs), M(x.output), len(x.params))
        if isinstance(x, ty.StructType):
            return ("SA" if x.defn is self.sa else "SB", a(x.args[0]), a(x.args[1]))
        if isinstance(x, ty.OpaqueType):
            d = x.defn
            if d is b.bool_type_def:
                return ("bool",)
            if d is b.array_type_def:
                return ("array", a(x.args[0]), a(x.args[1]))
            if d is b.option_type_def:
                return ("option", a(x.args[0]))
            if d is b.list_type_def:
                return ("list", a(x.args[0]))
            if d is self.qubit.defn:
                return ("qubit",)
        raise ValueError(f"no mirror for {x!r}")


# ======================================================================= evaluating one unify case
def norm_case(case):
    s, t = tt(case["s"]), tt(case["t"])
    start = {tt(k): tt(v) for k, v in case.get("start", [])}
    return s, t, start


def case_json(s, t, start):
    return {"kind": "unify", "s": s, "t": t, "start": [[k, v] for k, v in start.items()],
            "text": f"unify({show(s)}, {show(t)}, {show_subst(start)})"}


def evaluate_unify(case, honour_exclude=True):
    """-> dict(viol=[(bucket, detail)], harness=[msg], info={...}, excluded=str|None, result=mirror subst|None)"""
    out = {"viol": [], "harness": [], "info": {}, "excluded": None, "result": None}
    W = World.get()
    s, t, start = norm_case(case)
    text = f"unify({show(s)}, {show(t)}, {show_subst(start)})"
    try:
        resolve(("tuple", tuple(start.values())), start)
    except ValueError:
        out["harness"].append(f"start substitution is cyclic: {text}")
        return out
    ref = ref_unify(s, t, start)
    out["info"] = {"ref": ref["result"], "reason": ref["reason"]}
    kc = known_class(s, t, start)
    out["info"]["known_class"] = kc
    if honour_exclude and kc and KNOWN_CLASS_BUCKET[kc] in EXCLUDE:
        out["excluded"] = KNOWN_CLASS_BUCKET[kc]
        return out
    rs, rt = W.to_real(s), W.to_real(t)
    rstart = {W.to_real(k): W.to_real(v) for k, v in start.items()}
    # generator/oracle soundness: the mirror is isomorphic and agrees on linearity of fn inputs
    if W.to_mirror(rs) != s or W.to_mirror(rt) != t:
        out["harness"].append(f"mirror round trip differs: {text}")
        return out
    for term in (s, t):
        for _, u in _positions(term):
            if u[0] == "fn":
                for _, x in u[1]:
                    if lin(x) != (not W.to_real(x).copyable):
                        out["harness"].append(f"mirror non-copyability differs from .copyable for {show(x)}")
                        return out
    # ---- the call under test, within a step / recursion budget
    W.steps[0] = 0
    W.active = True
    start_copy = dict(rstart)
    try:
        res = W.unify(rs, rt, rstart)
    except (RecursionError, W.StepBudget) as e:
        # root cause by input class: divergence on an input of the known class comes from the cyclic
        # substitution built on the way; anything else is a termination problem of its own
        out["viol"].append(((KNOWN_CLASS_BUCKET[kc] + ".diverges") if kc else "unify.no_termination",
                            f"{text}: {type(e).__name__} after {W.steps[0]} unify steps (reference: {ref['result']} {ref['reason'] or ''})"))
        return out
    except Exception as e:  # noqa: BLE001
        from vlib import runner

        out["viol"].append(("unify.raises." + runner.crash_bucket(e), f"{text}: {e!r}"))
        return out
    finally:
        W.active = False
    out["info"]["steps"] = W.steps[0]
    if rstart != start_copy:
        out["viol"].append(("unify.mutates_start", f"{text}: the start substitution was modified in place"))
    if res is None:
        if ref["result"] == "ok":
            out["viol"].append(("unify.rejects_unifiable",
                                f"{text} returned None; unifier exists: {show_subst({k: resolve(v, ref['subst']) for k, v in ref['subst'].items()})}"))
        return out
    # ---- a substitution was returned
    try:
        theirs = {W.to_mirror(k): W.to_mirror(v) for k, v in res.items()}
    except (ValueError, KeyError) as e:
        out["viol"].append(("unify.result_malformed", f"{text}: result not over the problem's vocabulary: {e!r}"))
        return out
    out["result"] = theirs
    for k, v in theirs.items():
        if not is_var(k) or is_const(k) != is_const(v):
            out["viol"].append(("unify.result_malformed", f"{text} -> {show_subst(theirs)}: ill-sorted entry {show(k)}"))
            return out
    V = sorted(set(tvars(s) + tvars(t) + list(start) + [x for v in start.values() for x in tvars(v)]))
    try:
        sol = {v: resolve(v, theirs) for v in sorted(set(V) | set(theirs))}
    except ValueError:
        selfref = [k for k, v in theirs.items() if occurs_raw(k, v)]
        if selfref:
            bucket = "unify.selfref_result"
        elif all(k[0] == "cv" for k in theirs if _on_cycle(k, theirs)):
            bucket = "unify.cyclic_result.const"
        else:
            bucket = "unify.cyclic_result"
        out["viol"].append((bucket, f"{text} returned the cyclic substitution {show_subst(theirs)} "
                                    f"(reference: {ref['result']} {ref['reason'] or ''})"))
        return out
    if ref["result"] == "fail":
        out["viol"].append(("unify.accepts_nonunifiable." + ref["reason"],
                            f"{text} returned {show_subst(theirs)} but no unifier exists ({ref['reason']})"))
        return out
    strict = ref["result"] == "ok"
    eqs = [(s, t)] + list(start.items())
    for a, b in eqs:
        ra, rb = resolve(a, theirs), resolve(b, theirs)
        if not same_modulo_flags(ra, rb, strict):
            out["viol"].append(("unify.result_not_unifier",
                                f"{text} returned {show_subst(theirs)}; applied: {show(ra)} vs {show(rb)}"))
            return out
    mine = {v: resolve(v, ref["subst"]) for v in V}
    p, q = [sol[v] for v in V], [mine[v] for v in V]
    if not instance_of(p, q):
        out["viol"].append(("unify.result_not_most_general",
                            f"{text} returned {show_subst(theirs)}; the mgu {show_subst(mine)} is not an instance of it"))
        return out
    if not instance_of(q, p):
        # cannot happen for a unifier if the reference is right
        out["harness"].append(f"reference mgu is not most general?! {text}: theirs {show_subst(theirs)} mine {show_subst(mine)}")
        return out
    # ---- Substituter agrees with one-pass substitution on the mirror
    for term, real in ((s, rs), (t, rt)):
        try:
            got = W.to_mirror(real.substitute(res))
        except Exception as e:  # noqa: BLE001
            from vlib import runner

            out["viol"].append(("substituter.raises." + runner.crash_bucket(e), f"{show(term)}.substitute({show_subst(theirs)}): {e!r}"))
            return out
        exp = subst_once(term, theirs)
        if got != exp:
            out["viol"].append(("substituter.mismatch",
                                f"{show(term)}.substitute({show_subst(theirs)}) = {show(got)}, expected {show(exp)}"))
            return out
    return out


def _on_cycle(k, b):
    seen, stack = set(), [b[k]]
    while stack:
        u = stack.pop()
        for v in tvars(u):
            if v == k:
                return True
            if v in b and v not in seen:
                seen.add(v)
                stack.append(b[v])
    return False


# ----------------------------------------------------------------------- structural shrinker
def _positions(t, path=()):
    yield path, t
    for i, c in enumerate(children(t)):
        yield from _positions(c, path + (i,))


def _replace(t, path, new):
    if not path:
        return new
    ch = list(children(t))
    ch[path[0]] = _replace(ch[path[0]], path[1:], new)
    return rebuild(t, ch)


def _smaller(u):
    """candidate replacements of a sub-term (same sort)"""
    if is_const(u):
        return [("c", 0)] if u != ("c", 0) else []
    if u[0] == "ev":
        return [("int",)]
    c = [x for x in children(u) if not is_const(x)]
    if u[0] == "tuple":
        c += [("tuple", u[1][:i] + u[1][i + 1:]) for i in range(len(u[1]))]
    if u[0] == "fn":
        c += [("fn", u[1][:i] + u[1][i + 1:], u[2], u[3]) for i in range(len(u[1]))]
        c += [("fn", tuple(("", x) for _, x in u[1]), u[2], 0)] if (u[3] or any(f for f, _ in u[1])) else []
    if children(u) or u[0] in ("nat", "float", "bool", "none", "qubit", "bv"):
        c.append(("int",))
    return c


def shrink_unify(case, bucket, max_evals=1500):
    s, t, start = norm_case(case)
    evals = [0]

    def fails(s, t, start):
        evals[0] += 1
        try:
            r = evaluate_unify(case_json(s, t, start), honour_exclude=False)
        except Exception:  # noqa: BLE001
            return False
        return any(b == bucket for b, _ in r["viol"])

    improved = True
    while improved and evals[0] < max_evals:
        improved = False
        for k in list(start):
            st2 = {a: b for a, b in start.items() if a != k}
            if fails(s, t, st2):
                start, improved = st2, True
        if s[0] == t[0] == "tuple" and len(s[1]) == len(t[1]):
            for i in range(len(s[1])):
                s2, t2 = ("tuple", s[1][:i] + s[1][i + 1:]), ("tuple", t[1][:i] + t[1][i + 1:])
                if fails(s2, t2, start):
                    s, t, improved = s2, t2, True
                    break
        for which in ("s", "t") + tuple(start):
            term = s if which == "s" else t if which == "t" else start[which]
            done = False
            for path, u in _positions(term):
                for cand in _smaller(u):
                    new = _replace(term, path, cand)
                    a, b, c = (new, t, start) if which == "s" else (s, new, start) if which == "t" else (s, t, {**start, which: new})
                    if fails(a, b, c):
                        s, t, start, improved, done = a, b, c, True, True
                        break
                if done or evals[0] >= max_evals:
                    break
    return case_json(s, t, start)


# ======================================================================= call level
# Declarations use the type variables T0, T1 (copyable, droppable), TA (not copyable, droppable),
# TL (unrestricted) and the nat variables n0, n1; the mirror terms reuse the constructors above:
# ("ev", 0..3) = T0 T1 TA TL,  ("cv", 0..1) = n0 n1.  Only `int` is used as a numeric type.
CALL_EV = {0: ("T0", True, True), 1: ("T1", True, True), 2: ("TA", False, True), 3: ("TL", False, False)}
CALL_PRELUDE = '''from collections.abc import Callable
from typing import Generic
from guppylang import guppy
from guppylang.std.builtins import array, owned, nat
from guppylang.std.option import Option
from guppylang.std.quantum import qubit
T0 = guppy.type_var("T0")
T1 = guppy.type_var("T1")
TA = guppy.type_var("TA", copyable=False, droppable=True)
TL = guppy.type_var("TL", copyable=False, droppable=False)
n0 = guppy.nat_var("n0")
n1 = guppy.nat_var("n1")

_X = guppy.type_var("X", copyable=False, droppable=False)
_Y = guppy.type_var("Y", copyable=False, droppable=False)
_k = guppy.nat_var("k")

@guppy.struct
class SA(Generic[_X, _k]):
    x: _X
    y: array[int, _k]

@guppy.struct
class SB(Generic[_X, _Y]):
    x: _X
    y: _Y

'''


def call_cd(t):
    """copy/drop with the call-level variable kinds"""
    if t[0] == "ev":
        return CALL_EV[t[1]][1:]
    h = t[0]
    if h == "tuple":
        ks = [call_cd(x) for x in t[1]]
        return (all(k[0] for k in ks), all(k[1] for k in ks))
    if h in ("array", "SA"):
        return (False, call_cd(t[1])[1])
    if h == "option":
        return call_cd(t[1])
    if h == "SB":
        a, b = call_cd(t[1]), call_cd(t[2])
        return (a[0] and b[0], a[1] and b[1])
    return cd(t)


def src_ty(t):
    h = t[0]
    if h in ("int", "bool", "qubit"):
        return h
    if h == "none":
        return "None"
    if h == "ev":
        return CALL_EV[t[1]][0]
    if h == "cv":
        return f"n{t[1]}"
    if h == "c":
        return str(t[1])
    if h == "tuple":
        return "tuple[" + ", ".join(src_ty(x) for x in t[1]) + "]"
    if h == "fn":
        return "Callable[[" + ", ".join(src_ty(x) + (" @owned" if f == "o" else "") for f, x in t[1]) + "], " + src_ty(t[2]) + "]"
    if h == "option":
        return f"Option[{src_ty(t[1])}]"
    return f"{'array' if h == 'array' else h}[{src_ty(t[1])}, {src_ty(t[2])}]"


def call_source(case):
    params, args, ret, ann = [tt(x) for x in case["params"]], [tt(x) for x in case["args"]], tt(case["ret"]), case["ann"] and tt(case["ann"])
    lines = ["@guppy.declare",
             "def f(" + ", ".join(f"p{i}: {src_ty(p)}" for i, p in enumerate(params)) + f") -> {src_ty(ret)}: ...", "",
             "@guppy",
             "def caller(" + ", ".join(f"a{i}: {src_ty(a)}" for i, a in enumerate(args)) + ") -> None:"]
    call = "f(" + ", ".join(f"a{i}" for i in range(len(args))) + ")"
    lines.append(f"    r: {src_ty(ann)} = {call}" if ann is not None else f"    {call}")
    return CALL_PRELUDE + "\n".join(lines) + "\n"


def call_oracle(case):
    """accept iff matching succeeds, every parameter of the declaration is determined and the
    copy/drop bounds hold.  -> (accept: bool, why)"""
    params, args, ret, ann = [tt(x) for x in case["params"]], [tt(x) for x in case["args"]], tt(case["ret"]), case["ann"] and tt(case["ann"])
    if len(params) != len(args):
        return False, "argcount"
    s = ("tuple", tuple(params) + ((ret,) if ann is not None else ()))
    t = ("tuple", tuple(args) + ((ann,) if ann is not None else ()))
    r = ref_unify(s, t, {}, linf=lambda x: not call_cd(x)[0])
    if r["result"] == "ambiguous":
        return None, "ambiguous"
    if r["result"] == "fail":
        return False, "mismatch:" + r["reason"]
    sol = r["subst"]
    for v in sorted(set(tvars(("tuple", tuple(params) + (ret,))))):
        if v not in sol:
            return False, "undetermined"
        if v[0] == "ev":
            _, must_copy, must_drop = CALL_EV[v[1]]
            c, d = call_cd(resolve(v, sol))
            if (must_copy and not c) or (must_drop and not d):
                return False, "bound"
    return True, "fits"


FIT_TITLES = ("Type mismatch", "Not enough arguments", "Too many arguments", "Cannot infer type variable",
              "Not defined for linear argument", "Cannot infer generic parameter", "Cannot infer type")


def evaluate_call(case):
    """-> dict(viol, harness, info)"""
    from vlib import runner

    out = {"viol": [], "harness": [], "info": {}}
    exp, why = call_oracle(case)
    out["info"] = {"expect": exp, "why": why}
    if exp is None:
        return out
    src = call_source(case)
    try:
        lm = runner.load_module(src)
    except Exception as e:  # noqa: BLE001
        out["harness"].append(f"generated module does not load: {e!r}\n{src}")
        return out
    try:
        o = runner.check_def(lm.caller)
    finally:
        lm.dispose()
    out["info"]["outcome"] = o.kind
    out["info"]["title"] = o.title
    body = "\n".join(src[len(CALL_PRELUDE):].splitlines())
    if o.kind == "crash":
        out["viol"].append(("call.crash." + runner.crash_bucket(o.exc), f"{body}\n{o.message[-1200:]}"))
    elif o.kind == "rejected" and o.title not in FIT_TITLES:
        out["harness"].append(f"rejected for a reason unrelated to fitting ({o.title}):\n{body}\n{o.message[:600]}")
    elif exp and o.kind != "ok":
        out["viol"].append(("call.rejects_fitting", f"an instantiation exists ({why}) but the call is rejected ({o.title}):\n{body}\n{o.message[:800]}"))
    elif not exp and o.kind == "ok":
        out["viol"].append(("call.accepts_nonfitting." + why.split(":")[-1], f"no instantiation makes the arguments fit ({why}) but the call type-checks:\n{body}"))
    return out


# ----------------------------------------------------------------------- comptime-const calls
CT_TEMPLATES = {
    # name: (declaration, call text, annotation or None, accept predicate over (A, B, C))
    "ret":      ("def f(k: nat @comptime) -> array[int, k]: ...", "f({B})", "array[int, {A}]", lambda A, B, C: A == B),
    "ret_expr": ("def f(k: nat @comptime) -> array[int, k]: ...", "f(comptime({B} + 0))", "array[int, {A}]", lambda A, B, C: A == B),
    "arg_then": ("def f(k: nat @comptime, xs: array[int, k]) -> int: ...", "f({B}, a)", None, lambda A, B, C: B == C),
    "then_arg": ("def f(xs: array[int, n0], k: nat @comptime) -> tuple[array[int, n0], array[int, k]]: ...", "f(a, {B})",
                 "tuple[array[int, {C}], array[int, {A}]]", lambda A, B, C: A == B),
    "both":     ("def f(k: nat @comptime, xs: array[int, k]) -> array[int, k]: ...", "f({B}, a)", "array[int, {A}]",
                 lambda A, B, C: A == B == C),
    "twice":    ("def f(k: nat @comptime, j: nat @comptime) -> tuple[array[int, k], array[int, j]]: ...", "f({B}, {C})",
                 "tuple[array[int, {A}], array[int, {C}]]", lambda A, B, C: A == B),
    "nested":   ("def f(k: nat @comptime) -> Option[array[int, k]]: ...", "f({B})", "Option[array[int, {A}]]", lambda A, B, C: A == B),
    # a type variable that only occurs in the return type: synthesis cannot infer it, so the call is
    # checked against the annotation first (the const parameter is solved from the expected type
    # before the comptime argument is looked at)
    "ret_T":    ("def f(k: nat @comptime) -> array[T0, k]: ...", "f({B})", "array[int, {A}]", lambda A, B, C: A == B),
    "ret_T2":   ("def f(k: nat @comptime, j: nat @comptime) -> tuple[array[T0, k], array[T0, j]]: ...", "f({B}, {C})",
                 "tuple[array[int, {A}], array[int, {C}]]", lambda A, B, C: A == B),
    "ret_T_rev": ("def f(k: nat @comptime, j: nat @comptime) -> tuple[array[T0, j], array[T0, k]]: ...", "f({B}, {C})",
                  "tuple[array[int, {C}], array[int, {A}]]", lambda A, B, C: A == B),
    "ret_T_arg": ("def f(xs: array[int, n0], k: nat @comptime) -> tuple[array[T0, n0], array[T0, k]]: ...", "f(a, {B})",
                  "tuple[array[float, {C}], array[float, {A}]]", lambda A, B, C: A == B),
}


def ct_source(case):
    decl, call, ann, _ = CT_TEMPLATES[case["tmpl"]]
    A, B, C = case["A"], case["B"], case["C"]
    call = call.format(A=A, B=B, C=C)
    lines = ["from guppylang.std.builtins import comptime", "@guppy.declare", decl, "", "@guppy", f"def caller(a: array[int, {C}]) -> None:"]
    lines.append(f"    r: {ann.format(A=A, B=B, C=C)} = {call}" if ann else f"    {call}")
    return CALL_PRELUDE + "\n".join(lines) + "\n"


def evaluate_ct(case):
    """comptime-const parameters: the call must type-check iff one value per const parameter makes
    argument, declared and annotated types fit"""
    from vlib import runner

    exp = CT_TEMPLATES[case["tmpl"]][3](case["A"], case["B"], case["C"])
    src = ct_source(case)
    lm = runner.load_module(src)
    try:
        o = runner.check_def(lm.caller)
    finally:
        lm.dispose()
    body = src[len(CALL_PRELUDE):]
    if o.kind == "crash":
        return ("call.comptime.crash." + runner.crash_bucket(o.exc), body + o.message[-800:])
    if exp and o.kind != "ok":
        return ("call.comptime.rejects_fitting." + case["tmpl"], f"fits but rejected ({o.title}):\n{body}\n{o.message[:600]}")
    if not exp and o.kind == "ok":
        return ("call.comptime.accepts_nonfitting." + case["tmpl"], f"no value of the const parameter fits, but the call type-checks:\n{body}")
    return None


# ======================================================================= replay
def replay(case):
    if case.get("kind") == "ctcall":
        return evaluate_ct(case)
    if case.get("kind") == "call":
        r = evaluate_call(case)
    else:
        r = evaluate_unify(case, honour_exclude=False)
    if r["harness"]:
        raise harness.HarnessError(r["harness"][0])
    return r["viol"][0] if r["viol"] else None


# ======================================================================= generators
def make_strategies():
    from hypothesis import strategies as st

    class _I(dict):
        def __missing__(self, k):
            self[k] = st.integers(0, k)
            return self[k]

    I = _I()
    bits = st.integers(0, 2 ** 24 - 1)

    def pick(draw, seq):
        return seq[draw(I[len(seq) - 1])] if len(seq) > 1 else seq[0]

    def g_const(draw, var_p):
        r = draw(I[9])
        if r < var_p:
            return ("cv", draw(I[N_CV - 1]))
        if r == 9:
            return ("bc", draw(I[1]))
        return ("c", draw(I[3]))

    GROUND = (("int",), ("int",), ("bool",), ("none",), ("qubit",), ("qubit",), ("nat",), ("float",), ("bv", 0), ("bv", 1))

    LINEARISH = (("qubit",), ("qubit",), ("tuple", (("qubit",),)), ("array", ("qubit",), ("c", 2)), ("bv", 1),
                 ("option", ("qubit",)), ("tuple", (("int",), ("qubit",))))

    def g_input(draw, depth, var_p, heavy):
        """a function input: ownership flag + type; 40% of the types are linear (the side rule)"""
        f = FLAGS[draw(I[2])]
        r = draw(I[9])
        if r < 4:
            if draw(I[9]) < var_p:
                return (f, ("ev", 2 + draw(I[1])))
            return (f, pick(draw, LINEARISH))
        return (f, g_type(draw, depth, var_p, heavy))

    def g_type(draw, depth, var_p, heavy=False):
        """var_p in 0..10 = tenths of leaves that are variables"""
        r = draw(I[9])
        if depth <= 0 or r < (5 if heavy else 3):
            if draw(I[9]) < var_p:
                return ("ev", draw(I[3]))
            return ("int",) if heavy else pick(draw, GROUND)
        k = draw(I[11])
        if heavy:
            k = (0, 0, 0, 4, 4, 7, 7, 8, 10, 10, 11, 0)[k]
        if k <= 3:
            n = (1, 2, 2, 3, 0, 2)[draw(I[5])]
            return ("tuple", tuple(g_type(draw, depth - 1, var_p, heavy) for _ in range(n)))
        if k <= 6:
            n = (1, 1, 2, 0)[draw(I[3])]
            ins = tuple(g_input(draw, depth - 1, var_p, heavy) for _ in range(n))
            return ("fn", ins, g_type(draw, depth - 1, var_p, heavy), 0)
        if k == 7:
            return ("array", g_type(draw, depth - 1, var_p, heavy), g_const(draw, var_p))
        if k == 8:
            return ("option", g_type(draw, depth - 1, var_p, heavy))
        if k == 9:
            return ("list", g_type(draw, depth - 1, var_p, heavy))
        if k == 10:
            return ("SA", g_type(draw, depth - 1, var_p, heavy), g_const(draw, var_p))
        return ("SB", g_type(draw, depth - 1, var_p, heavy), g_type(draw, depth - 1, var_p, heavy))

    def generalise(term, theta_inv, mask):
        """replace occurrences of chosen sub-terms by their variable, one mask bit per occurrence"""
        state = [mask]

        def go(u):
            v = theta_inv.get(u)
            if v is not None:
                bit = state[0] & 1
                state[0] >>= 1
                if bit:
                    return v
            ch = children(u)
            return rebuild(u, [go(c) for c in ch]) if ch else u

        return go(term)

    def mutate(draw, term):
        """one local edit, kind first: ownership flag (preferably of a linear input), arity of a
        tuple / function, constant, occurs wrap, extra variable, random sub-term"""
        pos = [(p, u) for p, u in _positions(term)]
        kind = draw(I[9])
        fns = [(p, u) for p, u in pos if u[0] == "fn" and u[1]]
        if kind <= 2 and fns:
            linfns = [(p, u) for p, u in fns if any(lin(x) for _, x in u[1])]
            path, u = pick(draw, linfns or fns)
            idx = [i for i, (_, x) in enumerate(u[1]) if lin(x)] or list(range(len(u[1])))
            i = pick(draw, idx)
            f = FLAGS[(FLAGS.index(u[1][i][0]) + 1 + draw(I[1])) % 3]
            return _replace(term, path, ("fn", u[1][:i] + ((f, u[1][i][1]),) + u[1][i + 1:], u[2], u[3]))
        seqs = [(p, u) for p, u in pos if u[0] in ("tuple", "fn")]
        if kind <= 4 and seqs:
            path, u = pick(draw, seqs)
            if u[0] == "tuple":
                new = ("tuple", u[1][:-1]) if u[1] and draw(I[1]) else ("tuple", u[1] + (g_type(draw, 0, 3),))
            elif u[1] and draw(I[1]):
                new = ("fn", u[1][:-1], u[2], u[3])
            else:
                new = ("fn", u[1] + ((FLAGS[draw(I[2])], g_type(draw, 0, 3)),), u[2], u[3])
            return _replace(term, path, new)
        consts = [(p, u) for p, u in pos if is_const(u)]
        if kind == 5 and consts:
            path, u = pick(draw, consts)
            return _replace(term, path, ("c", (u[1] + 1 + draw(I[1])) % 4) if u[0] == "c" else g_const(draw, 4))
        path, u = pick(draw, [(p, u) for p, u in pos if not is_const(u)])
        if kind <= 7:
            vs = sorted(set(v for v in tvars(term) if v[0] == "ev")) or [("ev", draw(I[3]))]
            v = pick(draw, vs)
            new = (("tuple", (v,)), ("option", v), ("fn", (("", v),), ("none",), 0), ("tuple", (("int",), v)), v)[draw(I[4])]
        elif kind == 8:
            new = ("ev", draw(I[3]))
        else:
            new = g_type(draw, 1, 3)
        return _replace(term, path, new)

    def g_start(draw):
        """an acyclic triangular substitution: variables in a random order, each bound to a term
        over later variables only"""
        order = [("ev", i) for i in range(4)] + [("cv", i) for i in range(N_CV)]
        perm = draw(st.permutations(order))
        start = {}
        n = 1 + draw(I[2])
        for idx, v in enumerate(perm[:n + 2]):
            if len(start) >= n:
                break
            later = perm[idx + 1:]
            if v[0] == "cv":
                cands = [x for x in later if x[0] == "cv"] + [("c", draw(I[3]))]
                start[v] = pick(draw, cands)
            else:
                lt = [x for x in later if x[0] == "ev"]
                base = g_type(draw, 1, 0)
                # sprinkle later variables into the image
                pos = [p for p, u in _positions(base) if not is_const(u)]
                for _ in range(draw(I[2])):
                    if lt:
                        base = _replace(base, pick(draw, pos), pick(draw, lt))
                        pos = [p for p, u in _positions(base) if not is_const(u)]
                start[v] = base
        return start

    def g_pair(draw, prior=False):
        mode = 0 if prior else draw(I[9])
        if mode <= 4:  # instance-based: unifiable by construction, then maybe mutated
            g = g_type(draw, 2 + draw(I[1]), 1 if draw(I[3]) == 0 else 0)
            if not children(g):
                g = ("tuple", (g, g_type(draw, 2, 0)))
            subs = [(p, u) for p, u in _positions(g) if p]
            theta_inv = {}
            tpool = [("ev", i) for i in draw(st.permutations(range(4)))]
            cpool = [("cv", i) for i in draw(st.permutations(range(N_CV)))]
            for _ in range(1 + draw(I[2])):
                if not subs:
                    break
                _, u = pick(draw, subs)
                if is_var(u) or u in theta_inv:
                    continue
                pool = cpool if is_const(u) else tpool
                if pool:
                    if not is_const(u) and draw(I[4]) and (cd(u) == (True, True)) != (EV_KIND[pool[-1][1]] == (True, True)):
                        # mostly respect the variable's kind (classical variable <-> classical type)
                        pool.insert(0, pool.pop())
                    theta_inv[u] = pool.pop()
            s = generalise(g, theta_inv, draw(bits))
            t = generalise(g, theta_inv, draw(bits))
            label = "instance"
            m = 9 if prior else draw(I[9])
            if m < 5:
                t = mutate(draw, t)
                label = "instance+mut"
                if m == 0:
                    s = mutate(draw, s)
        elif mode <= 7:  # variable-heavy small terms (aliasing chains, occurs shapes)
            n = 1 + draw(I[3])
            s = ("tuple", tuple(g_type(draw, 1 + draw(I[1]), 8, heavy=True) for _ in range(n)))
            els = []
            for x in s[1]:
                r = draw(I[9])
                if r < 3:
                    els.append(g_type(draw, 1 + draw(I[1]), 8, heavy=True))
                elif r < 5:
                    els.append(("ev", draw(I[3])))
                else:  # same shape, some positions replaced by variables / wrapped variables
                    y = x
                    for _ in range(1 + draw(I[1])):
                        pos = [p for p, u in _positions(y) if not is_const(u)]
                        v = ("ev", draw(I[3]))
                        y = _replace(y, pick(draw, pos), (v, v, v, ("tuple", (v,)), ("option", v))[draw(I[4])])
                    els.append(y)
            t = ("tuple", tuple(els))
            if draw(I[2]) == 0:
                t = ("tuple", tuple(draw(st.permutations(t[1]))))
            label = "varheavy"
        elif mode == 8:  # const-variable-heavy: array lengths / struct const arguments
            n = 2 + draw(I[2])

            def cel():
                c = g_const(draw, 7)
                return (("array", ("int",), c), ("SA", ("int",), c), ("array", ("ev", draw(I[3])), c))[draw(I[2])]

            s = ("tuple", tuple(cel() for _ in range(n)))
            t = ("tuple", tuple(cel() for _ in range(n)))
            label = "constheavy"
        elif draw(I[3]) == 0:  # top-level constants / quantified function types
            if draw(I[1]):
                s, t = g_const(draw, 5), g_const(draw, 5)
            else:
                f = g_type(draw, 1, 3)
                s = ("fn", (("", f),), g_type(draw, 1, 3), draw(I[2]))
                t = ("fn", (("", generalise(f, {}, 0)),), g_type(draw, 0, 5), draw(I[2]))
            label = "const/forall"
        else:  # unrelated random terms
            s, t = g_type(draw, 2, 3), g_type(draw, 2, 3)
            label = "random"
        return s, t, label

    @st.composite
    def unify_case(draw):
        s, t, label = g_pair(draw)
        k = draw(I[9])
        if k < 5:
            start = ("none", None)
        elif k < 7:
            start = ("drawn", g_start(draw))
        else:
            s0, t0, _ = g_pair(draw, prior=True)
            start = ("prior", (s0, t0))
        return {"s": s, "t": t, "label": label, "start": start}

    # ---------------- call level
    CLOSED = (("int",), ("int",), ("bool",), ("bool",), ("qubit",))

    def g_closed(draw, depth, in_fn=False):
        r = draw(I[9])
        if depth <= 0 or r < 4:
            return pick(draw, CLOSED)
        k = draw(I[8])
        if k <= 2:
            return ("tuple", tuple(g_closed(draw, depth - 1) for _ in range((1, 2, 2, 3)[draw(I[3])])))
        if k <= 4 and not in_fn:
            ins = []
            for _ in range((1, 1, 2, 0)[draw(I[3])]):
                x = g_closed(draw, depth - 1, True)
                # ownership flags only on linear inputs (the statement's side rule speaks about those)
                ins.append(("o" if lin(x) and draw(I[1]) else "b" if not call_cd(x)[0] else "", x))
            return ("fn", tuple(ins), pick(draw, (("none",), ("int",), ("bool",))), 0)
        if k == 5:
            return ("array", g_closed(draw, depth - 1), ("c", draw(I[3])))
        if k == 6:
            return ("option", g_closed(draw, depth - 1))
        if k == 7:
            return ("SA", g_closed(draw, depth - 1), ("c", draw(I[3])))
        return ("SB", g_closed(draw, depth - 1), g_closed(draw, depth - 1))

    @st.composite
    def call_case(draw):
        n = 1 + draw(I[2])
        args = [g_closed(draw, 2) for _ in range(n)]
        whole = ("tuple", tuple(args))
        subs = [(p, u) for p, u in _positions(whole) if len(p) >= 2 or (len(p) == 1 and draw(I[2]) == 0)]
        theta_inv = {}
        tpool = [("ev", i) for i in draw(st.permutations(range(4)))]
        cpool = [("cv", i) for i in draw(st.permutations(range(2)))]
        for _ in range(1 + draw(I[2])):
            if not subs:
                break
            _, u = pick(draw, subs)
            if u in theta_inv:
                continue
            pool = cpool if is_const(u) else tpool
            if pool:
                theta_inv[u] = pool.pop()
        params = list(generalise(whole, theta_inv, draw(bits) | draw(bits))[1])
        # return type: None, or a classical expression over the variables
        ret, ann = ("none",), None
        retvars = [(v, u) for u, v in theta_inv.items() if v[0] == "ev" and call_cd(u) == (True, True) and v[1] in (0, 1)]
        if retvars and draw(I[1]):
            v, u = pick(draw, retvars)
            ret, ann = v, u
            if draw(I[2]) == 0:
                ret, ann = ("tuple", (v, ("int",))), ("tuple", (u, ("int",)))
            if draw(I[4]) == 0:
                ann = pick(draw, (("int",), ("bool",), ("tuple", (("int",), ("bool",)))))
        elif draw(I[5]) == 0:
            ret, ann = ("ev", draw(I[1])), pick(draw, (("int",), ("bool",), None))
        label = "fit-by-construction"
        m = draw(I[9])
        if m < 5:
            label = "mutated"
            which = draw(I[1])
            lst = params if which else args
            i = draw(I[len(lst) - 1]) if len(lst) > 1 else 0
            k = draw(I[8])
            if k == 4:  # (end points of an integer range are over-sampled by Hypothesis)
                (lst.pop(i) if len(lst) > 1 and draw(I[1]) else lst.append(pick(draw, CLOSED)))
            elif which and k in (1, 2, 3):
                # reuse a variable at another position (consistency of repeated variables)
                vs = [v for v in theta_inv.values()]
                pos = [(p, u) for p, u in _positions(lst[i]) if vs and is_const(u) == is_const(vs[0])]
                if pos:
                    p, u = pick(draw, pos)
                    same = [v for v in vs if is_const(v) == is_const(u)]
                    lst[i] = _replace(lst[i], p, pick(draw, same))
            else:
                pos = [(p, u) for p, u in _positions(lst[i])]
                p, u = pick(draw, pos)
                if is_const(u):
                    new = ("c", (u[1] + 1) % 4) if u[0] == "c" else ("c", draw(I[3]))
                elif u[0] == "fn" and u[1] and lin(u[1][0][1]):
                    new = ("fn", (("b" if u[1][0][0] == "o" else "o", u[1][0][1]),) + u[1][1:], u[2], 0)
                else:
                    new = g_closed(draw, 1, in_fn=len(p) > 0)
                lst[i] = _replace(lst[i], p, new)
        return {"kind": "call", "params": params, "args": args, "ret": ret, "ann": ann, "label": label}

    return unify_case(), call_case()


def call_wellformed(case):
    """shapes the surface syntax cannot express or that fail for reasons unrelated to fitting"""
    def ok_ty(t, top, in_fn):
        if t[0] == "fn":
            if in_fn:
                return False
            for f, x in t[1]:
                c = call_cd(x)[0]
                if (f == "o" and c) or (f == "" and not c) or (f == "b" and c):
                    return False
        if t[0] == "tuple" and len(t[1]) == 0:
            return False
        return all(ok_ty(c, False, in_fn or t[0] == "fn") for c in children(t))

    terms = [tt(x) for x in case["params"]] + [tt(x) for x in case["args"]] + [tt(case["ret"])]
    if case["ann"] is not None:
        terms.append(tt(case["ann"]))
    if not case["params"] or not case["args"]:
        return False
    # linear values cannot be returned/dropped in this harness: results are classical
    for r in (tt(case["ret"]),) + ((tt(case["ann"]),) if case["ann"] is not None else ()):
        if call_cd(r) != (True, True):
            return False
    return all(ok_ty(t, True, False) for t in terms)


# ======================================================================= worker
def worker(ctx):
    W = World.get()
    unify_case, call_case = make_strategies()
    new_buckets = {}

    def record(bucket, case, detail):
        ctx.violation(bucket, case, detail)
        new_buckets.setdefault(bucket, case)

    def run_unify(s, t, start, labels):
        case = case_json(s, t, start)
        r = evaluate_unify(case)
        for h in r["harness"]:
            ctx.harness_error(h)
        if r["excluded"]:
            ctx.exclude(r["excluded"])
            return r
        vs = tvars(s) + tvars(t)
        nontrivial = (len(set(vs)) >= 2 and len(vs) > len(set(vs))) or bool(start)
        info = r["info"]
        outcome = info.get("ref", "?") + (":" + info["reason"] if info.get("reason") else "")
        ctx.case(("u", s, t, sorted(start.items())), nontrivial,
                 labels=("unify", "ref=" + outcome) + labels + (("nontrivial",) if nontrivial else ()))
        if outcome in SAMPLE_CLASSES and (nontrivial or outcome != "ok"):
            theirs = "None" if r["result"] is None else show_subst(r["result"])
            ctx.sample("ref=" + outcome, f"{case['text']} -> {theirs}; reference: {outcome}")
        for b, d in r["viol"]:
            record(b, case, d)
        ctx.notes["max_unify_steps"] = max(ctx.notes.get("max_unify_steps", 0), info.get("steps", 0))
        return r

    examples = [0]

    def body_unify(c):
        examples[0] += 1
        s, t = c["s"], c["t"]
        kind, payload = c["start"]
        start = {}
        if kind == "drawn":
            start = payload
        elif kind == "prior":
            s0, t0 = payload
            r0 = run_unify(s0, t0, {}, ("start=none", "gen=prior"))
            if r0["result"] and not r0["viol"]:
                start = r0["result"]
            else:
                kind = "prior-failed"
        labels = ("start=" + kind, "gen=" + c["label"])
        run_unify(s, t, start, labels)
        run_unify(t, s, start, labels + ("swapped",))
        if s[0] == t[0] == "tuple" and len(s[1]) == len(t[1]) >= 2:
            # same problem, components visited in the opposite order
            run_unify(("tuple", s[1][::-1]), ("tuple", t[1][::-1]), start, labels + ("reversed",))

    def body_call(c):
        if not call_wellformed(c):
            ctx.label("call:skipped-illformed")
            return
        case = {k: c[k] for k in ("kind", "params", "args", "ret", "ann")}
        r = evaluate_call(case)
        for h in r["harness"]:
            ctx.harness_error(h)
        info = r["info"]
        if info["expect"] is None:
            ctx.label("call:ambiguous-flags")
            return
        src = call_source(case)[len(CALL_PRELUDE):]
        nontrivial = len(set(tvars(("tuple", tuple(tt(x) for x in case["params"]))))) >= 1
        why = info["why"].split(":")[0]
        ctx.case(("c", src), nontrivial, labels=("call", "call:" + why, "call:gen=" + c["label"],
                                                 "call:" + str(info.get("outcome"))))
        if why in ("fits", "mismatch", "bound") and nontrivial:
            ctx.sample("call:" + why, src + f"# oracle: {info['why']}; /repo: {info.get('outcome')} {info.get('title')}")
        case["text"] = src
        for b, d in r["viol"]:
            record(b, case, d)

    # comptime-const call family: enumerated (template x sizes 1..3), split over the shards
    k = 0
    for tmpl in sorted(CT_TEMPLATES):
        for A in (1, 2, 3):
            for B in (1, 2, 3):
                for C in (1, 2, 3):
                    k += 1
                    if k % ctx.nshards != ctx.shard or ctx.out_of_time(0.15):
                        continue
                    case = {"kind": "ctcall", "tmpl": tmpl, "A": A, "B": B, "C": C}
                    fits = CT_TEMPLATES[tmpl][3](A, B, C)
                    ctx.case(("ct", tmpl, A, B, C), True, labels=("ctcall", "ctcall:" + ("fits" if fits else "nofit")),
                             sample=ct_source(case)[len(CALL_PRELUDE):])
                    r = evaluate_ct(case)
                    if r:
                        record(r[0], case, r[1])

    n_call = ctx.params["n_call"]
    n_unify = ctx.params["n_unify"]
    harness.hyp_search(ctx, call_case, body_call, max_examples=n_call, chunk=250, time_frac=0.6, extra_seed=1)
    if ctx.labels["call"] < n_call // 3:
        ctx.notes["call_half_cut"] = f"{ctx.labels['call']} of {n_call} call cases evaluated (time budget, inconclusive)"
    harness.hyp_search(ctx, unify_case, body_unify, max_examples=n_unify, chunk=500, time_frac=0.9, extra_seed=2)
    if examples[0] < n_unify:
        ctx.notes["unify_half_cut"] = f"{examples[0]} of {n_unify} unify examples (time budget hit, inconclusive)"
    ctx.notes["world"] = "struct SA[T, n]{x: T; y: array[int, n]}, SB[T, U]{x: T; y: U}; ?a ?b classical, ?c ?d linear-capable type variables"
    # minimise each unify-level bucket with the structural shrinker (from the smallest case seen)
    for bucket in list(new_buckets):
        case = ctx.violations[bucket]["case"]
        if case.get("kind") == "unify" and not ctx.out_of_time(0.97):
            small = shrink_unify(case, bucket)
            r = evaluate_unify(small, honour_exclude=False)
            for b, d in r["viol"]:
                if b == bucket:
                    ctx.violation(bucket, small, d)


SPEC = harness.Spec(
    PROP, worker, replay,
    rule=("unify level: Hypothesis draws a pair of mirror terms (50% two generalisations of one ground type - unifiable by "
          "construction - of which 50% get a local mutation: arity change, flag change, occurs wrap, fresh variable, random "
          "sub-term; 30% variable-heavy tuples; 10% const-variable-heavy tuples of arrays/structs; 10% unrelated terms / "
          "top-level constants / quantified function types) and a start "
          "substitution ({} 50%, a drawn acyclic triangular substitution 20%, the result of /repo's unify on another drawn pair "
          "30%); both orientations (s,t) and (t,s) are evaluated, and for two tuples of equal length also the pair with the components in reverse order. non-trivial = the pair has >= 2 distinct inference variables "
          "with >= 1 repeated, or a non-empty start substitution; distinct = distinct (s, t, start). call level: a closed "
          "argument list is drawn, parameter types are generalisations of it (fits by construction), half of the cases get one "
          "mutation (argument count, constant, ownership flag on a qubit input of a Callable, repeated variable, random sub-term); "
          "non-trivial = the declaration has >= 1 type/nat parameter; distinct = distinct source text"),
    assumptions=[
        "flag side rule is read on classes of identified function inputs: linear inputs must agree on flags, flags of non-linear inputs are ignored; problems in which an input's linearity as written differs from its linearity under the solution are not judged on success (label ref=ambiguous) but still on termination/acyclicity/unifier",
        "identical = equal up to ownership flags of non-linear function inputs (the statement only constrains linear ones)",
        "mirror copy/drop rules (qubit linear, array never copyable, option/list/tuple/struct by members) are cross-checked against /repo's .linear on every function input (difference = harness error, not violation)",
        "call level uses int as the only numeric type, Callable ownership flags only on linear (qubit) inputs, classical results; lists (experimental) and nat/float are left to C16/C33",
        "unitary flags, comptime arguments and input names of FunctionType are outside the quantifier and not generated",
    ],
    shards={"quick": 16, "thorough": 16},
    budget_s={"quick": 90, "thorough": 720},
    params={"quick": {"n_unify": 4000, "n_call": 130}, "thorough": {"n_unify": 40000, "n_call": 1500}},
    min_nontrivial=8000,
)

if __name__ == "__main__":
    harness.main(SPEC)
