"""C30 Source span containment and intersection follow interval semantics.

Domain: exhaustive over all locations on a 3-line x 4-column grid in 2 files (all spans with
start <= end, all span x span and span x loc pairs) + Hypothesis-drawn large coordinates.
Oracle: the interval definitions of the property statement (closed intervals ordered by
(line, column); different files never contain or intersect)."""
import itertools
import os
import sys

sys.path.insert(0, os.path.dirname(os.path.dirname(os.path.abspath(__file__))))
from vlib import harness  # noqa: E402

PROP = "C30"
FILES = ["a.py", "b.py"]


def mk_loc(t):
    from guppylang_internals.span import Loc

    return Loc(t[0], t[1], t[2])


def mk_span(s):
    from guppylang_internals.span import Span

    return Span(mk_loc(s[0]), mk_loc(s[1]))


# --- oracle on plain tuples (file, line, col) -------------------------------------------
def o_span_in(a, b):
    """a in b (a, b spans)"""
    if a[0][0] != b[0][0]:
        return False
    return b[0][1:] <= a[0][1:] and a[1][1:] <= b[1][1:]


def o_loc_in(l, b):
    if l[0] != b[0][0]:
        return False
    return b[0][1:] <= l[1:] <= b[1][1:]


def o_and(a, b):
    if a[0][0] != b[0][0]:
        return None
    s = max(a[0], b[0])
    e = min(a[1], b[1])
    if s[1:] > e[1:]:
        return None
    return (s, e)


def span_tuple(sp):
    return ((sp.start.file, sp.start.line, sp.start.column), (sp.end.file, sp.end.line, sp.end.column))


def rel(a, b):
    """classification used for the non-triviality rule"""
    if a[0][0] != b[0][0]:
        return "otherfile"
    if a == b:
        return "equal"
    if o_span_in(a, b) or o_span_in(b, a):
        return "nested"
    if o_and(a, b) is None:
        return "disjoint"
    i = o_and(a, b)
    return "touching" if i[0] == i[1] else "partial"


def check_pair(a, b):
    """returns None or (bucket, detail)"""
    A, B = mk_span(a), mk_span(b)
    try:
        got = A in B
    except Exception as e:  # noqa: BLE001
        return ("contains.raises", f"{a} in {b} raised {e!r}")
    if got != o_span_in(a, b):
        return ("span_in_span." + rel(a, b), f"{a} in {b}: got {got}, interval semantics say {o_span_in(a, b)}")
    try:
        r = A & B
    except Exception as e:  # noqa: BLE001
        return ("and.raises", f"{a} & {b} raised {e!r}")
    exp = o_and(a, b)
    gt = None if r is None else span_tuple(r)
    if gt != exp:
        return ("and." + rel(a, b), f"{a} & {b}: got {gt}, expected {exp}")
    return None


def check_loc(l, b):
    L, B = mk_loc(l), mk_span(b)
    try:
        got = L in B
    except Exception as e:  # noqa: BLE001
        return ("loc_in.raises", f"{l} in {b} raised {e!r}")
    if got != o_loc_in(l, b):
        return ("loc_in_span", f"{l} in {b}: got {got}, expected {o_loc_in(l, b)}")
    return None


def replay(case):
    if case["kind"] == "pair":
        a = tuple(tuple(x) for x in case["a"])
        b = tuple(tuple(x) for x in case["b"])
        return check_pair(a, b)
    l = tuple(case["l"])
    b = tuple(tuple(x) for x in case["b"])
    return check_loc(l, b)


def worker(ctx):
    if ctx.shard == 0:
        locs = [(f, ln, c) for f in FILES for ln in (1, 2, 3) for c in (0, 1, 2, 3)]
        spans = [(s, e) for s in locs for e in locs if s[0] == e[0] and s[1:] <= e[1:]]
        ctx.notes["grid_spans"] = len(spans)
        for a, b in itertools.product(spans, spans):
            r = check_pair(a, b)
            cls = rel(a, b)
            ctx.case(("p", a, b), cls in ("nested", "partial", "touching"), labels=("pair:" + cls,),
                     sample={"a": a, "b": b, "class": cls})
            if r:
                ctx.violation(r[0], {"kind": "pair", "a": a, "b": b}, r[1])
        for l, b in itertools.product(locs, spans):
            r = check_loc(l, b)
            inside = o_loc_in(l, b)
            ctx.case(("l", l, b), l[0] == b[0][0], labels=("loc:" + ("in" if inside else "out"),),
                     sample={"l": l, "b": b})
            if r:
                ctx.violation(r[0], {"kind": "loc", "l": l, "b": b}, r[1])
        return
    # other shards: Hypothesis with large coordinates
    from hypothesis import strategies as st

    coord = st.one_of(st.integers(0, 6), st.integers(0, 10**6), st.sampled_from([1, 2, 2**31, 2**40]))
    loc = st.tuples(st.sampled_from(FILES), coord, coord)

    @st.composite
    def span(draw, file=None):
        f = file or draw(st.sampled_from(FILES))
        a = draw(st.tuples(coord, coord))
        b = draw(st.one_of(st.tuples(coord, coord), st.just(a),
                           st.tuples(st.just(a[0]), coord)))
        s, e = sorted([a, b])
        return ((f, *s), (f, *e))

    @st.composite
    def pair(draw):
        a = draw(span())
        if draw(st.booleans()):
            # derive b from a's coordinates so nesting / overlap / touching are common
            pts = [a[0][1:], a[1][1:], draw(st.tuples(coord, coord)), draw(st.tuples(coord, coord))]
            s = draw(st.sampled_from(pts))
            e = draw(st.sampled_from(pts))
            s, e = sorted([s, e])
            f = draw(st.sampled_from([a[0][0], a[0][0], a[0][0], "b.py"]))
            b = ((f, *s), (f, *e))
        else:
            b = draw(span())
        return ("pair", a, b) if draw(st.integers(0, 3)) else ("loc", draw(loc), b)

    def body(c):
        if c[0] == "pair":
            _, a, b = c
            cls = rel(a, b)
            ctx.case(("p", a, b), cls in ("nested", "partial", "touching"), labels=("pair:" + cls,),
                     sample={"a": a, "b": b, "class": cls})
            r = check_pair(a, b)
            if r:
                ctx.violation(r[0], {"kind": "pair", "a": a, "b": b}, r[1])
        else:
            _, l, b = c
            ctx.case(("l", l, b), l[0] == b[0][0], labels=("loc:" + ("in" if o_loc_in(l, b) else "out"),))
            r = check_loc(l, b)
            if r:
                ctx.violation(r[0], {"kind": "loc", "l": l, "b": b}, r[1])

    harness.hyp_search(ctx, pair(), body, max_examples=ctx.params["n"], chunk=2000)


SPEC = harness.Spec(
    PROP, worker, replay,
    rule=("shard 0 enumerates every span x span and loc x span pair over a 3x4 grid in 2 files "
          "(exhaustive); other shards draw spans with coordinates up to 2^40 via Hypothesis. "
          "non-trivial = same-file pair that is nested, partially overlapping or touching, or a "
          "same-file loc/span pair; distinct = distinct (a, b) tuple"),
    assumptions=["closed-interval reading: spans that touch in one point intersect in the empty span at that point (the reading under which the unchanged __and__ is right)"],
    shards={"quick": 4, "thorough": 16},
    budget_s={"quick": 30, "thorough": 240},
    params={"quick": {"n": 4000}, "thorough": {"n": 400000}},
    min_nontrivial=1000,
)

if __name__ == "__main__":
    harness.main(SPEC)
