"""C26 Loaded pytket circuits act like the circuit.

Domain: pytket circuits of 1-3 qubits in 1-2 quantum registers, 0-3 bits in 0-2 classical
registers and 1-8 operations from the gate set that the installed tket conversion + emulator
execute (H X Y Z S Sdg T Tdg V Vdg Rx Ry Rz PhasedX CX CY CZ CRz ZZMax ZZPhase CCX noop, Measure
into distinct bits), angles numeric or sympy expressions over 0-3 symbols.  Register and symbol
names are drawn from pools in random order, so creation / first-occurrence order differs from
lexicographic order in about half of the cases.  A circuit is loaded with
`guppy.load_pytket(use_arrays=True|False)` or through a matching `@guppy.pytket` stub, called on
qubits that were put into a drawn product state and are passed in a drawn permutation, and the
caller reports every returned bool and `state_result` over its qubits.  Shape cases (compile
only): stubs and calls whose qubit / parameter / bool counts or array sizes are off by one (and
stubs that use arrays) must be rejected, the exact shape must be accepted.

Oracle: the circuit's own action computed from pytket - `Op.get_unitary()` of every command
(ILO-BE: first operand = most significant), applied by a generic numpy tensor contraction to the
caller's product state; circuit qubits = (register name, index) sorted lexicographically, matched
to the passed qubits in that order; symbols sorted by name and bound to the passed angles
(half-turns) in that order; classical bits sorted by (register name, index), one bool each (an
array per register with use_arrays).  A reported measurement outcome must have reference
probability > 1e-9 (so outcomes on basis states are forced), unmeasured bits are False, and the
reported state equals the reference state projected on the reported outcomes up to global phase
within 1e-9.  For measurement-free circuits the per-command reference is cross-checked against
`Circuit.get_statevector()` (a disagreement is a harness error, not a violation).
"""
import os
import sys

sys.path.insert(0, os.path.dirname(os.path.dirname(os.path.abspath(__file__))))
from vlib import harness  # noqa: E402
from vlib import nsim  # noqa: E402

PROP = "C26"
EXCLUDE = set()  # input classes excluded by construction behind a finding (none)
BATCH = 24  # run cases per emulated program (one selene build)
TOL = 1e-9

HEADER = """from guppylang import guppy
from guppylang.std.builtins import result, array
from guppylang.std.debug import state_result
from guppylang.std.angles import angle
from guppylang.std.quantum import qubit, discard, discard_array
import guppylang.std.quantum as Q
from pytket import Circuit, OpType
from sympy import Symbol
"""

# pytket OpType name -> (qubits, angle parameters).  Probed on the unchanged tree: these convert
# (tket-py CompilationState.from_tket1) and execute on selene; SX U1-3 TK1 TK2 CH CV CS CSX SWAP
# ECR CRx CRy CU1 XXPhase YYPhase ISWAP* FSim ESWAP CSWAP GPI AAMS do not build ("Pytket op ..
# is not currently supported by the Selene HUGR-QIS compiler") and are outside the domain.
GATES = {"H": (1, 0), "X": (1, 0), "Y": (1, 0), "Z": (1, 0), "S": (1, 0), "Sdg": (1, 0), "T": (1, 0),
         "Tdg": (1, 0), "V": (1, 0), "Vdg": (1, 0), "noop": (1, 0), "Rx": (1, 1), "Ry": (1, 1), "Rz": (1, 1),
         "PhasedX": (1, 2), "CX": (2, 0), "CY": (2, 0), "CZ": (2, 0), "ZZMax": (2, 0), "CRz": (2, 1),
         "ZZPhase": (2, 1), "CCX": (3, 0)}
BASIS_GATES = ["X", "Y", "Z", "S", "Sdg", "T", "Tdg", "noop", "Rz", "CX", "CY", "CZ", "ZZMax", "CRz",
               "ZZPhase", "CCX"]
REG_NAMES = ["a", "b", "q", "r", "z", "ab", "q0", "q1", "reg"]
CREG_NAMES = ["c", "d", "cb", "m", "c0", "c1", "out"]
SYM_NAMES = ["a", "b", "m", "z", "th", "al", "be", "x1", "x0"]


# ------------------------------------------------------------------ statement-side conventions
def sorted_units(regs):
    """(register name, index) of every unit, lexicographic by register name, then index."""
    return sorted((name, i) for name, size in regs for i in range(size))


def sorted_regs(regs):
    return sorted(regs, key=lambda r: r[0])


def expr_symbols(e):
    t = e[0]
    if t == "num":
        return []
    if t in ("sym", "lin"):
        return [e[-1] if t == "sym" else e[2]]
    if t in ("add", "mul"):
        return [e[1], e[2]]
    raise ValueError(e)


def expr_src(e):
    t = e[0]
    if t == "num":
        return repr(float(e[1]))
    if t == "sym":
        return f'Symbol("{e[1]}")'
    if t == "lin":
        return f'({e[1]!r} * Symbol("{e[2]}") + {e[3]!r})'
    if t == "add":
        return f'(Symbol("{e[1]}") + Symbol("{e[2]}"))'
    if t == "mul":
        return f'(Symbol("{e[1]}") * Symbol("{e[2]}"))'
    raise ValueError(e)


def expr_val(e, env):
    t = e[0]
    if t == "num":
        return float(e[1])
    if t == "sym":
        return env[e[1]]
    if t == "lin":
        return e[1] * env[e[2]] + e[3]
    if t == "add":
        return env[e[1]] + env[e[2]]
    if t == "mul":
        return env[e[1]] * env[e[2]]
    raise ValueError(e)


def symbols_first_occurrence(circ):
    out = []
    for op in circ["ops"]:
        for e in op.get("p", []):
            for s in expr_symbols(e):
                if s not in out:
                    out.append(s)
    return out


def n_qubits(circ):
    return sum(s for _, s in circ["qregs"])


def n_bits(circ):
    return sum(s for _, s in circ["cregs"])


# ------------------------------------------------------------------ source generation
def circ_lines(circ, var, early=0, early_name=None):
    """Python lines that build the pytket circuit `var` (registers in *creation* order).  early=r > 0:
    the circuit is first loaded (flat) and compiled as `early_name` without its last r operations, which
    are then appended to the same Circuit object (a notebook-style history: build, try, extend, load again)."""
    ls = [f"{var} = Circuit()"]
    for i, (name, size) in enumerate(circ["qregs"]):
        ls.append(f'{var}_q{i} = {var}.add_q_register("{name}", {size})')
    for i, (name, size) in enumerate(circ["cregs"]):
        ls.append(f'{var}_c{i} = {var}.add_c_register("{name}", {size})')
    cut = len(circ["ops"]) - early if early else None
    for oi, op in enumerate(circ["ops"]):
        if cut is not None and oi == cut:
            ls.append(f'{early_name} = guppy.load_pytket("{early_name}", {var}, use_arrays=False)')
            ls.append(f"{early_name}.compile_function()")
        qs = ", ".join(f"{var}_q{r}[{i}]" for r, i in op["q"])
        if op["g"] == "Measure":
            r, i = op["b"]
            ls.append(f"{var}.Measure({qs}, {var}_c{r}[{i}])")
        else:
            ps = ", ".join(expr_src(e) for e in op.get("p", []))
            ls.append(f"{var}.add_gate(OpType.{op['g']}, [{ps}], [{qs}])")
    return ls


def build_circuit(circ):
    """Execute circ_lines (oracle side; used for the pytket cross-checks)."""
    from pytket import Circuit, OpType
    from sympy import Symbol

    env = {"Circuit": Circuit, "OpType": OpType, "Symbol": Symbol}
    exec("\n".join(circ_lines(circ, "C")), env)
    return env["C"]


def ret_annotation(nb):
    return "None" if nb == 0 else "bool" if nb == 1 else "tuple[" + ", ".join(["bool"] * nb) + "]"


def prep_lines(prep, v):
    ls = []
    for q, p in enumerate(prep):
        if p[0] == "x":
            ls.append(f"Q.x({v[q]})")
        elif p[0] == "h":
            ls.append(f"Q.h({v[q]})")
        elif p[0] == "r":
            ls.append(f"Q.ry({v[q]}, angle({float(p[1])!r}))")
            ls.append(f"Q.rz({v[q]}, angle({float(p[2])!r}))")
    return ls


def case_lines(case, k):
    """-> (module-level lines, body lines of `def case{k}() -> None`)."""
    circ = case["circ"]
    n, nb = n_qubits(circ), n_bits(circ)
    var = f"C{k}"
    early = min(int(case.get("reload", 0)), len(circ["ops"]))
    top = circ_lines(circ, var, early, f"e{k}")
    mode = case["mode"]
    syms = sorted(set(symbols_first_occurrence(circ)))
    if mode == "stub":
        args = [f"q{j}: qubit" for j in range(n)] + [f"p{j}: angle" for j in range(len(syms))]
        top.append(f"@guppy.pytket({var})")
        top.append(f"def f{k}({', '.join(args)}) -> {ret_annotation(nb)}: ...")
    else:
        top.append(f'f{k} = guppy.load_pytket("f{k}", {var}, use_arrays={mode == "arrays"})')
    v = [f"k{k}_{i}" for i in range(n)]
    body = [f"{x} = qubit()" for x in v]
    body += prep_lines(case["prep"], v)
    perm = case["perm"]
    angles = [f"angle({float(x)!r})" for x in case["vals"]]
    if mode == "arrays":
        regs = sorted_regs(circ["qregs"])
        j = 0
        names = []
        for ri, (_, size) in enumerate(regs):
            body.append(f"r{k}_{ri} = array({', '.join(v[perm[j + t]] for t in range(size))})")
            names.append((f"r{k}_{ri}", size))
            j += size
        args = [nm for nm, _ in names] + ([f"array({', '.join(angles)})"] if angles else [])
        nout = len(circ["cregs"])
        outs = [f"o{k}_{i}" for i in range(nout)]
        call = f"f{k}({', '.join(args)})"
        body.append(f"{', '.join(outs)} = {call}" if outs else call)
        for i, o in enumerate(outs):
            body.append(f'result("c{k}_o{i}", {o})')
        listed = [f"{nm}[{t}]" for nm, size in names for t in range(size)]
        body.append(f'state_result("c{k}_s", {", ".join(listed)})')
        body += [f"discard_array({nm})" for nm, _ in names]
    else:
        args = [v[perm[j]] for j in range(n)] + angles
        outs = [f"o{k}_{i}" for i in range(nb)]
        call = f"f{k}({', '.join(args)})"
        body.append(f"{', '.join(outs)} = {call}" if outs else call)
        for i, o in enumerate(outs):
            body.append(f'result("c{k}_o{i}", {o})')
        body.append(f'state_result("c{k}_s", {", ".join(v)})')
        body += [f"discard({x})" for x in v]
    return top, body


def listed_order(case):
    """caller-qubit index of every qubit listed in the state_result, in listing order."""
    n = n_qubits(case["circ"])
    return [case["perm"][j] for j in range(n)] if case["mode"] == "arrays" else list(range(n))


def program(cases):
    parts = [HEADER]
    for k, c in enumerate(cases):
        top, body = case_lines(c, k)
        parts.append("\n".join(top))
        parts.append(f"@guppy\ndef case{k}() -> None:\n" + "\n".join("    " + ln for ln in body) + "\n")
    if len(cases) == 1:
        parts.append("@guppy\ndef main() -> None:\n    case0()\n")
    else:
        # run-time dispatch: each case sits in its own basic block, so its qubits are freed before
        # the next case allocates (see checks/c20.py)
        disp = [f"        {'if' if k == 0 else 'elif'} k == {k}:\n            case{k}()" for k in range(len(cases))]
        parts.append(f"@guppy\ndef main() -> None:\n    for k in range({len(cases)}):\n" + "\n".join(disp) + "\n")
    return "\n\n".join(parts)


def case_source(case):
    return program([case])


# ------------------------------------------------------------------ oracle
_UCACHE = {}


def pytket_unitary(g, params):
    from pytket import OpType
    from pytket.circuit import Op

    key = (g, tuple(params))
    u = _UCACHE.get(key)
    if u is None:
        u = Op.create(getattr(OpType, g), list(params)).get_unitary()
        if len(_UCACHE) < 5000:
            _UCACHE[key] = u
    return u


def prep_state(prep):
    st = nsim.zero_state(len(prep))
    for q, p in enumerate(prep):
        if p[0] == "x":
            st = nsim.apply(st, nsim.X, [q])
        elif p[0] == "h":
            st = nsim.apply(st, nsim.H, [q])
        elif p[0] == "r":
            st = nsim.apply(st, nsim.ry(nsim.theta(float(p[1]))), [q])
            st = nsim.apply(st, nsim.rz(nsim.theta(float(p[2]))), [q])
    return st


def reference(case, bits, perm=None, vals=None, qorder=None, symorder=None):
    """State over the caller's qubits (axis i = caller qubit i) after the call, given the reported
    bits (sorted-bit order). -> (state | None, problem | None, info).  perm / vals / qorder /
    symorder override the statement's matching (used only to classify asymmetry)."""
    circ = case["circ"]
    perm = case["perm"] if perm is None else perm
    vals = case["vals"] if vals is None else vals
    units = sorted_units(circ["qregs"]) if qorder is None else qorder
    pos = {u: j for j, u in enumerate(units)}
    bunits = sorted_units(circ["cregs"])
    bpos = {u: j for j, u in enumerate(bunits)}
    syms = sorted(set(symbols_first_occurrence(circ))) if symorder is None else symorder
    env = dict(zip(syms, [float(x) for x in vals]))
    st = prep_state(case["prep"])
    info = {}
    measured = set()
    for idx, op in enumerate(circ["ops"]):
        axes = [perm[pos[(circ["qregs"][r][0], i)]] for r, i in op["q"]]
        if op["g"] == "Measure":
            r, i = op["b"]
            j = bpos[(circ["cregs"][r][0], i)]
            measured.add(j)
            b = bits[j]
            p, st2 = nsim.project(st, axes[0], b)
            info["meas:deterministic" if p > 1 - 1e-9 else "meas:superposed"] = 1
            if st2 is None or p < nsim.P_MIN:
                return None, (f"op {idx}: Measure {op['q'][0]} -> bit {bunits[j]}: reported {b} has probability "
                              f"{p:.3e} in the circuit's own state"), info
            st = st2
        else:
            u = pytket_unitary(op["g"], [expr_val(e, env) for e in op.get("p", [])])
            st = nsim.apply(st, u, axes)
    for j, b in enumerate(bits):
        if j not in measured and b != 0:
            return None, f"bit {bunits[j]} is never measured but was returned as {b}", info
    return st, None, info


def flatten(state, order, msb):
    import numpy as np

    order = list(order)
    if not msb:
        order = order[::-1]
    return np.transpose(state, order).reshape(-1)


def selfcheck_against_pytket(case):
    """measurement-free circuits: per-command reference == Circuit.get_statevector() (ILO-BE, qubits in
    pytket's own sorted order, symbols substituted by *name*); also pytket's unit order == sorted_units.
    -> None | message"""
    from sympy import Symbol

    circ = case["circ"]
    c = build_circuit(circ)
    units = sorted_units(circ["qregs"])
    if [(q.reg_name, q.index[0]) for q in c.qubits] != units:
        return f"pytket orders qubits {c.qubits}, sorted (name, index) gives {units}"
    if [(b.reg_name, b.index[0]) for b in c.bits] != sorted_units(circ["cregs"]):
        return f"pytket orders bits {c.bits}, sorted (name, index) gives {sorted_units(circ['cregs'])}"
    syms = sorted(set(symbols_first_occurrence(circ)))
    if sorted(str(s) for s in c.free_symbols()) != syms:
        return f"free symbols {c.free_symbols()} vs {syms}"
    if any(op["g"] == "Measure" for op in circ["ops"]):
        return None
    n = n_qubits(circ)
    plain = dict(case, prep=[["0"]] * n, perm=list(range(n)))
    st, prob, _ = reference(plain, [0] * n_bits(circ))
    c2 = c.copy()
    c2.symbol_substitution({Symbol(s): float(v) for s, v in zip(syms, case["vals"])})
    d = nsim.phase_distance(c2.get_statevector(), st.reshape(-1))
    if d > 1e-9:
        return f"per-command reference differs from Circuit.get_statevector() by {d:.3e}"
    return None


def classify(case, bits):
    """-> (nontrivial, labels): asymmetry of the reference under exchanges (stated rule)."""
    circ = case["circ"]
    n = n_qubits(circ)
    labels = {"mode:" + case["mode"], f"qubits={n}", f"qregs={len(circ['qregs'])}", f"bits={n_bits(circ)}",
              "kind:" + case.get("kind", "?")}
    base, prob, info = reference(case, bits)
    labels |= set(info)
    if base is None:
        return False, labels

    def differs(**kw):
        st, pr, _ = reference(case, bits, **kw)
        return st is None or nsim.phase_distance(st.reshape(-1), base.reshape(-1)) > 1e-6

    perm, vals = case["perm"], case["vals"]
    aq = ap = False
    for i in range(n):
        for j in range(i + 1, n):
            p2 = list(perm)
            p2[i], p2[j] = p2[j], p2[i]
            if differs(perm=p2):
                aq = True
    for i in range(len(vals)):
        for j in range(i + 1, len(vals)):
            v2 = list(vals)
            v2[i], v2[j] = v2[j], v2[i]
            if differs(vals=v2):
                ap = True
    if aq:
        labels.add("asym:qubits")
    if ap:
        labels.add("asym:params")
    names = [r[0] for r in circ["qregs"]]
    if len(names) > 1:
        labels.add("qregs:creation!=lex" if names != sorted(names) else "qregs:creation==lex")
        creation = [(nm, i) for nm, size in circ["qregs"] for i in range(size)]
        if differs(qorder=creation):
            labels.add("asym:register-order")
    cn = [r[0] for r in circ["cregs"]]
    if len(cn) > 1:
        labels.add("cregs:creation!=lex" if cn != sorted(cn) else "cregs:creation==lex")
    fo = symbols_first_occurrence(circ)
    labels.add(f"syms={len(fo)}")
    if len(fo) > 1:
        labels.add("syms:first-occurrence!=lex" if fo != sorted(fo) else "syms:first-occurrence==lex")
        if differs(symorder=fo):
            labels.add("asym:param-first-occurrence")
    if perm != sorted(perm):
        labels.add("args:permuted")
    if any(p[0] != "0" for p in case["prep"]):
        labels.add("prep")
    if len(set(bits)) > 1:
        labels.add("bits:mixed-outcomes")
    for op in circ["ops"]:
        labels.add("gate:" + op["g"])
        if any(e[0] != "num" for e in op.get("p", [])):
            labels.add("param:symbolic")
        if any(e[0] in ("lin", "add", "mul") for e in op.get("p", [])):
            labels.add("param:expression")
    return aq or ap, labels


def _fmt(v):
    import numpy as np

    return np.array2string(np.asarray(v), precision=6, suppress_small=True, max_line_width=200)


def judge(case, k, results, states, msb):
    """-> (None | (kind, detail), bits)"""
    import numpy as np

    circ = case["circ"]
    nb = n_bits(circ)
    # ---- returned bools
    bits = []
    if case["mode"] == "arrays":
        regs = sorted_regs(circ["cregs"])
        for i, (name, size) in enumerate(regs):
            got = results.get(f"c{k}_o{i}")
            if not isinstance(got, list) or len(got) != size or any(b not in (0, 1) for b in got):
                return ("bits.shape", f"bit register '{name}' (size {size}, output {i}) was returned as {got!r}"), None
            bits += got
    else:
        for i in range(nb):
            got = results.get(f"c{k}_o{i}")
            if got not in (0, 1):
                return ("bits.shape", f"bool {i} of {nb} was returned as {got!r}"), None
            bits.append(got)
    ref, prob, _ = reference(case, bits)
    if ref is None:
        return ("bits.mismatch", f"returned bits {bits} (order {sorted_units(circ['cregs'])}): {prob}"), bits
    # ---- state
    dist = states.get(f"c{k}_s")
    if dist is None:
        return ("state.missing", "no state_result reported"), bits
    d = 2 ** n_qubits(circ)
    if len(dist) != 1 or len(dist[0][1]) != d:
        return ("state.shape", f"state_result reported {len(dist)} vectors of lengths {[len(v) for _, v in dist]}"), bits
    vec = np.asarray(dist[0][1])
    exp = flatten(ref, listed_order(case), msb)
    dd = nsim.phase_distance(vec, exp)
    if dd > TOL:
        ph = np.vdot(exp, vec)
        ph = ph / abs(ph) if abs(ph) > 1e-12 else 1.0
        return ("state.mismatch", f"reported {_fmt(vec)}\nexpected {_fmt(exp * ph)} (pytket unitaries, sorted registers / "
                f"symbols, phase-aligned); distance {dd:.3e}"), bits
    return None, bits


# ------------------------------------------------------------------ running
_MSB = None


def calibrate():
    from vlib import qrun

    src = HEADER + """
@guppy
def main() -> None:
    a = qubit()
    b = qubit()
    c = qubit()
    Q.x(a)
    state_result("s0", a, b, c)
    state_result("s1", b, c, a)
    Q.x(b)
    state_result("s2", c, b, a)
    discard(a)
    discard(b)
    discard(c)
"""
    out = qrun.run_states(src, 3, seed=1)
    if out.kind != "ok":
        return None, f"calibration program did not run: {out.brief()}"
    spec = {"s0": [1, 0, 0], "s1": [0, 0, 1], "s2": [0, 1, 1]}
    seen = dict(out.extra["states"])
    ok = {True: True, False: True}
    for tag, bits in spec.items():
        dist = seen.get(tag)
        if dist is None or len(dist) != 1:
            return None, f"calibration: state '{tag}' missing or mixed"
        amax = int(abs(dist[0][1]).argmax())
        ok[True] &= amax == int("".join(map(str, bits)), 2)
        ok[False] &= amax == int("".join(map(str, bits[::-1])), 2)
    if ok[True] == ok[False]:
        return None, "calibration of the state_result qubit order is inconsistent"
    return ok[True], "msb-first" if ok[True] else "lsb-first"


def setup():
    """bridge + calibration, once per process. -> msb_first"""
    global _MSB
    if _MSB is None:
        from vlib import c26_bridge

        c26_bridge.install()
        nsim.selfcheck()
        m, msg = calibrate()
        if m is None:
            raise harness.HarnessError(msg)
        _MSB = (m, msg)
    return _MSB[0]


def evaluate_batch(cases, seed):
    """-> list of (kind | None, detail, bits): kinds starting with '__' are not violations."""
    from vlib import qrun, runner

    msb = setup()
    src = program(cases)
    nq = max(n_qubits(c["circ"]) for c in cases)
    out = qrun.run_states(src, nq, seed=seed)
    if out.kind == "unsupported":
        if len(cases) > 1:
            h = len(cases) // 2
            return evaluate_batch(cases[:h], seed) + evaluate_batch(cases[h:], seed)
        if "alidation error" in out.message:
            # selene validates the (lowered) package before building: ill-typed wiring, not a toolchain gap
            return [("invalid_hugr", out.message[:1500], None)]
        return [("__unsupported__", out.message[:300], None)]
    if out.kind in ("rejected", "crash", "invalid", "panic"):
        if len(cases) > 1:
            h = len(cases) // 2
            return evaluate_batch(cases[:h], seed) + evaluate_batch(cases[h:], seed)
        if out.kind == "rejected":
            return [("accept.rejected", f"a call of the circuit's exact shape was rejected: {out.title}\n{out.message[-1500:]}", None)]
        if out.kind == "crash":
            if out.title == "SyntaxError-gen":
                return [("__harness__", out.message, None)]
            return [("crash:" + runner.crash_bucket(out.exc), out.message[-1500:], None)]
        if out.kind == "panic":
            return [("run.panic", out.message[:500], None)]
        return [("invalid_hugr", out.message[:1500], None)]
    results = dict(out.stream)
    states = dict(out.extra["states"])
    verdicts = []
    for k, c in enumerate(cases):
        r, bits = judge(c, k, results, states, msb)
        verdicts.append((r[0], r[1], bits) if r else (None, "", bits))
    return verdicts


# ------------------------------------------------------------------ shape cases (compile only)
def shape_source(case):
    """stub / call whose shape is the circuit's plus a delta. Source + expected acceptance."""
    circ = case["circ"]
    n, nb = n_qubits(circ), n_bits(circ)
    ns = len(set(symbols_first_occurrence(circ)))
    sh = case["shape"]
    top = circ_lines(circ, "C0")
    what = sh["what"]
    dq, dp, db = sh.get("dq", 0), sh.get("dp", 0), sh.get("db", 0)
    body = []
    if what == "stub":
        # the declared stub has n+dq qubits, ns+dp angles, nb+db bools; the caller agrees with the stub
        q, p, b = n + dq, ns + dp, nb + db
        if sh.get("arrays"):
            args = [f"r{i}: array[qubit, {size}]" for i, (_, size) in enumerate(sorted_regs(circ["qregs"]))]
            args += [f"ps: array[angle, {p}]"] if p else []
            ret = ("None" if not circ["cregs"] else
                   ", ".join(f"array[bool, {s}]" for _, s in sorted_regs(circ["cregs"])))
            if len(circ["cregs"]) > 1:
                ret = f"tuple[{ret}]"
            top += ["@guppy.pytket(C0)", f"def f0({', '.join(args)}) -> {ret}: ..."]
            top += ["@guppy", "def main() -> None:", "    pass"]
            return HEADER + "\n" + "\n".join(top) + "\n", "f0"
        own = sh.get("own")  # this qubit is declared @owned: same types, different ownership -> mismatch
        args = [f"q{j}: qubit" + (" @owned" if own is not None and j == own % q else "") for j in range(q)]
        args += [f"p{j}: angle" for j in range(p)]
        top += ["@guppy.pytket(C0)", f"def f0({', '.join(args)}) -> {ret_annotation(b)}: ..."]
        v = [f"k{i}" for i in range(q)]
        body = [f"{x} = qubit()" for x in v]
        call = f"f0({', '.join(v + ['angle(0.25)'] * p)})"
        outs = [f"o{i}" for i in range(b)]
        body.append(f"{', '.join(outs)} = {call}" if outs else call)
        body += [f'result("o{i}", o{i})' for i in range(b)]
        body += [f"discard({x})" for j, x in enumerate(v) if own is None or j != own % q]
    elif what == "call_flat":
        top.append('f0 = guppy.load_pytket("f0", C0, use_arrays=False)')
        q, p, b = n + dq, ns + dp, nb + db
        v = [f"k{i}" for i in range(q)]
        body = [f"{x} = qubit()" for x in v]
        call = f"f0({', '.join(v + ['angle(0.25)'] * p)})"
        outs = [f"o{i}" for i in range(b)]
        # b == 1 with a tuple result (or b >= 2 with a single bool) is an unpack error -> rejected as well
        body.append(f"{', '.join(outs)}{',' if b == 1 and nb != 1 else ''} = {call}" if outs else f"_u: None = {call}")
        body += [f'result("o{i}", o{i})' for i in range(b)]
        body += [f"discard({x})" for x in v]
    elif what == "call_arrays":
        top.append('f0 = guppy.load_pytket("f0", C0, use_arrays=True)')
        regs = sorted_regs(circ["qregs"])
        sizes = [s for _, s in regs]
        if "reg" in sh:  # one register passed with a size off by dq
            sizes[sh["reg"] % len(sizes)] += dq
        elif dq > 0:
            sizes.append(1)  # an extra register
        elif dq < 0:
            sizes.pop()
        names = []
        for i, s in enumerate(sizes):
            body.append(f"r{i} = array({', '.join(['qubit()'] * s)})")
            names.append(f"r{i}")
        p = ns + dp
        args = names + ([f"array({', '.join(['angle(0.25)'] * p)})"] if p else [])
        call = f"f0({', '.join(args)})"
        cregs = sorted_regs(circ["cregs"])
        if len(cregs) == 0:
            body.append(f"_u: None = {call}")
        else:
            csz = [s for _, s in cregs]
            if db:
                csz[sh.get("creg", 0) % len(csz)] += db
            anns = [f"array[bool, {s}]" for s in csz]
            body.append(f"_u: {anns[0] if len(anns) == 1 else 'tuple[' + ', '.join(anns) + ']'} = {call}")
        body += [f"discard_array({nm})" for nm in names]
    else:
        raise ValueError(what)
    src = (HEADER + "\n" + "\n".join(top) + "\n\n@guppy\ndef main() -> None:\n"
           + "\n".join("    " + ln for ln in body) + "\n")
    return src, "main"


def shape_expected_ok(case):
    sh = case["shape"]
    return not (sh.get("dq") or sh.get("dp") or sh.get("db") or sh.get("arrays") or sh.get("own") is not None)


def shape_kind(case):
    sh = case["shape"]
    if shape_expected_ok(case):
        return sh["what"] + ":exact"
    if sh.get("arrays"):
        return "stub:arrays"
    if sh.get("own") is not None:
        return "stub:owned_qubit"
    return sh["what"] + ":" + "+".join(f"{k}{sh[k]:+d}" for k in ("dq", "dp", "db") if sh.get(k))


def evaluate_shape(case):
    """-> None | (kind, detail)   ('__harness__' kind = generator problem)"""
    from vlib import runner

    setup()
    src, entry = shape_source(case)
    try:
        lm = runner.load_module(src)
    except SyntaxError as e:
        return ("__harness__", f"generator produced invalid python: {e}\n{src}")
    except BaseException as e:  # noqa: BLE001
        if isinstance(e, (KeyboardInterrupt, SystemExit)):
            raise
        out = runner.classify_exception(e)
        lm = None
    else:
        out, _ = runner.compile_def(getattr(lm.mod, entry), entry=(entry == "main"))
    if lm is not None:
        lm.dispose()
    want_ok = shape_expected_ok(case)
    kind = shape_kind(case)
    if out.kind == "crash":
        return ("shape.crash:" + runner.crash_bucket(out.exc), f"{kind}: {out.message[-1200:]}")
    if want_ok and out.kind != "ok":
        return ("shape.rejected_exact:" + case["shape"]["what"],
                f"{kind}: the circuit's exact shape was rejected: {out.title}\n{out.message[-1200:]}")
    if not want_ok and out.kind == "ok":
        return ("shape.accepted_mismatch:" + kind.replace("+1", "").replace("-1", ""),
                f"{kind}: accepted although the shape differs from the circuit's "
                f"({n_qubits(case['circ'])} qubits, {len(set(symbols_first_occurrence(case['circ'])))} parameters, "
                f"{n_bits(case['circ'])} bits)")
    if not want_ok and case["shape"]["what"] == "stub":
        name = type(getattr(out.exc, "error", None)).__name__
        if name != "PytketSignatureMismatch":
            return ("shape.stub_other_error", f"{kind}: rejected with {name} ({out.title}) instead of the signature "
                    f"mismatch error\n{out.message[-800:]}")
    return None


# ------------------------------------------------------------------ replay / minimise
def replay(case):
    if case.get("kind") == "shape":
        r = evaluate_shape(case)
        if r and r[0].startswith("__"):
            raise harness.HarnessError(r[1])
        return (case.get("bucket") or r[0], r[1] + "\n--- program\n" + shape_source(case)[0]) if r else None
    s0 = int(case.get("seed", 1))
    for sd in (s0, s0 + 1, s0 + 2):
        kind, detail, _ = evaluate_batch([case], sd)[0]
        if kind and kind.startswith("__"):
            raise harness.HarnessError(detail)
        if kind:
            return (case.get("bucket") or bucket_of(kind, case), f"seed {sd}: {detail}\n--- program\n{case_source(case)}")
    return None


def features(case):
    """feature set used to name a bucket (taken from the *minimised* case) and to attribute later
    failures of the same kind to an already minimised root cause."""
    circ = case["circ"]
    f = set()
    if case["mode"] != "flat":
        f.add(case["mode"])
    if symbols_first_occurrence(circ):
        f.add("syms")
    if len(circ["qregs"]) > 1:
        f.add("qregs2")
    if any(op["g"] == "Measure" for op in circ["ops"]):
        f.add("measure")
    if case.get("reload"):
        f.add("reload")
    return f


def bucket_of(kind, case):
    return f"{kind}:{'+'.join(sorted(features(case))) or 'plain'}"


def renormalise(case):
    """Make a reduced case self-consistent again (symbol values follow the symbols still used)."""
    circ = case["circ"]
    old_syms = case.get("_syms") or sorted(set(symbols_first_occurrence(case.get("_orig", circ))))
    env = dict(zip(old_syms, case["vals"]))
    syms = sorted(set(symbols_first_occurrence(circ)))
    c = dict(case, vals=[env[s] for s in syms])
    c.pop("_syms", None)
    c.pop("_orig", None)
    return c


def candidates(case):
    circ = case["circ"]
    syms = sorted(set(symbols_first_occurrence(circ)))
    out = []
    for i in range(len(circ["ops"])):
        c2 = dict(circ, ops=circ["ops"][:i] + circ["ops"][i + 1:])
        if c2["ops"]:
            out.append(renormalise(dict(case, circ=c2, _syms=syms)))
    n = n_qubits(circ)
    if case["mode"] != "flat":
        out.append(dict(case, mode="flat"))
    if len(circ["qregs"]) > 1:
        # one register holding the same qubits in the same (sorted) order
        units = sorted_units(circ["qregs"])
        ren = {(ri, i): [0, units.index((nm, i))] for ri, (nm, sz) in enumerate(circ["qregs"]) for i in range(sz)}
        ops = [dict(op, q=[ren[tuple(q)] for q in op["q"]]) for op in circ["ops"]]
        out.append(dict(case, circ=dict(circ, qregs=[["q", n]], ops=ops)))
    if any(p[0] != "0" for p in case["prep"]):
        out.append(dict(case, prep=[["0"]] * n))
        for q in range(n):
            if case["prep"][q][0] != "0":
                pr = list(case["prep"])
                pr[q] = ["0"]
                out.append(dict(case, prep=pr))
    if case["perm"] != list(range(n)):
        out.append(dict(case, perm=list(range(n))))
    if circ["cregs"] and not any(op["g"] == "Measure" for op in circ["ops"]):
        out.append(dict(case, circ=dict(circ, cregs=[])))
    for i, op in enumerate(circ["ops"]):
        for j, e in enumerate(op.get("p", [])):
            if e[0] in ("lin", "add", "mul"):
                ops = list(circ["ops"])
                ops[i] = dict(op, p=op["p"][:j] + [["sym", expr_symbols(e)[0]]] + op["p"][j + 1:])
                out.append(renormalise(dict(case, circ=dict(circ, ops=ops), _syms=syms)))
    return out


def minimise(case, seed, kind, deadline, clock):
    cur = case
    while clock() < deadline:
        cands = candidates(cur)
        if not cands:
            break
        vs = []
        for i in range(0, len(cands), BATCH):
            vs += evaluate_batch(cands[i:i + BATCH], seed)
        good = [c for c, v in zip(cands, vs) if v[0] == kind]
        if not good:
            break
        cur = min(good, key=lambda c: len(case_source(c)))
    return cur


# ------------------------------------------------------------------ generator
def strategies():
    from hypothesis import strategies as st

    angle_val = st.one_of(
        st.builds(lambda k, m: k / 2 ** m, st.integers(-31, 31), st.integers(1, 4)),
        st.floats(-1.9, 1.9, allow_nan=False, allow_subnormal=False).map(lambda x: round(x, 6)),
        st.sampled_from([0.1, 1 / 3, -0.7, 0.3183098861837907, 1.234567]))

    @st.composite
    def circuit(draw, mode, allow_measure=True):
        n = draw(st.sampled_from([1, 2, 2, 3, 3, 3]))
        names = list(draw(st.permutations(REG_NAMES)))
        if n >= 2 and draw(st.integers(0, 3)) > 0:
            cut = draw(st.integers(1, n - 1))
            qregs = [[names[0], cut], [names[1], n - cut]]
        else:
            qregs = [[names[0], n]]
        nb = draw(st.sampled_from([0, 1, 2, 2, 3, 3])) if allow_measure else draw(st.sampled_from([0, 0, 0, 1, 2]))
        cnames = list(draw(st.permutations(CREG_NAMES)))
        if nb >= 2 and draw(st.booleans()):
            cut = draw(st.integers(1, nb - 1))
            cregs = [[cnames[0], cut], [cnames[1], nb - cut]]
        elif nb:
            cregs = [[cnames[0], nb]]
        else:
            cregs = []
        nsym = draw(st.sampled_from([0, 0, 1, 2, 2, 2, 2, 3, 3, 3]))
        syms = list(draw(st.permutations(SYM_NAMES)))[:nsym]
        qunits = [(r, i) for r, (_, s) in enumerate(qregs) for i in range(s)]
        free_bits = list(draw(st.permutations([(r, i) for r, (_, s) in enumerate(cregs) for i in range(s)])))
        pool = BASIS_GATES if mode == "basis" else sorted(GATES)
        nops = draw(st.integers(1, 8))
        ops = []
        for _ in range(nops):
            if mode != "unitary" and free_bits and draw(st.integers(0, 9)) < 4:
                q = draw(st.sampled_from(qunits))
                ops.append({"g": "Measure", "q": [list(q)], "b": list(free_bits.pop())})
                continue
            cands = [g for g in pool if GATES[g][0] <= n]
            classes = {}
            for g in cands:
                classes.setdefault((GATES[g][0], GATES[g][1] > 0), []).append(g)
            w = ({(1, False): 2, (1, True): 6, (2, False): 3, (2, True): 5, (3, False): 1} if syms else
                 {(1, False): 2, (1, True): 3, (2, False): 3, (2, True): 2, (3, False): 1})
            menu = [k for k in sorted(classes) for _ in range(w[k])]
            g = draw(st.sampled_from(classes[draw(st.sampled_from(menu))]))
            qs = [list(q) for q in draw(st.permutations(qunits))[: GATES[g][0]]]
            op = {"g": g, "q": qs}
            ps = []
            for _ in range(GATES[g][1]):
                if syms and draw(st.integers(0, 9)) < 8:
                    t = draw(st.sampled_from(["sym", "sym", "sym", "lin", "add", "mul"]))
                    if t == "sym":
                        ps.append(["sym", draw(st.sampled_from(syms))])
                    elif t == "lin":
                        ps.append(["lin", draw(st.sampled_from([2.0, -1.0, 0.5, 3.0])), draw(st.sampled_from(syms)),
                                   draw(st.sampled_from([0.0, 0.5, 0.25, -1.0]))])
                    else:
                        ps.append([t, draw(st.sampled_from(syms)), draw(st.sampled_from(syms))])
                else:
                    ps.append(["num", draw(angle_val)])
            if ps:
                op["p"] = ps
            ops.append(op)
        return {"qregs": qregs, "cregs": cregs, "ops": ops}

    @st.composite
    def run_case(draw):
        kind = draw(st.sampled_from(["unitary", "unitary", "unitary", "basis", "super"]))
        circ = draw(circuit(kind))
        n = n_qubits(circ)
        mode = draw(st.sampled_from(["arrays", "arrays", "flat", "flat", "stub"]))
        prep = []
        for _ in range(n):
            c = draw(st.integers(0, 4))
            if kind == "basis":
                prep.append(["x"] if c >= 3 else ["0"])
            elif c == 0:
                prep.append(["0"])
            elif c == 1:
                prep.append(["h"])
            else:
                prep.append(["r", draw(angle_val), draw(angle_val)])
        perm = list(draw(st.permutations(list(range(n)))))
        ns = len(set(symbols_first_occurrence(circ)))
        vals = draw(st.lists(angle_val, min_size=ns, max_size=ns, unique=True))
        reload_ = draw(st.sampled_from([0, 0, 0, 0, 1, 2])) if len(circ["ops"]) >= 2 else 0
        return {"kind": kind, "circ": circ, "mode": mode, "prep": prep, "perm": perm, "vals": vals,
                "seed": draw(st.integers(1, 10**6)), "reload": reload_}

    @st.composite
    def shape_case(draw):
        circ = draw(circuit("super"))
        n, nb = n_qubits(circ), n_bits(circ)
        ns = len(set(symbols_first_occurrence(circ)))
        what = draw(st.sampled_from(["stub", "stub", "call_flat", "call_arrays"]))
        sh = {"what": what}
        c = draw(st.integers(0, 9))
        if c == 0:
            pass  # exact shape
        elif what == "stub" and c == 1:
            sh["arrays"] = True
        elif what == "stub" and c in (2, 3) and n >= 1:
            sh["own"] = draw(st.integers(0, 3))
        else:
            opts = ["dq+"] + (["dq-"] if n > 1 or what != "call_arrays" else []) + ["dp+"] + (["dp-"] if ns else [])
            if what != "call_arrays" or circ["cregs"]:
                opts += ["db+"] + (["db-"] if nb > (1 if what == "call_arrays" else 0) else [])
            o = draw(st.sampled_from(opts))
            sh[o[:2]] = 1 if o[2] == "+" else -1
            if what == "call_arrays" and o[:2] == "dq" and draw(st.booleans()):
                sh["reg"] = draw(st.integers(0, 1))
                sizes = [s for _, s in sorted_regs(circ["qregs"])]
                if sizes[sh["reg"] % len(sizes)] + sh["dq"] < 1:
                    sh["dq"] = 1
            if what == "call_arrays" and o[:2] == "db":
                sh["creg"] = draw(st.integers(0, 1))
                sizes = [s for _, s in sorted_regs(circ["cregs"])]
                if sizes[sh["creg"] % len(sizes)] + sh["db"] < 1:
                    sh["db"] = 1
            if what == "call_arrays" and "reg" not in sh and sh.get("dq", 0) < 0 and len(circ["qregs"]) < 2:
                sh["dq"] = 1
        return {"kind": "shape", "circ": circ, "shape": sh}

    return st.one_of(run_case(), run_case(), run_case(), run_case(), shape_case())


def public(case):
    return {k: v for k, v in case.items() if not k.startswith("_")}


def worker(ctx):
    import time

    try:
        setup()
    except harness.HarnessError as e:
        ctx.harness_error(str(e))
        return
    ctx.notes["state_result_order"] = _MSB[1]
    ctx.notes["tolerance"] = TOL
    strategy = strategies()
    pending = []
    known = {}  # bucket -> (kind, feature set) of minimised root causes
    shrink_spent = [0.0]
    SHRINK_CAP = ctx.budget_s * 0.35

    def emit(sig, case, detail):
        c = dict(public(case), bucket=sig, source=case_source(case))
        ctx.violation(sig, c, f"{detail}\n--- program (emulator seed {case['seed']})\n{case_source(case)}")

    def attribute(kind, case):
        f = features(case)
        for sig, (k2, f2) in known.items():
            if k2 == kind and f2 <= f:
                return sig
        return None

    def flush():
        if not pending:
            return
        cases = list(pending)
        pending.clear()
        seed = cases[0]["seed"]
        verdicts = evaluate_batch(cases, seed)
        fails = []
        for c, (kind, detail, bits) in zip(cases, verdicts):
            if kind == "__unsupported__":
                ctx.unsupported_case(detail[:120])
                continue
            if kind == "__harness__":
                ctx.harness_error(detail)
                continue
            msg = selfcheck_against_pytket(c)
            if msg:
                ctx.harness_error(f"oracle self-check: {msg}\n{case_source(c)}")
                continue
            nontriv, labels = classify(c, bits) if bits is not None else (False, {"mode:" + c["mode"]})
            ctx.case({"circ": c["circ"], "mode": c["mode"], "prep": c["prep"], "perm": c["perm"], "vals": c["vals"]},
                     nontriv and not kind, labels=sorted(labels), sample=case_source(c) if nontriv else None)
            if kind:
                fails.append((c, kind, detail))
        # smallest first: its minimised form names the bucket the others are attributed to
        for c, kind, detail in sorted(fails, key=lambda x: len(case_source(x[0]))):
            sig = attribute(kind, c)
            small = c
            if sig is None:
                if shrink_spent[0] < SHRINK_CAP and not ctx.out_of_time(0.85):
                    t0 = time.monotonic()
                    small = minimise(c, seed, kind, t0 + min(ctx.budget_s * 0.2, SHRINK_CAP - shrink_spent[0]),
                                     time.monotonic)
                    shrink_spent[0] += time.monotonic() - t0
                    k2, d2, _ = evaluate_batch([small], seed)[0]
                    if k2 == kind:
                        detail = d2
                    else:
                        small = c
                    sig = bucket_of(kind, small)
                    known[sig] = (kind, features(small))
                else:
                    sig = kind + ":unminimised"
            emit(sig, small, detail)

    def body(case):
        if case["kind"] == "shape":
            r = evaluate_shape(case)
            if r and r[0] == "__harness__":
                ctx.harness_error(r[1])
                return
            kind = shape_kind(case)
            ctx.case({"circ": case["circ"], "shape": case["shape"]}, False,
                     labels=["kind:shape", "shape:" + kind.replace("+1", "+").replace("-1", "-")],
                     sample=shape_source(case)[0])
            if r:
                c = dict(case, bucket=r[0], source=shape_source(case)[0])
                ctx.violation(r[0], c, r[1] + "\n--- program\n" + shape_source(case)[0])
            return
        pending.append(case)
        if len(pending) >= BATCH:
            flush()

    harness.hyp_search(ctx, strategy, body, max_examples=ctx.params["n"], chunk=100)
    if not ctx.out_of_time(0.97):
        flush()


SPEC = harness.Spec(
    PROP, worker, replay,
    rule=("Hypothesis draws pytket circuits: 1-3 qubits in 1-2 quantum registers, 0-3 bits in 0-2 classical registers (names "
          "permuted from pools, so creation order != lexicographic order in ~half of the multi-register cases), 1-8 operations "
          "from H X Y Z S Sdg T Tdg V Vdg noop Rx Ry Rz PhasedX CX CY CZ ZZMax CRz ZZPhase CCX on permuted qubits, angles numeric "
          "or sym / c*sym+d / sym+sym / sym*sym over 0-3 symbols (names permuted from a pool), Measure into distinct bits "
          "(kinds: unitary / basis-state / superposed). Run cases (4/5): loaded by load_pytket(use_arrays=True|False) or a "
          "matching @guppy.pytket stub, called on a drawn product state with the qubits passed in a drawn permutation and "
          "distinct angle values; 24 cases share one emulated program; one evaluation = returned bools + state_result "
          "compared with the reference. Shape cases (1/5, compile only): stub / flat call / array call whose qubit, parameter "
          "or bool count (or one array size) is off by one, array-typed stubs, and the exact shape. non-trivial = run case "
          "whose reference state changes when two qubit arguments or two parameter values are exchanged; distinct = distinct "
          "(circuit, mode, preparation, permutation, values)"),
    assumptions=[
        "how the circuit acts is defined by pytket: Op.get_unitary() per command (ILO-BE), cross-checked against Circuit.get_statevector() for measurement-free circuits; pytket angles and guppy `angle` are both half-turns",
        "lexicographic order = Python string order of register / symbol names, units of one register by index; checked to coincide with pytket's own Circuit.qubits / Circuit.bits order on every case",
        "bools are returned in lexicographic bit order (one array per bit register in lexicographic register order with use_arrays); unmeasured bits are False",
        "states equal up to global phase within 1e-9 (max-abs amplitude); a reported outcome needs reference probability > 1e-9; the state after the call is the reference projected on the reported outcomes",
        "state_result qubit order calibrated per worker on X-prepared basis states; preparation gates x/h/ry/rz use the documented matrices (C20's nsim)",
        "toolchain bridge (vlib/c26_bridge.py): installed tket-py 0.15 types symbolic parameters of the converted function as tket.rotation, /repo (written for tket-py 0.12) passes float64 half-turns; the bridge turns the rotation inputs of the converted function into float64 inputs + from_halfturns_unchecked. Nothing of /repo is changed",
        "hugr validate is not used here: compat's validator-side declaration of tket.quantum.Measure (-> tket.bool) conflicts with the sum-bool Measure emitted by the tket conversion; the emulator build validates the lowered package",
        "array-typed @guppy.pytket stubs never match (the decorator is documented as not supporting arrays); a mismatching stub must be rejected with the pytket signature-mismatch error, a mismatching call with any GuppyError",
        "gates the installed selene cannot build (SX U1-3 TK1 TK2 CH CV CS CSX SWAP ECR CRx CRy CU1 XXPhase YYPhase ISWAP FSim ESWAP CSWAP ...) and Reset / Barrier / conditional gates are outside the domain",
    ],
    shards={"quick": 8, "thorough": 16},
    budget_s={"quick": 90, "thorough": 840},
    params={"quick": {"n": 150}, "thorough": {"n": 2400}},
    min_nontrivial=50,
)

if __name__ == "__main__":
    harness.main(SPEC)
