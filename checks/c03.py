"""C03 Classical control and data flow behave as in Python.

Domain: GenProg (vlib/gen/prog.py) — well-typed, terminating classical programs built by
construction.  Oracle: the emulator's result stream == pyref's (CPython executing the same
source text, ints reduced to 64-bit two's complement)."""
import os
import sys

sys.path.insert(0, os.path.dirname(os.path.dirname(os.path.abspath(__file__))))
from vlib import harness  # noqa: E402

PROP = "C03"


def evaluate(src):
    """-> (status, bucket, detail); status in ok|mismatch|outside|unsupported|toolong|generr"""
    from vlib import pyref, runner

    try:
        ref, pan = pyref.run_ref(src)
    except pyref.RefTooLong:
        return "toolong", None, None
    except BaseException as e:  # noqa: BLE001
        return "generr", None, f"pyref raised {e!r} on generated program"
    out, lm = runner.run_source(runner.PRELUDE + src)
    if lm is not None:
        lm.dispose()
    if out.kind in ("rejected", "crash", "invalid"):
        return "outside", f"{out.kind}:{out.title}", out.message[-1200:]
    if out.kind == "unsupported":
        return "unsupported", out.title, out.message[:300]
    if out.kind == "timeout":
        # CPython finished this program within pyref's step bound; an emulator run that is still going after
        # the (generous) limit is confirmed once on a fresh build before it is reported
        out2, lm2 = runner.run_source(runner.PRELUDE + src)
        if lm2 is not None:
            lm2.dispose()
        if out2.kind == "timeout":
            return "mismatch", "nontermination", (f"{out.message}; results so far {out.stream[-5:]}; Python finished with "
                                                  f"{len(ref)} results")
        out = out2
        if out.kind in ("rejected", "crash", "invalid", "unsupported"):
            return "unsupported", "unstable:" + out.kind, out.message[:300]
    if out.kind == "panic":
        if pan is None:
            return "mismatch", "panic.unexpected", (
                f"emulator panicked ({out.message}) after {len(out.stream)} results; "
                f"Python ran to completion with {len(ref)} results")
        if not pyref.streams_equal(out.stream, ref) or pan not in out.message:
            return "mismatch", "panic.stream", f"panic streams differ: {pyref.first_diff(out.stream, ref)}"
        return "ok", None, None
    if pan is not None:
        return "mismatch", "panic.missing", f"Python panicked ({pan}), emulator finished"
    if not pyref.streams_equal(out.stream, ref):
        i, a, b = pyref.first_diff(out.stream, ref)
        return "mismatch", "stream", (f"result #{i}: emulator {a} vs Python {b} "
                                      f"(lengths {len(out.stream)} / {len(ref)})")
    return "ok", None, None


def replay(case):
    st, bucket, detail = evaluate(case["src"])
    if st == "mismatch":
        return (case.get("bucket") or bucket, detail)
    return None


def feature_bucket(src):
    feats = []
    for kw, name in (("while True", "whiletrue"), ("while ", "while"), ("for ", "for"), ("break", "break"),
                     ("continue", "continue"), (":=", "walrus"), ("array(", "array"), ("*", "star"),
                     (" if ", "ifexp"), ("elif", "elif"), ("def h", "nesteddef"), ("P(", "struct")):
        if kw in src:
            feats.append(name)
    return "+".join(feats[:6]) or "straightline"


def worker(ctx):
    from vlib.gen import prog

    K = ctx.params.get("batch", 4)
    strat = prog.program_batches(k=K, n_funcs=(1, 3), max_depth=3)
    single = prog.programs(n_funcs=(1, 3), max_depth=3)
    mism = []
    outside = [0]
    total = [0]

    def record(src, labels, nontrivial, st, bucket, detail):
        total[0] += 1
        ctx.case(src, nontrivial and st == "ok", labels=list(labels) + ["status:" + st],
                 sample={"src": src, "status": st} if st == "ok" and nontrivial else None)
        if st == "mismatch":
            mism.append((bucket, src, detail))
        elif st == "generr":
            ctx.harness_error(detail + "\n" + src)
        elif st == "outside":
            outside[0] += 1
            ctx.label("outside:" + bucket)
            ctx.sample("outside:" + bucket, {"src": src, "why": detail})
        elif st == "unsupported":
            ctx.unsupported_case(bucket)

    def body(p):
        # one selene build for the whole batch; only if the batch is not clean are the
        # programs judged one by one
        st, bucket, detail = evaluate(p["src"])
        if st == "ok":
            for part, labels, nt in zip(p["parts"], p["labels"], p["nontrivial"]):
                record(part, labels, nt, "ok", None, None)
            return
        ctx.label("batch_not_clean:" + st)
        for part, labels, nt in zip(p["parts"], p["labels"], p["nontrivial"]):
            st1, b1, d1 = evaluate(part)
            record(part, labels, nt, st1, b1, d1)

    harness.hyp_search(ctx, strat, body, max_examples=ctx.params["n"], chunk=10, time_frac=0.5)

    # ---- stage 2: expression-level programs (GenEffects restricted to the classical fragment: no qubits,
    # no panics): walrus / conditional expressions / and-or / chained comparisons inside assignments,
    # conditions, call arguments, augmented and subscript assignments, struct fields, tuple indexing.
    from vlib.gen import effects

    def body_e(b):
        st, bucket, detail = evaluate(b["src"])
        verdicts = [("ok", None, None)] * len(b["parts"]) if st == "ok" else [evaluate(p_["src"]) for p_ in b["parts"]]
        for p_, (st1, b1, d1) in zip(b["parts"], verdicts):
            for e in p_["excluded"]:
                ctx.exclude("expression programs: C05 known class " + e)
            record(p_["src"], ["E"] + [l for l in p_["labels"] if l.startswith("stmt:")], p_["nontrivial"], st1,
                   ("expr." + b1) if st1 == "mismatch" else b1, d1)

    if ctx.params.get("n_expr"):
        harness.hyp_search(ctx, effects.program_batches(k=5, allow_known=False, classical=True), body_e,
                           max_examples=ctx.params["n_expr"], chunk=5, time_frac=0.65, extra_seed=5)

    # ---- stage 3: `for` over range at the edges of the 64-bit domain (few iterations, many loops per program)
    from hypothesis import strategies as st_

    LO, HI = -2**63, 2**63 - 1
    edge = st_.sampled_from([LO, LO + 1, LO + 2, LO + 7, HI, HI - 1, HI - 2, HI - 9, 0, 1, -1, 2**62, -2**62, 2**63 - 2**61])
    val = st_.one_of(edge, st_.integers(-50, 50), st_.integers(LO, HI))

    def lit(v):
        return "(-9223372036854775807 - 1)" if v == LO else (str(v) if v >= 0 else f"({v})")

    @st_.composite
    def range_prog(draw):
        lines, loops = [], []
        for k in range(12):
            a, b = draw(val), draw(val)
            n = draw(st_.integers(1, 4))
            form = draw(st_.integers(0, 5))
            s = (b - a) // n or draw(st_.sampled_from([1, -1, 3, -5]))
            if form == 0:
                s = -s  # empty direction
            elif form == 1:
                s = draw(st_.sampled_from([1, -1, 2, -2, 5, -5]))
                b = max(LO, min(HI, a + s * n + draw(st_.integers(-1, 1))))
            s = max(LO, min(HI, s)) or 1
            if len(range(a, b, s)) > 6:
                b = a
            loops.append([a, b, s])
            lines += [f"    for i{k} in range({lit(a)}, {lit(b)}, {lit(s)}):", f'        result("r{k}", i{k})',
                      f'    result("e{k}", {k})']
        return {"src": "\n@guppy\ndef main() -> None:\n" + "\n".join(lines) + "\n", "loops": loops}

    def body_r(p):
        st1, b1, d1 = evaluate(p["src"])
        edgy = sum(1 for a, b, s in p["loops"] if len(range(a, b, s)) >= 1 and
                   (min(a, b) < LO + 2**32 or max(a, b) > HI - 2**32 or abs(s) > 2**32))
        record(p["src"], ["R", f"R:edgy_loops:{min(edgy, 6)}"], edgy >= 2, st1, ("range." + b1) if st1 == "mismatch" else b1, d1)

    # ---- stage 4: branch / loop conditions comparing values of different numeric kinds at equal and
    # adjacent values (run-time operands: function parameters), e.g. `while budget >= spent + cost`
    OPS = ["<", "<=", "==", "!=", ">", ">="]

    PAIRS = [("int", "float"), ("float", "int"), ("nat", "float"), ("float", "nat"), ("nat", "int"), ("int", "nat"),
             ("int", "int"), ("float", "float")]
    COMBOS = [(lt, rt, op) for lt, rt in PAIRS for op in OPS]  # 48, enumerated: 12 per program, 4 programs

    def lit_(x, t):
        if t == "float":
            return f"{float(x)!r}" if x >= 0 else f"({float(x)!r})"
        if t == "nat":
            return f"nat({x})"
        return str(x) if x >= 0 else f"({x})"

    def cond_prog(chunk, form, base):
        defs, calls = [], []
        for k, (lt, rt, op) in enumerate(COMBOS[chunk * 12:(chunk + 1) * 12]):
            body = {0: [f"    if a {op} b:", f'        result("t{k}", 1)', "    else:", f'        result("f{k}", 0)'],
                    1: ["    n = 0", f"    while a {op} b and n < 3:", "        n += 1", f'    result("w{k}", n)'],
                    2: [f'    result("e{k}", 1 if a {op} b else 2)']}[form]
            defs.append(f"@guppy\ndef c{k}(a: {lt}, b: {rt}) -> None:\n" + "\n".join(body) + "\n")
            v = (base + k) % 5 + 1
            for d in (0, 1, -1):
                calls.append(f"    c{k}({lit_(v, lt)}, {lit_(v + d, rt)})")
            if "nat" not in (lt, rt):
                calls.append(f"    c{k}({lit_(-v, lt)}, {lit_(-v, rt)})")
        return {"src": "\n" + "\n".join(defs) + "\n@guppy\ndef main() -> None:\n" + "\n".join(calls) + "\n"}

    def body_c(p):
        st1, b1, d1 = evaluate(p["src"])
        record(p["src"], ["K"], True, st1, ("cond." + b1) if st1 == "mismatch" else b1, d1)

    # enumerated: shard i runs chunk i % 4 in form (i // 4) % 3 (if / while / conditional expression); with 16 shards every
    # (kinds, operator) pair is run in every form
    for j in range(ctx.params.get("n_cond", 0)):
        if ctx.out_of_time(0.7):
            break
        i = ctx.shard + j * ctx.nshards
        body_c(cond_prog(i % 4, (i // 4) % 3, ctx.seed * 7 + i))

    if ctx.params.get("n_range"):
        harness.hyp_search(ctx, range_prog(), body_r, max_examples=ctx.params["n_range"], chunk=5, time_frac=0.72, extra_seed=9)
    n = total[0]
    if n >= 20 and outside[0] > 0.15 * n:
        ctx.harness_error(f"generator unsound: {outside[0]}/{n} generated programs were not accepted")
    # minimise each mismatch bucket (bounded) and record
    seen = set()
    for bucket, src, detail in mism:
        if bucket in seen:
            continue
        seen.add(bucket)
        if not ctx.out_of_time(0.75):
            def fails(p, _b=bucket):
                st, b, d = evaluate(p["src"])
                return (p["src"], d) if st == "mismatch" and b == _b else None

            r = None
            if not bucket.startswith(("expr.", "range.", "cond.")):
                r = harness.hyp_shrink(ctx, single, fails, budget_s=min(60, ctx.budget_s * 0.25), max_examples=150)
            if r:
                src, detail = r[1]
        fb = f"{bucket}:{feature_bucket(src)}"
        ctx.violation(fb, {"src": src, "bucket": fb}, detail + "\n" + src)


SPEC = harness.Spec(
    PROP, worker, replay,
    rule=("GenProg builds well-typed terminating classical programs (1-3 functions + main; if/elif/else, while with fuel, "
          "while True, for over range/arrays/copy(), break/continue/early return, unreachable code, tuples, structs, arrays, "
          "unpacking incl. starred, walrus, conditional expressions, chained comparisons, recursion, nested defs); each function is "
          "called on 2-4 boundary-biased argument tuples. non-trivial = accepted program with >=1 loop or >=2 ifs and a control "
          "statement entered with >=2 live variables of the same type; distinct = distinct source text. Stage 2: GenEffects "
          "expression programs restricted to the classical fragment (walrus, conditional expressions, and/or, chained comparisons, "
          "calls, struct fields, tuple indexing inside assignments, conditions, arguments, augmented / subscript assignments; 5 per "
          "build). Stage 3: programs of 12 `for` loops over range(a, b, s) with a, b, s at the edges of the 64-bit domain and <= 6 "
          "iterations each (non-trivial = >= 2 non-empty loops touching the edge region). Stage 4: 10 functions per program whose "
          "if / while / conditional-expression condition compares two run-time operands of different numeric kinds (int, nat, float) "
          "with each of the six operators, called at equal and adjacent values"),
    assumptions=["CPython 3.12 is the reference semantics; ints reduced mod 2^64 into the signed range after every arithmetic op",
                 "selene 0.4.3 executes the lowered copy of the package (compat bridge, DESIGN.md 1.2)",
                 "programs the checker rejects or that crash the compiler are outside this property (C01/C02/C08 judge them); their rate is bounded (<15%) else exit 2"],
    shards={"quick": 16, "thorough": 16},
    budget_s={"quick": 130, "thorough": 1400},
    params={"quick": {"n": 10, "batch": 4, "n_expr": 4, "n_range": 3, "n_cond": 1},
            "thorough": {"n": 400, "batch": 4, "n_expr": 150, "n_range": 60}},
    min_nontrivial=30,
)

if __name__ == "__main__":
    harness.main(SPEC)
