"""C06 Linearity: qubits are used exactly once on every path.

Domain: GenLin (vlib/gen/lin.py) - core-fragment programs (moves, owned/borrowed calls, tuples,
two struct shapes, field move / re-assignment, if/while/break/continue/return on opaque bool
parameters) built valid by construction and then perturbed with 0-3 edits.
Oracle: linmodel (vlib/linmodel.py), an independent abstract interpreter over the IR written from
the property statement ({undefined, live, moved} per leaf place, all branch outcomes, loops to
fixpoint).  Three claims per program:
  soundness     model BAD  => Guppy rejects                       bucket unsound.<kind>.<ctx>
  completeness  model OK   => Guppy accepts                       bucket incomplete.<Error>.<place>
  wires         accepted   => `hugr validate` passes              bucket invalid_hugr.<what>
A rejection with an error class that is neither a linearity nor a definedness error means the
generator left the fragment -> harness error (exit 2), never a violation.

Finding of this check on the unchanged tree (class excluded from the search while its fixed
probe still fails; C06_EXCLUDE=none searches it again):
  invalid_hugr.struct_whole_use_after_field_reassign - `own_s2(s); s.q1 = qubit(); s.q2 = qubit();
  return s` is accepted (correctly) but compiled to a HUGR in which the *old* struct wire is used
  twice and the fresh qubits dangle (DFContainer keeps the packed wire of `s` cached in
  `locals` after the owning use; field assignments do not invalidate it).
"""
import copy
import os
import re
import sys

sys.path.insert(0, os.path.dirname(os.path.dirname(os.path.abspath(__file__))))
from vlib import harness  # noqa: E402

PROP = "C06"

KNOWN_CLASS = "struct_whole_use_after_field_reassign"
EXCLUDE = {KNOWN_CLASS}
if os.environ.get("C06_EXCLUDE") is not None:
    _e = os.environ["C06_EXCLUDE"].strip()
    EXCLUDE = set() if _e in ("", "none") else {x.strip() for x in _e.split(",")}

# one fixed minimal input per finding class (usable as known-finding probe)
PROBES = {
    KNOWN_CLASS: {
        "fn": {"params": [["s", "S2", "owned"]], "locals": {}, "ret": "S2",
               "body": [["expr", ["call", "own_s2", [["v", "s"]]]],
                        ["assign", ["f", "s", "q1"], ["new"]],
                        ["assign", ["f", "s", "q2"], ["new"]],
                        ["return", ["v", "s"]]]},
        "bucket": "invalid_hugr." + KNOWN_CLASS,
    },
}

# Guppy's diagnostics -> the model's error kinds (labels only; the verdicts are compared, not the kinds)
KIND_OF_ERROR = {
    "AlreadyUsedError": {"use_after_move"},
    "PlaceNotUsedError": {"leak_at_exit", "leak_at_return", "overwrite_live"},
    "NotOwnedError": {"borrowed_moved", "borrow_shadowed"},
    "BorrowShadowedError": {"borrow_shadowed"},
    "BorrowSubPlaceUsedError": {"borrowed_not_restored"},
    "VarNotDefinedError": {"use_undefined"},
    "VarMaybeNotDefinedError": {"use_undefined"},
    "UnnamedExprNotUsedError": {"leak_unnamed"},
    "DropAfterCallError": {"leak_unnamed"},
}
DEFINEDNESS = {"VarNotDefinedError", "VarMaybeNotDefinedError"}

_helpers = {}


def helper_globals():
    """The shared helper module (structs + declared callees), loaded once per process."""
    if not _helpers:
        from vlib import runner
        from vlib.gen import lin

        lm = runner.load_module(runner.PRELUDE + lin.HEADER, name=f"c06_helpers_{os.getpid()}")
        for k in lin.HELPER_NAMES:
            _helpers[k] = getattr(lm.mod, k)
    return _helpers


def run_guppy(fn, standalone):
    """-> (outcome, validate_outcome|None, source).  standalone: helpers inside the module."""
    from vlib import runner
    from vlib.gen import lin

    if standalone:
        src = runner.PRELUDE + lin.full_source(fn)
        lm = runner.load_module(src)
    else:
        src = runner.PRELUDE + lin.render(fn)
        lm = runner.load_module(src, extra_globals=helper_globals())
    try:
        out, pkg = runner.compile_def(lm.mod.f, entry=False)
        val = runner.validate_pkg(pkg) if out.kind == "ok" else None
    finally:
        lm.dispose()
    return out, val, src


def error_class(out):
    err = getattr(out.exc, "error", None)
    return type(err).__name__, type(err).__module__


def is_linearity_rejection(out):
    name, mod = error_class(out)
    return mod.endswith("checker.errors.linearity") or name in DEFINEDNESS


def place_kind(out):
    """kind of the place a linearity diagnostic talks about (bucket component)"""
    err = getattr(out.exc, "error", None)
    for attr in ("place", "sub_place", "var"):
        p = getattr(err, attr, None)
        if p is None:
            continue
        if isinstance(p, str):
            return "var"
        return {"Variable": "var", "FieldAccess": "field", "TupleAccess": "tuple_elem"}.get(type(p).__name__, "other")
    return "none"


def invalid_signature(msg):
    m = re.search(r"1: (.*)", msg)
    line = (m.group(1) if m else msg.strip().splitlines()[0] if msg.strip() else "?")
    if "more than one connection" in line:
        return "multi_connection"
    if "no connection" in line or "not connected" in line or "unconnected" in line.lower():
        return "unconnected"
    line = re.sub(r"\d+", "N", line)
    return re.sub(r"[^A-Za-z]+", "_", line)[:50].strip("_")


def judge(fn, standalone=False):
    """-> dict(status, bucket, detail, verdict, out, val, src).
    status: agree | violation | harness | crash"""
    from vlib import linmodel, runner
    from vlib.gen import lin

    try:
        verdict = linmodel.analyse(fn)
    except linmodel.OutsideFragment as e:
        return {"status": "harness", "detail": f"IR outside the model's fragment: {e}\n{lin.render(fn)}",
                "verdict": None, "out": None, "val": None, "bucket": None}
    out, val, src = run_guppy(fn, standalone)
    r = {"status": "agree", "bucket": None, "detail": "", "verdict": verdict, "out": out, "val": val, "src": src}
    body = lin.render(fn)
    if out.kind == "crash":
        r.update(status="violation", bucket="crash." + runner.crash_bucket(out.exc),
                 detail=f"compiler crashed on a core-fragment program (model: {verdict.brief()})\n{body}\n{out.message[-1200:]}")
        return r
    if out.kind == "rejected":
        if not is_linearity_rejection(out):
            r.update(status="harness", detail=f"generated program rejected with a non-linearity error "
                     f"{error_class(out)[0]} ({out.title}); model: {verdict.brief()}\n{body}\n{out.message[-800:]}")
            return r
        if verdict.ok:
            r.update(status="violation", bucket=f"incomplete.{error_class(out)[0]}.{place_kind(out)}",
                     detail=f"model: every path uses every qubit exactly once, but Guppy rejects "
                            f"({error_class(out)[0]}: {out.title})\n{body}\n{out.message[-900:]}")
        return r
    # accepted
    if not verdict.ok:
        r.update(status="violation", bucket="unsound." + verdict.primary,
                 detail=f"Guppy accepts, but the path condition fails: {verdict.brief()} "
                        f"(hugr validate: {val.kind if val else '-'})\n{body}")
        return r
    if val is not None and val.kind != "ok":
        cls = KNOWN_CLASS if lin.stale_struct_wire(fn) else invalid_signature(val.message)
        r.update(status="violation", bucket="invalid_hugr." + cls,
                 detail=f"accepted program (model OK) does not validate:\n{body}\n{val.message.split('Stack backtrace')[0][:600]}")
    return r


def replay(case):
    fn = case["fn"]
    r = judge(fn, standalone=True)
    if r["status"] == "violation":
        return (r["bucket"], r["detail"])
    if r["status"] == "harness":
        raise harness.HarnessError(r["detail"])
    return None


# ------------------------------------------------------------------------------- minimiser
def _shrink_candidates(fn):
    """smaller variants of fn (one structural deletion / unwrapping each)"""
    from vlib.gen import lin

    blocks = lin.all_blocks(fn)
    for bi, (b, _, _) in enumerate(blocks):
        for i in range(len(b)):
            variants = [("del", None)]
            if b[i][0] == "if":
                variants += [("inl", 2), ("inl", 3), ("noelse", None)]
            elif b[i][0] == "while":
                variants += [("inl", 2)]
            for how, arg in variants:
                c = copy.deepcopy(fn)
                cb = lin.all_blocks(c)[bi][0]
                if how == "del":
                    del cb[i]
                elif how == "inl":
                    cb[i:i + 1] = cb[i][arg]
                else:
                    if not cb[i][3]:
                        continue
                    cb[i][3] = []
                lin.truncate_dead(c["body"])
                if lin.jumps_ok(c):
                    yield c
    # drop unused roots / conditions
    text = "\n".join(lin.render(fn).splitlines()[2:])
    for k, (name, ty, _) in enumerate(fn["params"]):
        if not re.search(rf"\b{name}\b", text):
            c = copy.deepcopy(fn)
            del c["params"][k]
            yield c
    for name in list(fn["locals"]):
        if not re.search(rf"\b{name}\b", text):
            c = copy.deepcopy(fn)
            del c["locals"][name]
            yield c


def minimise(fn, bucket, deadline, ctx):
    """greedy structural reduction keeping the same bucket"""
    cur = fn
    progress = True
    while progress and not ctx.out_of_time(deadline):
        progress = False
        for c in _shrink_candidates(cur):
            if ctx.out_of_time(deadline):
                break
            try:
                r = judge(c)
            except Exception:  # noqa: BLE001
                continue
            if r["status"] == "violation" and r["bucket"] == bucket:
                cur = c
                progress = True
                break
    return cur


# ------------------------------------------------------------------------------- worker
def worker(ctx):
    from vlib import linmodel  # noqa: F401
    from vlib.gen import lin

    helper_globals()
    ctx.notes["EXCLUDE"] = sorted(EXCLUDE)
    active = set()
    for cls in sorted(PROBES):
        r = replay(PROBES[cls])
        fails = r is not None
        if cls in EXCLUDE and fails:
            active.add(cls)
        if fails and ctx.shard == 0:
            ctx.violation(r[0], PROBES[cls], r[1])
        ctx.notes["probe:" + cls] = ("fails -> class " + ("excluded from the search" if cls in EXCLUDE else "searched")
                                     if fails else "passes -> class searched")

    found = {}  # bucket -> (fn, detail)
    counts = {"n": 0, "accepted": 0, "harness": 0}

    def body(case):
        fn, edits = case["fn"], case["edits"]
        if KNOWN_CLASS in active and lin.stale_struct_wire(fn):
            ctx.exclude(KNOWN_CLASS)
            return
        feats = lin.features(fn)
        r = judge(fn)
        counts["n"] += 1
        src = lin.render(fn)
        if r["status"] == "harness":
            counts["harness"] += 1
            ctx.harness_error(r["detail"])
            ctx.case(src, False, labels=["status:harness"])
            return
        v, out, val = r["verdict"], r["out"], r["val"]
        nontrivial = bool(edits) or "asym_branch" in feats or "asym_loop" in feats
        labels = ["model:" + ("ok" if v.ok else "bad"), "guppy:" + ("accept" if out.kind == "ok" else out.kind),
                  f"edits:{len(edits)}"]
        labels += ["edit:" + e.split(":")[0] for e in sorted(set(edits))]
        labels += ["feat:" + f for f in sorted(feats)]
        if not v.ok:
            labels += ["verdict:" + k for k in v.kinds]
            labels.append("verdict_ctx:" + v.primary.rsplit(".", 1)[1])
        if out.kind == "ok":
            counts["accepted"] += 1
            if val is not None and val.kind == "ok":
                labels.append("validated")
        if out.kind == "rejected":
            name = error_class(out)[0]
            labels.append("rej:" + name)
            if not v.ok:
                base_kinds = {k.split(".")[0] for k in v.kinds}
                agree = bool(KIND_OF_ERROR.get(name, set()) & base_kinds)
                labels.append("kind_agree" if agree else "kind_differs")
                if not agree:
                    ctx.sample("kind_differs", {"src": src, "model": v.brief(), "guppy": name})
        ctx.case(src, nontrivial, labels=labels,
                 sample={"src": src, "edits": edits, "model": v.brief(), "guppy": out.kind + (":" + out.title if out.title else "")})
        if r["status"] == "violation":
            b = r["bucket"]
            if b not in found or len(src) < len(lin.render(found[b][0])):
                found[b] = (copy.deepcopy(fn), r["detail"])
            ctx.label("violation:" + b)

    harness.hyp_search(ctx, lin.edited_functions(), body, max_examples=ctx.params["n"], chunk=200, time_frac=0.75)

    n = counts["n"]
    ctx.notes[f"shard{ctx.shard}.acceptance"] = f"{counts['accepted']}/{n}"
    # confirm each bucket on a minimised, self-contained (standalone module) program
    for b, (fn, detail) in sorted(found.items()):
        small = minimise(fn, b, 0.93, ctx)
        r = judge(small, standalone=True)
        if r["status"] == "violation" and r["bucket"] == b:
            ctx.violation(b, {"fn": small, "bucket": b, "src": r["src"]}, r["detail"])
        else:
            r0 = judge(fn, standalone=True)
            if r0["status"] == "violation":
                ctx.violation(r0["bucket"], {"fn": fn, "bucket": r0["bucket"], "src": r0["src"]}, r0["detail"])
            else:
                ctx.harness_error(f"bucket {b} seen with shared helpers does not reproduce standalone:\n{detail}")


SPEC = harness.Spec(
    PROP, worker, replay,
    rule=("GenLin builds a function over <=4 qubit variables, one struct (two qubit fields, or qubit + int) and one qubit pair, "
          "each a local / owned parameter / borrowed parameter, with <=25 statements and nesting <=3: valid by construction "
          "(forward generator tracking live leaf places; joins, loop back edges, break/continue/return and exits are reconciled by "
          "emitted consumptions / re-allocations), then 0-3 IR edits (delete, duplicate, move into/out of a branch or loop, swap, wrap "
          "in if/while, unwrap, consume or re-bind a borrowed parameter, re-assign a place, duplicate a call/tuple operand, insert a "
          "jump); dead code after jumps is truncated. non-trivial = edited program, or a program with an if whose branches treat the "
          "qubit places differently or a loop whose body moves/assigns one; distinct = distinct source text"),
    assumptions=[
        "conditions are opaque bool parameters (also under not/and/or): every branch outcome is possible, so 'every control-flow path' = every path of the statement tree; literal True/False conditions are not generated (Guppy prunes such edges)",
        "statements after return/break/continue (dead code) are removed by the generator: the statement speaks about paths, and Guppy does not check unreachable code (probed)",
        "where the statement is silent the model follows the tested behaviour of the unchanged tree: a field of a borrowed struct may be moved out if it is re-assigned before every exit; a borrowed parameter may not be moved, returned or re-bound as a whole (not even after all its fields were moved); borrowing the same place twice in one call counts as a duplicate use; reading a copyable field (s.n) needs a defined, not an unmoved, struct; assigning a field needs a definitely defined struct variable",
        "tuple elements t[0]/t[1] are places that can be moved but not assigned (Guppy: unsupported); int fields are never assigned (unsupported)",
        "a rejection is any GuppyError whose class lives in checker/errors/linearity.py or is VarNotDefinedError/VarMaybeNotDefinedError; the kind of error is only compared as a label (several violations can coexist and Guppy reports one)",
        "callees are @guppy.declare'd signatures; programs are compiled with compile_function and validated with the hugr validator, not executed",
    ],
    shards={"quick": 16, "thorough": 16},
    budget_s={"quick": 100, "thorough": 1200},
    params={"quick": {"n": 320}, "thorough": {"n": 5000}},
    min_nontrivial=600,
)

if __name__ == "__main__":
    harness.main(SPEC)
