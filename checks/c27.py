"""C27 Stack and PriorityQueue follow their reference models.

Domain: operation scripts over `Stack[T, n]` / `PriorityQueue[T, n]` (T = int or tuple[int, bool],
n = 1..6, and 8/10/12 for about a fifth of the scripts): push / pop / peek / len in any order that respects capacity and emptiness, followed by
a final phase (drain by pops + discard_empty, drain by `for`-iteration, or leave the rest to be
dropped).  Every script is rendered as a straight-line `@guppy` function in the owned/moved style
of the repo's tests (`c = c.push(x)`, `x, c = c.pop()`) that reports every observation through
`result`; 24 scripts share one program.  Boundary scripts end with one operation that violates
capacity / emptiness, followed by a sentinel `result`; they are built one per program.

Oracle (written from the property statement, not from the heap code):
 * Stack        = Python list, exact expected stream.
 * PriorityQueue = validity predicate over the observed stream: the popped / peeked priority is
   the minimum of the model multiset, the (priority, value) entry is in the multiset (ties may
   resolve either way: the model follows the observed choice), len is the multiset size, and the
   final drain returns exactly the remaining multiset.
 * boundary op: Outcome.kind == "panic", the stream is exactly the observations before it (a `len`
   right before it pins the place, the sentinel after it never appears) and the message names the
   collection operation (its own guard fired, not an incidental array/Option failure).
"""
import collections
import os
import sys

sys.path.insert(0, os.path.dirname(os.path.dirname(os.path.abspath(__file__))))
from vlib import harness  # noqa: E402

PROP = "C27"
BATCH = 24  # scripts per compiled program (the selene build dominates and is almost size-independent)
TYPES = {"int": "int", "tup": "tuple[int, bool]"}
CLS = {"stack": "Stack", "pq": "PriorityQueue"}
EMPTY = {"stack": "empty_stack", "pq": "empty_priority_queue"}
N_QUBITS = 1  # selene refuses to start with 0 qubits

HEADER = None  # filled lazily (needs vlib.runner, i.e. compat installed)


def header():
    global HEADER
    if HEADER is None:
        from vlib import runner

        HEADER = runner.PRELUDE + (
            "from guppylang.std.collections import Stack, empty_stack, PriorityQueue, "
            "empty_priority_queue\n")
    return HEADER


# ------------------------------------------------------------------------------- scripts
# script = {"coll": "stack"|"pq", "ty": "int"|"tup", "cap": n,
#           "ops": [["push", value, prio] | ["pop"] | ["peek"] | ["len"], ...],
#           "final": "drain" | "iter" | "leave" | "bad",
#           "bad": ["push", value, prio] | ["pop"] | ["peek"]        (only if final == "bad")}
# value = int  or  [int, 0|1] for ty == "tup";  prio is ignored for stacks.
def sizes(script):
    """size before each op; raises ValueError if the valid part is not valid"""
    n = 0
    out = []
    for op in script["ops"]:
        out.append(n)
        if op[0] == "push":
            if n >= script["cap"]:
                raise ValueError("push beyond capacity inside the valid part")
            n += 1
        elif op[0] == "pop":
            if n <= 0:
                raise ValueError("pop on empty inside the valid part")
            n -= 1
        elif op[0] == "peek":
            if n <= 0:
                raise ValueError("peek on empty inside the valid part")
    out.append(n)
    return out


def lit(ty, v):
    if ty == "tup":
        return f"({v[0]}, {bool(v[1])})"
    return str(v)


def render_fn(k, s):
    """One script -> source of `def f<k>() -> None`."""
    coll, ty, cap = s["coll"], s["ty"], s["cap"]
    L = [f"@guppy", f"def f{k}() -> None:",
         f"    c: {CLS[coll]}[{TYPES[ty]}, {cap}] = {EMPTY[coll]}()"]

    def report(tag, indent="    "):
        if coll == "pq":
            L.append(f'{indent}result("{tag}.p", p)')
        if ty == "tup":
            L.append(f"{indent}a, b = x")
            L.append(f'{indent}result("{tag}.a", a)')
            L.append(f'{indent}result("{tag}.b", b)')
        else:
            L.append(f'{indent}result("{tag}.v", x)')

    def emit(i, op):
        if op[0] == "push":
            if coll == "pq":
                L.append(f"    c = c.push({lit(ty, op[1])}, {op[2]})")
            else:
                L.append(f"    c = c.push({lit(ty, op[1])})")
        elif op[0] in ("pop", "peek"):
            if coll == "pq":
                L.append(f"    p, x, c = c.{op[0]}()")
            else:
                L.append(f"    x, c = c.{op[0]}()")
            report(f"{k}.{i}")
        elif op[0] == "len":
            L.append(f'    result("{k}.{i}.len", len(c))')
        else:
            raise ValueError(op)

    sz = sizes(s)
    for i, op in enumerate(s["ops"]):
        emit(i, op)
    n = len(s["ops"])
    if s["final"] == "drain":
        for j in range(sz[-1]):
            emit(n + j, ["pop"])
        L.append("    c.discard_empty()")
    elif s["final"] == "iter":
        L.append("    for p, x in c:" if coll == "pq" else "    for x in c:")
        report(f"{k}.it", indent="        ")
    elif s["final"] == "bad":
        emit(n, s["bad"])
        L.append(f'    result("{k}.after", 1)')
    elif s["final"] != "leave":
        raise ValueError(s["final"])
    if s["final"] != "bad":
        L.append(f'    result("{k}.end", 1)')  # completion sentinel: locates a panic inside a batch
    return "\n".join(L) + "\n"


def render_program(scripts):
    src = header() + "\n"
    for k, s in enumerate(scripts):
        src += render_fn(k, s) + "\n"
    src += "@guppy\ndef main() -> None:\n" + "".join(f"    f{k}()\n" for k in range(len(scripts)))
    return src


# ------------------------------------------------------------------------------- oracle
class _Stop(Exception):
    def __init__(self, bucket, detail):
        self.bucket, self.detail = bucket, detail


def judge(s, obs, panicked, message=""):
    """obs: [(tag_without_script_prefix, value)] of this script, in order.  panicked: the program
    stopped with a panic inside this script.  -> None | (bucket, detail)"""
    coll, ty = s["coll"], s["ty"]
    pos = [0]

    def take(tag, opname):
        if pos[0] >= len(obs):
            if panicked:
                raise _Stop(f"{coll}.unexpected_panic[{_short(message)}]",
                            f"program panicked ({message!r}) inside the valid part of the script, at or "
                            f"before `{opname}` (observation {tag} missing; stream so far {obs})")
            raise _Stop("stream.shape", f"observation {tag} missing; got {obs}")
        t, v = obs[pos[0]]
        if t != tag:
            raise _Stop("stream.shape", f"expected tag {tag} at position {pos[0]}, got {t}; stream {obs}")
        pos[0] += 1
        return v

    def take_entry(tag, opname):
        p = take(tag + ".p", opname) if coll == "pq" else None
        if ty == "tup":
            v = (take(tag + ".a", opname), take(tag + ".b", opname))
        else:
            v = take(tag + ".v", opname)
        return p, v

    def val(op):
        return (op[1][0], int(bool(op[1][1]))) if ty == "tup" else op[1]

    stack = []
    ms = collections.Counter()  # (prio, value) -> count

    def size():
        return len(stack) if coll == "stack" else sum(ms.values())

    def do_push(op):
        if coll == "stack":
            stack.append(val(op))
        else:
            ms[(op[2], val(op))] += 1

    def do_take(tag, opname, remove):
        p, v = take_entry(tag, opname)
        if coll == "stack":
            if v != stack[-1]:
                raise _Stop(f"stack.{opname}.value",
                            f"{opname} returned {v}, LIFO model has {stack[-1]} on top (model {stack})")
            if remove:
                stack.pop()
        else:
            mn = min(q for (q, _) in ms)
            if p != mn:
                raise _Stop(f"pq.{opname}.not_min",
                            f"{opname} returned priority {p} but the minimum queued priority is {mn} "
                            f"(queue {sorted(ms.elements())})")
            if ms[(p, v)] <= 0:
                raise _Stop(f"pq.{opname}.not_in_multiset",
                            f"{opname} returned entry {(p, v)} which is not queued (queue {sorted(ms.elements())})")
            if remove:
                ms[(p, v)] -= 1
                if ms[(p, v)] == 0:
                    del ms[(p, v)]

    try:
        for i, op in enumerate(s["ops"]):
            if op[0] == "push":
                do_push(op)
            elif op[0] == "len":
                n = take(f"{i}.len", "len")
                if n != size():
                    raise _Stop(f"{coll}.len", f"len reported {n}, model holds {size()}")
            else:
                do_take(str(i), op[0], remove=op[0] == "pop")
        n = len(s["ops"])
        if s["final"] == "drain":
            for j in range(size()):
                do_take(str(n + j), "pop", True)
        elif s["final"] == "iter":
            for _ in range(size()):
                do_take("it", "iter", True)
        elif s["final"] == "bad":
            what = f"{s['bad'][0]} on a {'full' if s['bad'][0] == 'push' else 'empty'} {CLS[coll]}[_, {s['cap']}]"
            if not panicked:
                raise _Stop(f"{coll}.{s['bad'][0]}.boundary_no_panic", f"{what} did not panic; stream {obs}")
            if pos[0] == len(obs) and f"{CLS[coll]}.{s['bad'][0]}" not in str(message):
                # the collection's own guard names the operation; an incidental low-level panic
                # (array index out of bounds, Option.unwrap) means the guard was not what stopped it
                raise _Stop(f"{coll}.{s['bad'][0]}.boundary_not_own_panic[{_short(message)}]",
                            f"{what} stopped with {message!r}, not with the collection's own "
                            f"`{CLS[coll]}.{s['bad'][0]}: ...` panic")
        if s["final"] != "bad":
            take("end", "end of script")
        if pos[0] != len(obs):
            raise _Stop("stream.shape" if s["final"] != "bad" else f"{coll}.{s['bad'][0]}.boundary_continued",
                        f"extra observations {obs[pos[0]:]} after the script's last expected one")
    except _Stop as e:
        return (e.bucket, e.detail)
    return None


def _short(message):
    m = str(message).split("\n")[0]
    return m.replace("Panic (#1001): ", "")[:60]


def split_stream(stream, nscripts):
    per = [[] for _ in range(nscripts)]
    for tag, v in stream:
        k, _, rest = tag.partition(".")
        per[int(k)].append((rest, v))
    return per


def run_scripts(scripts, validate=False):
    """-> (Outcome, program source)"""
    from vlib import runner

    src = render_program(scripts)
    # hugr validation is C01's subject and not part of this oracle: skipped to keep programs cheap
    out, lm = runner.run_source(src, n_qubits=N_QUBITS, validate=validate)
    if lm is not None:
        lm.dispose()
    return out, src


def verdicts(scripts, out):
    """Judge every script of a program that ran (ok or panic). Returns list of
    None | (bucket, detail) | "unreached" (script after the panicking one)."""
    per = split_stream(out.stream, len(scripts))
    if out.kind == "ok":
        return [judge(s, per[k], False) for k, s in enumerate(scripts)]
    # panic: the culprit is the first script whose completion sentinel is missing
    res = []
    culprit = None
    for k, s in enumerate(scripts):
        if culprit is not None:
            res.append("unreached")
        elif s["final"] != "bad" and per[k] and per[k][-1][0] == "end":
            res.append(judge(s, per[k], False))
        else:
            culprit = k
            res.append(judge(s, per[k], True, out.message))
    return res


def is_nontrivial(s):
    """length >= 6, >= 1 tie (two entries of equal priority queued at the same time; for a stack:
    two equal values stored at the same time), >= 1 pop with a push before and a push after it."""
    ops = s["ops"]
    if len(ops) < 6:
        return False, False, False
    kinds = [o[0] for o in ops]
    inter = any(kinds[i] == "pop" and "push" in kinds[:i] and "push" in kinds[i + 1:] for i in range(len(ops)))
    # ties: simulate with a multiset of keys, removing on pop the best-case (unknown which entry
    # leaves a PQ among ties -> use the smallest key, any tie partner stays)
    tie = False
    live = []
    for o in ops:
        if o[0] == "push":
            key = o[2] if s["coll"] == "pq" else (tuple(o[1]) if isinstance(o[1], list) else o[1])
            if key in live:
                tie = True
            live.append(key)
        elif o[0] == "pop":
            if s["coll"] == "pq":
                live.remove(min(live))
            else:
                live.pop()
    return (inter and tie), tie, inter


def labels_of(s):
    sz = sizes(s)
    nt, tie, inter = is_nontrivial(s)
    labs = [f"coll:{s['coll']}", f"ty:{s['ty']}", f"cap:{s['cap']}", f"final:{s['final']}"]
    if tie:
        labs.append("tie")
    if inter:
        labs.append("pop-between-pushes")
    if max(sz) == s["cap"]:
        labs.append("reached-full")
    if any(sz[i] == 0 and i > 0 for i in range(len(sz))):
        labs.append("emptied-again")
    if any(o[0] == "peek" for o in s["ops"]):
        labs.append("has-peek")
    if s["final"] == "bad":
        labs.append(f"bad:{s['coll']}.{s['bad'][0]}")
    if s["cap"] > 12:
        labs.append("deep-heap")
    return nt, labs


# ------------------------------------------------------------------------------- replay
def replay(case):
    scripts = case["scripts"]
    out, src = run_scripts(scripts)
    if out.kind not in ("ok", "panic"):
        return ("harness." + out.kind, out.brief())
    for s, r in zip(scripts, verdicts(scripts, out)):
        if r and r != "unreached":
            return r
    return None


# ------------------------------------------------------------------------------- worker
def strategies(peek_ok):
    from hypothesis import strategies as st

    @st.composite
    def script(draw, bad=False, coll=None, kind=None):
        coll = coll or draw(st.sampled_from(["stack", "pq", "pq"]))
        ty = draw(st.sampled_from(["int", "int", "tup"]))
        # capacities 1..6, plus 8/10/12 for about a fifth of the scripts: index arithmetic in a binary heap
        # (parent/child positions) only matters from the third level on, i.e. beyond 6 entries
        cap = draw(st.sampled_from([1, 2, 3, 4, 4, 5, 5, 6, 6, 6, 8, 10, 12]))
        # "deep" class (about 1 script in 12, PriorityQueue only): capacity 16/24, mostly pushes, then drained -
        # a wrong parent/child index that is masked in small heaps shows up here
        deep = (not bad) and coll == "pq" and draw(st.integers(0, 7)) == 0
        if deep:
            cap = draw(st.sampled_from([16, 24]))
        hi = 16 if cap <= 6 else 28 if cap <= 12 else 44
        nops = draw(st.integers(0, 6)) if bad else draw(st.integers(cap, hi)) if deep else draw(
            st.one_of(st.integers(1, 5), st.integers(6, hi), st.integers(6, hi), st.integers(8, hi), st.integers(hi // 2, hi)))
        # values / priorities from small ranges so that ties (and duplicate entries) are common
        vals = st.integers(-1, 5)
        prios = st.integers(-2, 8) if deep else st.sampled_from([-1, 0, 0, 1, 1, 1, 2, 2, 3])
        ops = []
        n = 0

        def value():
            v = draw(vals)
            return [v, int(draw(st.booleans()))] if ty == "tup" else v

        for _ in range(nops):
            c = draw(st.integers(0, 9))
            # weights: push 5 (6 while less than half full), pop 3, peek 1, len 1 (restricted to what is valid)
            if c < 5 or (c == 9 and 2 * n < cap) or (deep and c < 8 and n < cap - 1):
                want = "push"
            elif c < 8:
                want = "pop"
            elif c < 9:
                want = "peek"
            else:
                want = "len"
            if want == "push" and n >= cap:
                want = "pop"
            if want in ("pop", "peek") and n == 0:
                want = "push"
            if want == "peek" and not peek_ok:
                want = "len"
            if want == "push":
                ops.append(["push", value(), draw(prios)])
                n += 1
            elif want == "pop":
                ops.append(["pop"])
                n -= 1
            else:
                ops.append([want])
        s = {"coll": coll, "ty": ty, "cap": cap, "ops": ops}
        if not bad:
            s["final"] = draw(st.sampled_from(["drain", "iter"] if deep else ["drain", "drain", "iter", "leave"]))
            return s
        kind = kind or draw(st.sampled_from(["push", "pop"] + (["peek"] if peek_ok else [])))
        # steer the valid part to the boundary
        if kind == "push":
            while n < cap:
                ops.append(["push", value(), draw(prios)])
                n += 1
            s["bad"] = ["push", value(), draw(prios)]
        else:
            while n > 0:
                ops.append(["pop"])
                n -= 1
            s["bad"] = [kind]
        # a `len` right before the boundary op pins the panic to exactly that op (pushes report nothing)
        ops.append(["len"])
        s["final"] = "bad"
        return s

    batch = st.lists(script(), min_size=BATCH, max_size=BATCH).map(lambda x: ("batch", x))
    # one boundary script per (collection, operation) class, so that every class is exercised even when
    # only a handful of (one-program-each) boundary cases fit into the budget
    classes = [(c, k) for c in ("stack", "pq") for k in ["push", "pop"] + (["peek"] if peek_ok else [])]
    bad_set = st.tuples(*[script(bad=True, coll=c, kind=k) for c, k in classes]).map(lambda x: ("badset", list(x)))
    return script, batch, bad_set


PEEK_PROBE = {"coll": "stack", "ty": "int", "cap": 2, "ops": [["push", 4, 0], ["peek"]], "final": "leave"}
PEEK_PROBE_PQ = {"coll": "pq", "ty": "int", "cap": 2, "ops": [["push", 4, 0], ["peek"]], "final": "leave"}


def worker(ctx):
    from hypothesis import strategies as st

    # Is `peek` executable on the installed toolchain?  (DESIGN 1.4: classical xs[i] inside a
    # function generic over the array length is a selene gap, not guppylang behaviour.)
    peek_ok = True
    for probe in (PEEK_PROBE, PEEK_PROBE_PQ):
        out, src = run_scripts([probe], validate=True)  # accepted + valid HUGR is checked even if not executable
        if out.kind == "unsupported":
            peek_ok = False
            ctx.unsupported_case(f"peek ({probe['coll']}): {out.message[:120]}")
        elif out.kind in ("ok", "panic"):
            r = judge(probe, split_stream(out.stream, 1)[0], out.kind == "panic", out.message)
            ctx.case(("probe", probe), False, labels=("peek-probe",))
            if r:
                ctx.violation(r[0], {"scripts": [probe]}, r[1])
        else:
            ctx.harness_error(f"peek probe not accepted: {out.brief()}\n{src}")
    ctx.notes["peek_executable"] = peek_ok
    if not peek_ok:
        ctx.exclude("peek ops not generated: not executable on this toolchain (compile+validate of the probe only)")

    script, batch, bad_set = strategies(peek_ok)
    seen_buckets = {}

    def record(s, r, note=""):
        """confirm alone, then record"""
        case = {"scripts": [s]}
        if r[0] not in seen_buckets:
            seen_buckets[r[0]] = s
        ctx.violation(r[0], case, r[1] + note)

    def eval_program(scripts, depth=0):
        out, src = run_scripts(scripts)
        if out.kind == "unsupported":
            for s in scripts:
                ctx.unsupported_case(out.message[:100])
            return
        if out.kind not in ("ok", "panic"):
            ctx.harness_error(f"generated program not accepted ({out.kind}): {out.brief()[:1500]}\n{src}")
            return
        vs = verdicts(scripts, out)
        redo = []
        for s, r in zip(scripts, vs):
            if r == "unreached":
                redo.append(s)
                continue
            nt, labs = labels_of(s)
            ctx.case(s, nt, labels=labs + (["nontrivial"] if nt else []),
                     sample={"script": s, "verdict": "ok" if r is None else r[0]})
            if r:
                if len(scripts) > 1:
                    # confirm in isolation so that the replay case is self-contained
                    o1, _ = run_scripts([s])
                    r1 = verdicts([s], o1)[0] if o1.kind in ("ok", "panic") else None
                    if r1:
                        record(s, r1)
                    else:
                        ctx.violation(r[0] + "@batch-only", {"scripts": scripts}, r[1])
                else:
                    record(s, r)
        if redo and depth < 3:
            # scripts after an (unexpected) panic inside a batch: evaluate them in a program of their own
            eval_program(redo, depth + 1)

    def body(case):
        kind, scripts = case
        if kind == "batch" and all(len(s["ops"]) <= 1 for s in scripts):
            ctx.exclude("degenerate batch (Hypothesis' minimal example: every script <= 1 op) not built")
            return
        if kind == "badset":
            if all(len(s["ops"]) <= 2 for s in scripts):
                ctx.exclude("degenerate boundary set (Hypothesis' minimal example) not built")
                return
            for s in scripts:  # a panicking program reports nothing after the panic: one program each
                eval_program([s])
            return
        eval_program(scripts)

    # some batches, then the boundary sets (one script per class, one program per script), then the
    # remaining batches; the time fractions are only a safety net on an overloaded machine
    nb = ctx.params["batches"]
    first = min(nb, 3)
    harness.hyp_search(ctx, batch, body, max_examples=first, chunk=first, time_frac=0.45, extra_seed="batch0")
    harness.hyp_search(ctx, bad_set, body, max_examples=ctx.params["badsets"], chunk=ctx.params["badsets"],
                       time_frac=0.7, extra_seed="bad")
    if nb > first:
        harness.hyp_search(ctx, batch, body, max_examples=nb - first, chunk=nb - first, time_frac=0.85,
                           extra_seed="batch1")

    # minimise each new bucket (capped)
    for bucket, s0 in list(seen_buckets.items())[:3]:
        strat = script(bad=True) if s0["final"] == "bad" else script()

        def fails(s, bucket=bucket):
            out, _ = run_scripts([s])
            if out.kind not in ("ok", "panic"):
                return None
            r = verdicts([s], out)[0]
            if r and r[0] == bucket:
                ctx.violation(bucket, {"scripts": [s]}, r[1])
                return r
            return None

        harness.hyp_shrink(ctx, strat, fails, budget_s=min(25.0, max(5.0, ctx.budget_s * 0.25)),
                           max_examples=30, start=s0, extra_seed=bucket)


SPEC = harness.Spec(
    PROP, worker, replay,
    rule=("Hypothesis draws operation scripts (coll in {Stack, PriorityQueue}, T in {int, tuple[int,bool]}, "
          "capacity 1..6 (8/10/12 for about a fifth; 16/24 mostly-push-then-drain 'deep' PriorityQueue scripts about 1 in 12), up to 16 (28; 44) ops push/pop/peek/len valid by construction, values -1..5 and priorities "
          "from {-1,0,0,1,1,1,2,2,3} so ties are common, final phase drain/iter/leave); 24 scripts per compiled "
          "program; boundary scripts (valid prefix, `len`, then push on full / pop or peek on empty, sentinel) are "
          "drawn as one script per (collection, operation) class and built one program each. non-trivial = script with >= 6 ops, >= 1 tie (two equal priorities - for a "
          "stack two equal values - stored at the same time) and >= 1 pop with a push before and after it; "
          "distinct = distinct script"),
    assumptions=[
        "peek is generated only if a probe program with peek builds on the installed selene (classical "
        "getitem inside a length-generic function is a toolchain gap, DESIGN 1.4); otherwise it is counted "
        "as toolchain_unsupported and only compiled+validated by the probe",
        "PriorityQueue oracle is a validity predicate (ties may resolve either way); it does not demand FIFO among ties",
        "a boundary panic is recognised by Outcome.kind == 'panic', the stream truncated exactly before the "
        "operation, and a message naming `<Class>.<op>` (the collection's own guard); an incidental low-level "
        "panic such as `Index out of bounds` reached because the guard is missing is reported",
    ],
    shards={"quick": 16, "thorough": 16}, budget_s={"quick": 90, "thorough": 800},
    params={"quick": {"batches": 6, "badsets": 2}, "thorough": {"batches": 60, "badsets": 18}},
    min_nontrivial=20,
)

if __name__ == "__main__":
    harness.main(SPEC)
