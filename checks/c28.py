"""C28 Emulator configurations are immutable and reproducible.

Domain: histories over EmulatorInstances derived from ONE compiled program (8 qubits, H on each,
measure, report the bits -> a seed-dependent stream), built once per worker.  A history is a list
of steps
    ["derive", src_id, method, arg]   new instance (id = next free number) = inst[src].method(arg)
    ["run", id]                       inst[id].run()
with method in with_seed (None|1|2|3) / with_shots (1..3) / with_shot_offset (0..2) /
with_shot_increment (1..2) / with_simulator ("Quest"|"Stim"|"Coinflip": a fresh simulator object)
/ statevector_sim / stabilizer_sim / coinflip_sim.  Instance 0 is the freshly built (unseeded)
instance.  Histories are drawn by a Hypothesis RuleBasedStateMachine and recorded, so a failing
one is replayable from JSON alone (`Session` below is the Hypothesis-free executor).

Oracle (model written from the property statement / the public API docs, not from instance.py):
 * options: after every step every existing instance must still report the option values the
   model derived for it when it was created (seed, shots, shot_offset, shot_increment, simulator
   type, the very same simulator object); the new instance differs from its parent in exactly
   the option the method names.
 * reproducibility: the first observed results of every seeded instance are remembered; every
   later run() of it must return the same results whatever was derived or run in between.  Two
   seeded instances whose options are all equal are the same configuration and must agree too.
 * unseeded instances: only the shape (shots x 8 bits) is checked.

Known input class (module switch EXCLUDE): `with_seed(v)` on an instance writes v into the
simulator *object* it shares with its relatives.  The model tracks which instances share a
simulator object (by derivation: everything except with_simulator/*_sim inherits the parent's)
and the last seed written into each such object; a run of a seeded instance whose shared
simulator currently holds another seed is judged only under bucket `shared_simulator.with_seed`
(reported when the results really differ from the reference) and is never used as a reference, so
the search continues behind it.
"""
import os
import sys

sys.path.insert(0, os.path.dirname(os.path.dirname(os.path.abspath(__file__))))
from vlib import harness  # noqa: E402

PROP = "C28"
NQ = 8
EXCLUDE = set()  # {"shared_simulator.with_seed"} was excluded until the defect was fixed in /repo (b5a0a50)
UNSET = "unset"

SEEDS = [None, 0, 0, 1, 1, 2, 2, 3, 2**32, 2**63 - 1]
SIMS = ["Quest", "Stim", "Coinflip"]
SIM_OF_METHOD = {"statevector_sim": "Quest", "stabilizer_sim": "Stim", "coinflip_sim": "Coinflip"}
PLUGIN_NAME = {"Quest": "QuestPlugin", "Stim": "StimPlugin", "Coinflip": "CoinflipPlugin"}
FIELD_OF_METHOD = {"with_seed": "seed", "with_shots": "shots", "with_shot_offset": "shot_offset",
                   "with_shot_increment": "shot_increment"}

SRC_BODY = """
from guppylang.std.quantum import h

@guppy
def main() -> None:
    q0 = qubit(); q1 = qubit(); q2 = qubit(); q3 = qubit()
    q4 = qubit(); q5 = qubit(); q6 = qubit(); q7 = qubit()
    h(q0); h(q1); h(q2); h(q3); h(q4); h(q5); h(q6); h(q7)
    result("b0", measure(q0)); result("b1", measure(q1)); result("b2", measure(q2)); result("b3", measure(q3))
    result("b4", measure(q4)); result("b5", measure(q5)); result("b6", measure(q6)); result("b7", measure(q7))
"""

_ROOT = None


def fresh_root():
    """A pristine default-option EmulatorInstance around the (once per process) built program.
    A new wrapper per history is required: `with_seed` on a descendant writes into the simulator
    object of the instance it was derived from, so a root reused across histories would carry
    state from one history into the next and recorded histories would not be replayable."""
    from guppylang.emulator.instance import EmulatorInstance

    built = root_instance()
    return EmulatorInstance(_instance=built._instance, _n_qubits=NQ)


def root_instance():
    """Compile + build the program once per process."""
    global _ROOT
    if _ROOT is None:
        import tempfile
        from pathlib import Path

        from guppylang.emulator import EmulatorBuilder
        from vlib import runner

        lm = runner.load_module(runner.PRELUDE + SRC_BODY)
        out, pkg = runner.compile_def(lm.mod.main)
        if out.kind != "ok":
            raise harness.HarnessError("C28 program not accepted: " + out.brief())
        d = tempfile.mkdtemp(prefix="c28_", dir=runner.build_dir())
        with runner.quiet():
            _ROOT = EmulatorBuilder().with_build_dir(Path(d)).build(pkg, n_qubits=NQ)
    return _ROOT


def make_sim(name):
    from selene_sim.backends.bundled_simulators import Coinflip, Quest, Stim

    return {"Quest": Quest, "Stim": Stim, "Coinflip": Coinflip}[name]()


def bits(res):
    return ["".join(str(int(v)) for _, v in shot.entries) for shot in res.results]


class Session:
    """Executes a history step by step against real instances and the model.  `findings` collects
    (bucket, detail, step_index); `events` collects labels for the evidence."""

    def __init__(self):
        from vlib import runner

        self.runner = runner
        root = fresh_root()
        self.inst = [root]
        self.cfg = [{"seed": None, "shots": 1, "shot_offset": 0, "shot_increment": 1, "sim": "Quest"}]
        self.simobj = [root.simulator]
        self.group = [0]
        self.parent = [None]
        self.group_seed = {0: UNSET}  # last value with_seed wrote into the shared simulator object
        self.ref = {}      # id -> first untainted results
        self.cfgref = {}   # config tuple -> (id, results)
        self.reseeded = {}  # id -> True once a sibling/child got another seed after the ref was taken
        self.last_run_step = {}
        self.history = []
        self.pool = {}
        self.pool_used = set()
        self.findings = []
        self.events = set()
        self.counts = {"tainted_runs": 0, "tainted_confirmed": 0, "tainted_first_runs": 0, "reruns": 0,
                       "reruns_after_other_seed": 0}
        # a root whose simulator already carries a seed would make the model wrong
        if root.seed is not None or root.simulator.random_seed is not None:
            raise harness.HarnessError("root instance is not pristine")

    # ------------------------------------------------------------------ helpers
    def observed(self, i):
        x = self.inst[i]
        return {"seed": x.seed, "shots": x.shots, "shot_offset": x.shot_offset,
                "shot_increment": x.shot_increment, "sim": type(x.simulator).__name__}

    def expected(self, i):
        c = dict(self.cfg[i])
        c["sim"] = PLUGIN_NAME[c["sim"]]
        return c

    def tainted(self, i):
        gs = self.group_seed[self.group[i]]
        return gs is not UNSET and gs is not None and self.cfg[i]["seed"] is not None and gs != self.cfg[i]["seed"]

    def find(self, bucket, detail):
        self.findings.append((bucket, detail, len(self.history) - 1))

    def check_options(self, new_id=None, method=None):
        for i in range(len(self.inst)):
            try:
                got, exp = self.observed(i), self.expected(i)
            except Exception as e:  # noqa: BLE001
                self.find("option_read.raises", f"reading options of #{i} raised {e!r}")
                continue
            for f in exp:
                if got[f] != exp[f]:
                    if i == new_id:
                        self.find(f"derive_wrong.{method}.{f}",
                                  f"#{i} = #{self.parent[i]}.{method}(...) reports {f}={got[f]!r}, expected {exp[f]!r}")
                    else:
                        self.find(f"option_changed.{f}",
                                  f"{f} of earlier instance #{i} changed from {exp[f]!r} to {got[f]!r} "
                                  f"after step {self.history[-1]}")
            if self.inst[i].simulator is not self.simobj[i]:
                self.find("option_changed.simulator_object",
                          f"instance #{i} now holds a different simulator object after step {self.history[-1]}")

    # ------------------------------------------------------------------ steps
    def derive(self, src, method, arg=None):
        step = ["derive", src, method, arg]
        self.history.append(step)
        new_id = len(self.inst)
        parent = self.inst[src]
        cfg = dict(self.cfg[src])
        try:
            if method == "with_simulator":
                # "Quest" = a fresh object; "Quest@k" = the user's own (unseeded) object k, handed to
                # several configurations
                kind = arg.split("@")[0]
                obj = self.pool.setdefault(arg, make_sim(kind)) if "@" in arg else make_sim(kind)
                if "@" in arg:
                    self.events.add("with_simulator:user_object_reused" if arg in self.pool_used else "with_simulator:user_object")
                    self.pool_used.add(arg)
                new = parent.with_simulator(obj)
                cfg["sim"] = kind
            elif method in SIM_OF_METHOD:
                new = getattr(parent, method)()
                cfg["sim"] = SIM_OF_METHOD[method]
            else:
                new = getattr(parent, method)(arg)
                cfg[FIELD_OF_METHOD[method]] = arg
        except Exception as e:  # noqa: BLE001
            self.find(f"derive.raises.{method}", f"#{src}.{method}({arg!r}) raised {e!r}")
            # keep ids dense: alias the parent so that later steps still have a target
            new, cfg = parent, dict(self.cfg[src])
        self.inst.append(new)
        self.cfg.append(cfg)
        self.simobj.append(new.simulator)
        self.parent.append(src)
        if method == "with_simulator" or method in SIM_OF_METHOD:
            g = max(self.group_seed) + 1
            self.group.append(g)
            self.group_seed[g] = UNSET
            if new.simulator is parent.simulator and "@" not in str(arg):
                self.find(f"derive_wrong.{method}.simulator_object", "simulator object not replaced")
        else:
            g = self.group[src]
            self.group.append(g)
            if method == "with_seed":
                self.group_seed[g] = arg
                # who has a reference and now lives next to a relative with another seed?
                for j, r in list(self.ref.items()):
                    related = (j == src) or (self.parent[j] == self.parent[new_id]) or (self.parent[new_id] == j)
                    if related and arg != self.cfg[j]["seed"]:
                        self.reseeded[j] = True
        self.events.add(method)
        self.check_options(new_id, method)
        return new_id

    def run(self, i):
        self.history.append(["run", i])
        x = self.inst[i]
        cfg = self.cfg[i]
        try:
            with self.runner.quiet():
                res = bits(x.run())
        except Exception as e:  # noqa: BLE001
            self.find("run.raises", f"#{i}.run() raised {e!r}")
            return None
        self.events.add("run:" + cfg["sim"])
        if len(res) != cfg["shots"] or any(len(b) != NQ or set(b) - {"0", "1"} for b in res):
            self.find("run.shape", f"#{i}.run() with shots={cfg['shots']} returned {res}")
            return res
        self.check_options()
        step_no = len(self.history) - 1
        prev_run = self.last_run_step.get(i)
        self.last_run_step[i] = step_no
        if cfg["seed"] is None:
            self.events.add("run:unseeded")
            return res
        key = (cfg["seed"], cfg["shots"], cfg["shot_offset"], cfg["shot_increment"], cfg["sim"])
        if i in self.ref and self.reseeded.get(i):
            self.counts["reruns_after_other_seed"] += 1
            self.events.add("rerun-after-relative-reseeded")
        if self.tainted(i) and "shared_simulator.with_seed" in EXCLUDE:
            self.counts["tainted_runs"] += 1
            self.events.add("run:tainted")
            ref = self.ref.get(i)
            if ref is None and key in self.cfgref:
                ref = self.cfgref[key][1]
            if ref is None:
                self.counts["tainted_first_runs"] += 1
            elif res != ref:
                self.counts["tainted_confirmed"] += 1
                g = self.group[i]
                sharers = [j for j in range(len(self.inst)) if self.group[j] == g and j != i]
                self.find("shared_simulator.with_seed",
                          f"#{i} (seed={cfg['seed']}, {cfg['sim']}, shots={cfg['shots']}) returned {res} but its "
                          f"reference results are {ref}; with_seed({self.group_seed[g]!r}) was applied to an instance "
                          f"sharing its simulator object (sharers {sharers}); #{i}.seed is still {x.seed!r} while "
                          f"#{i}.simulator.random_seed is now {x.simulator.random_seed!r}")
            return res
        if i in self.ref:
            self.counts["reruns"] += 1
            self.events.add("rerun")
            if self.reseeded.get(i):
                self.events.add("rerun-after-relative-reseeded:untainted")
            if res != self.ref[i]:
                between = self.history[prev_run + 1:step_no] if prev_run is not None else []
                if not between:
                    self.find("rerun_differs.consecutive",
                              f"#{i} ({cfg}) returned {res} right after returning {self.ref[i]}")
                else:
                    self.find("rerun_differs.after_derivation",
                              f"#{i} ({cfg}) returned {res}, first observed {self.ref[i]}; steps in between: {between}")
        else:
            self.ref[i] = res
        if key in self.cfgref:
            j, r = self.cfgref[key]
            if j != i and r != res:
                self.find("equal_config_differs",
                          f"#{i} and #{j} have identical options {cfg} but returned {res} vs {r}")
        else:
            self.cfgref[key] = (i, res)
        return res

    def apply(self, step):
        if step[0] == "derive":
            return self.derive(step[1], step[2], step[3])
        return self.run(step[1])


def run_history(history):
    s = Session()
    for st in history:
        # steps that refer to an instance that does not exist (after minimisation) are skipped
        if (st[0] == "derive" and st[1] >= len(s.inst)) or (st[0] == "run" and st[1] >= len(s.inst)):
            continue
        s.apply(st)
    return s


def replay(case):
    s = run_history(case["history"])
    want = case.get("bucket")
    for b, d, _ in s.findings:
        if want is None or b == want:
            return (b, d)
    if s.findings:
        return s.findings[0][:2]
    return None


# ------------------------------------------------------------------------------- minimisation
def drop_step(history, k):
    """remove step k; instances created by it (transitively) disappear, ids are renumbered"""
    ids = {0: 0}
    nxt_old = 1
    out = []
    for n, st in enumerate(history):
        if st[0] == "derive":
            old_new = nxt_old
            nxt_old += 1
            if n == k or st[1] not in ids:
                continue
            ids[old_new] = len(ids)
            out.append(["derive", ids[st[1]], st[2], st[3]])
        else:
            if n == k or st[1] not in ids:
                continue
            out.append(["run", ids[st[1]]])
    return out


def minimise(history, bucket, max_runs=400):
    def fails(h):
        s = run_history(h)
        return any(b == bucket for b, _, _ in s.findings)

    budget = [max_runs]
    cur = list(history)
    changed = True
    while changed and budget[0] > 0:
        changed = False
        for k in reversed(range(len(cur))):
            if budget[0] <= 0:
                break
            cand = drop_step(cur, k)
            budget[0] -= 1
            if len(cand) < len(cur) and fails(cand):
                cur = cand
                changed = True
                break
    # simplify arguments
    simple = {"with_shots": 1, "with_shot_offset": 0, "with_shot_increment": 1}
    for k, st in enumerate(cur):
        if st[0] == "derive" and st[2] in simple and st[3] != simple[st[2]] and budget[0] > 0:
            cand = [list(x) for x in cur]
            cand[k][3] = simple[st[2]]
            budget[0] -= 1
            if fails(cand):
                cur = cand
    return cur


# ------------------------------------------------------------------------------- worker
def worker(ctx):
    from hypothesis import strategies as st
    from hypothesis.stateful import Bundle, RuleBasedStateMachine, initialize, rule

    root_instance()
    first_by_bucket = {}
    totals = {"tainted_runs": 0, "tainted_confirmed": 0, "tainted_first_runs": 0, "reruns": 0,
              "reruns_after_other_seed": 0}

    derivation = st.one_of(
        st.tuples(st.just("with_seed"), st.sampled_from(SEEDS)),
        st.tuples(st.just("with_shots"), st.integers(1, 3)),
        st.tuples(st.just("with_shot_offset"), st.integers(0, 2)),
        st.tuples(st.just("with_shot_increment"), st.integers(1, 2)),
        st.tuples(st.just("with_simulator"), st.sampled_from(SIMS)),
        st.tuples(st.just("with_simulator"), st.sampled_from([s_ + "@" + k for s_ in SIMS for k in "01"])),
        st.tuples(st.sampled_from(sorted(SIM_OF_METHOD)), st.none()),
        st.tuples(st.sampled_from(sorted(SIM_OF_METHOD)), st.none()),
    )

    class Machine(RuleBasedStateMachine):
        instances = Bundle("instances")

        def __init__(self):
            super().__init__()
            self.s = Session()
            self.nreported = 0
            self.skip = ctx.out_of_time(0.85)  # safety net: remaining examples become empty histories

        @initialize(target=instances)
        def start(self):
            return 0

        def _report(self):
            for b, d, k in self.s.findings[self.nreported:]:
                hist = [list(x) for x in self.s.history[:k + 1]]
                first_by_bucket.setdefault(b, hist)
                if len(hist) < len(first_by_bucket[b]):
                    first_by_bucket[b] = hist
                ctx.violation(b, {"history": hist, "bucket": b}, d)
            self.nreported = len(self.s.findings)

        @rule(target=instances, src=instances, d=derivation)
        def derive(self, src, d):
            if self.skip:
                return 0
            r = self.s.derive(src, d[0], d[1])
            self._report()
            return r

        @rule(target=instances, src=instances, d=derivation)
        def derive_more(self, src, d):
            if self.skip:
                return 0
            r = self.s.derive(src, d[0], d[1])
            self._report()
            return r

        @rule(target=instances, src=instances, m=st.sampled_from(sorted(SIM_OF_METHOD) + ["with_simulator"]),
              a=st.sampled_from(SIMS))
        def switch_simulator_then_run(self, src, m, a):
            if self.skip:
                return 0
            r = self.s.derive(src, m, a if m == "with_simulator" else None)
            self.s.run(r)
            self._report()
            return r

        @rule(target=instances, a=instances, b=instances, sim=st.sampled_from([s_ + "@0" for s_ in SIMS]),
              s1=st.sampled_from(SEEDS), s2=st.sampled_from(SEEDS), order=st.booleans())
        def same_user_simulator_twice(self, a, b, sim, s1, s2, order):
            """one user-built simulator object handed to two configurations (seed set before or after)"""
            if self.skip:
                return 0
            if order:
                x = self.s.derive(self.s.derive(a, "with_seed", s1), "with_simulator", sim)
            else:
                x = self.s.derive(self.s.derive(a, "with_simulator", sim), "with_seed", s1)
            self.s.run(x)
            y = self.s.derive(self.s.derive(b, "with_seed", s2), "with_simulator", sim)
            self.s.run(y)
            self.s.run(x)
            self._report()
            return x

        @rule(src=instances)
        def run(self, src):
            if self.skip:
                return
            self.s.run(src)
            self._report()

        @rule(target=instances, src=instances, v=st.sampled_from([1, 2, 3]))
        def with_seed_then_run(self, src, v):
            if self.skip:
                return 0
            r = self.s.derive(src, "with_seed", v)
            self.s.run(r)
            self._report()
            return r

        # the interesting interleavings are rare in a uniform walk over a growing tree, so two
        # rules aim at instances that already have reference results
        # (no preconditions: rule selection must not depend on emulator results or the clock)
        @rule(k=st.integers(0, 50))
        def rerun(self, k):
            if self.skip:
                return
            ids = sorted(self.s.ref) or list(range(len(self.s.inst)))
            self.s.run(ids[k % len(ids)])
            self._report()

        @rule(target=instances, k=st.integers(0, 50), how=st.sampled_from(["child", "sibling"]),
              v=st.sampled_from([1, 2, 3, None]), then_run=st.booleans())
        def reseed_relative(self, k, how, v, then_run):
            if self.skip:
                return 0
            ids = sorted(self.s.ref) or list(range(len(self.s.inst)))
            j = ids[k % len(ids)]
            src = j if how == "child" or self.s.parent[j] is None else self.s.parent[j]
            r = self.s.derive(src, "with_seed", v)
            if then_run:
                self.s.run(j)
            self._report()
            return r

        def teardown(self):
            s = self.s
            if not s.history:
                return
            nontrivial = s.counts["reruns_after_other_seed"] > 0
            labs = sorted(s.events) + (["nontrivial"] if nontrivial else [])
            ctx.case(s.history, nontrivial, labels=labs,
                     sample={"history": s.history, "findings": [f[0] for f in s.findings]})
            for k in totals:
                totals[k] += s.counts[k]

    if ctx.shard == 0:
        # the fixed minimal history of the known class is always executed (regression input)
        s = run_history(KNOWN_MINIMAL)
        ctx.case(("fixed", KNOWN_MINIMAL), True, labels=("fixed-minimal-history",))
        for b, d, k in s.findings:
            ctx.violation(b, {"history": KNOWN_MINIMAL[:k + 1], "bucket": b}, d)
            first_by_bucket.setdefault(b, KNOWN_MINIMAL[:k + 1])

    e = harness.run_machine(ctx, Machine, max_examples=ctx.params["machines"], steps=ctx.params["steps"])
    if e is not None:
        import traceback

        ctx.harness_error("state machine raised: " + "".join(
            traceback.format_exception(type(e), e, e.__traceback__))[-2500:])

    if "shared_simulator.with_seed" in EXCLUDE:
        ctx.exclude("run of a seeded instance whose shared simulator object holds another seed: judged only "
                    "under bucket shared_simulator.with_seed", totals["tainted_runs"])
        ctx.exclude("first run of such an instance not taken as reference", totals["tainted_first_runs"])
    ctx.notes["counts"] = totals

    # minimise one history per bucket (Hypothesis-free ddmin over steps)
    for b, hist in list(first_by_bucket.items())[:4]:
        if ctx.out_of_time(0.95):
            break
        small = minimise(hist, b, max_runs=150)
        s = run_history(small)
        for bb, d, k in s.findings:
            if bb == b:
                ctx.violation(b, {"history": small[:k + 1], "bucket": b}, d)
                break


KNOWN_MINIMAL = [["derive", 0, "with_seed", 1], ["run", 1], ["derive", 1, "with_seed", 2], ["run", 1]]

SPEC = harness.Spec(
    PROP, worker, replay,
    rule=("a Hypothesis RuleBasedStateMachine derives instances from any existing one (with_seed None/1/2/3, "
          "with_shots 1..3, with_shot_offset 0..2, with_shot_increment 1..2, with_simulator(fresh Quest/Stim/"
          "Coinflip), statevector_sim, stabilizer_sim, coinflip_sim) and runs any instance of one program "
          "(8 x H|0>, measured) built once per worker; case = one recorded history. non-trivial = history in "
          "which a seeded instance that already has reference results is run again after a sibling, child or "
          "the instance's own parent line was given a different seed with with_seed; distinct = distinct history"),
    assumptions=[
        "two seeded instances with identical options (seed, shots, shot_offset, shot_increment, simulator type) "
        "are the same configuration and must return identical results",
        "the bundled simulators are deterministic for a fixed seed (held on every run observed)",
        "with_simulator is given a fresh, unseeded simulator object or one of two per-kind user objects that are handed "
        "to several configurations (never seeded by the user himself: a user-seeded simulator is outside the domain)",
        "unseeded instances: only the shape of the results is checked",
    ],
    shards={"quick": 16, "thorough": 16}, budget_s={"quick": 90, "thorough": 700},
    params={"quick": {"machines": 20, "steps": 16}, "thorough": {"machines": 300, "steps": 24}},
    min_nontrivial=15,
)

if __name__ == "__main__":
    harness.main(SPEC)
