"""C09 Dataflow analyses equal the path-based solution in any visit order.

Domain GenCFG
  (a) synthetic CFGs built directly with /repo's `CFG`/`BB` classes: <= 8 blocks, <= 4 variables,
      0-2 real `ast` statements per block (assign / tuple assign / augmented assign / annotated
      assign / subscript store / expression) + optional branch predicate, arbitrary real edges,
      dummy (never taken) edges, blocks unreachable from the entry, predecessor-less blocks and
      cycles, self-loops, irreducible shapes, before-entry sets, `inout` variables;
  (b) CFGs produced by `CFGBuilder` from generated function bodies (nested if/elif/else, while,
      for, break, continue, return, `if False`, `while True`, short-circuit conditions, conditional
      expressions, walrus, dead code after jumps).
Schedules (DESIGN 2.7): `cfg/analysis.py` builds its worklists through the global name `set`;
the check injects a `set` subclass into that module whose `pop()` returns the element chosen by
the current schedule.  <= 6 blocks: every permutation of the blocks as a priority order (<= 720)
plus drawn pop sequences; more blocks: >= 32 drawn pop sequences plus drawn priority orders.
Oracle: path definitions computed by plain graph search over the block graph (never a fixpoint
over the implementation's transfer functions), see `oracle()`.  Additionally all schedules must
give the same result.
"""
import ast
import itertools
import json
import math
import os
import sys
import time
import traceback

sys.path.insert(0, os.path.dirname(os.path.dirname(os.path.abspath(__file__))))
from vlib import harness  # noqa: E402

PROP = "C09"
VARS = "abcd"
ENTRY, EXIT = 0, 1
COMPS = ("live", "def", "maybe", "live_nd")

# Known-finding input classes this check can leave out *by construction* so that the search goes
# on behind them (AUTHORING requirement 1 / DESIGN 3).  An exclusion is only active when
# known_findings.json lists its key for C09 (or VERIF_C09_EXCLUDE=<key,...|all> forces it, used
# for sensitivity runs).  The known-finding probes are replayed without any exclusion; a recorded
# violation carries the exclusions that were active ("exclusions") and is replayed with them.
EXCLUDE = {
    # analysis.py re-queues only `bb.predecessors` / `bb.successors` after a change although the
    # join also reads dummy neighbours.  Excluded class: schedules in which a block is not
    # visited again after one of its dummy neighbours changed.  Construction: the injected
    # worklist adds the dummy neighbours of the block popped last whenever the implementation
    # re-queues (extra visits never change the result of a correct chaotic iteration).
    "C09.dummy_requeue": "schedules without a re-visit after a dummy neighbour changed",
    # the empty join returns (ass_before_entry, ass_before_entry): variables that are only
    # *maybe* assigned before the entry are dropped at roots but survive on cycles.
    # Construction: maybe_ass_before == def_ass_before.
    "C09.maybe_before_entry": "maybe_ass_before strictly larger than def_ass_before",
}


def active_exclusions():
    env = os.environ.get("VERIF_C09_EXCLUDE", "")
    act = set()
    if env:
        act |= set(EXCLUDE) if env == "all" else {k for k in env.split(",") if k in EXCLUDE}
    try:
        known, _ = harness.load_known(PROP)
        act |= {k["key"] for k in known if k.get("key") in EXCLUDE}
    except Exception:  # noqa: BLE001
        pass
    return act


# ======================================================================== schedule injection
class ScheduleOverrun(Exception):
    """worklist popped far more often than any terminating chaotic iteration can"""


STATE = {"sched": None, "pops": 0, "limit": 10**9, "trace": None, "extra_dummy": False,
         "installed": False}


def _make_sched_set():
    class SchedSet(set):
        """`set` as seen by guppylang_internals.cfg.analysis: pop() follows the schedule."""

        def pop(self):
            st = STATE
            st["pops"] += 1
            if st["pops"] > st["limit"]:
                raise ScheduleOverrun()
            sched = st["sched"]
            if sched is None:
                el = set.pop(self)
            else:
                kind, data = sched
                if kind == "perm":  # data: idx -> rank
                    el = min(self, key=lambda bb: data[bb.idx])
                else:  # "seq": k-th pop of this worklist takes candidate data[k] (mod)
                    cand = sorted(self, key=lambda bb: bb.idx)
                    k = self.__dict__.get("_k", 0)
                    self.__dict__["_k"] = k + 1
                    el = cand[data[k % len(data)] % len(cand)]
                set.remove(self, el)
            self.__dict__["_last"] = el
            if st["trace"] is not None:
                st["trace"].append(getattr(el, "idx", None))
            return el

        def update(self, *others):
            set.update(self, *others)
            if STATE["extra_dummy"]:
                last = self.__dict__.get("_last")
                if last is not None:
                    set.update(self, last.dummy_predecessors, last.dummy_successors)

    return SchedSet


def install_injection():
    """inject the schedule-controlled `set` and verify (once) that it really decides the pop order;
    otherwise STATE["unused"] is set and every case runs once in the interpreter's own order"""
    if not STATE["installed"]:
        from guppylang_internals.cfg import analysis

        cls = _make_sched_set()
        analysis.set = cls
        if hasattr(analysis, "Worklist"):
            # /repo's own ordered worklist class (introduced by the C10 determinism fix): replace it as well
            analysis.Worklist = cls
        STATE["installed"] = True
        ok, note = injection_selftest()
        STATE["unused"], STATE["note"] = not ok, note


def compile_sched(sched, n):
    """JSON schedule -> form used by SchedSet.pop"""
    if sched is None:
        return None
    kind, data = sched
    if kind == "perm":
        rank = {b: n + b for b in range(n)}  # blocks not listed: after the listed ones, by idx
        for r, b in enumerate(data):
            rank[b] = r
        return ("perm", rank)
    return ("seq", list(data) or [0])


# ======================================================================== model (plain data)
# model = {"n": int, "blocks": [{"stmts": [[kind, targets, uses], ...], "pred": uses|None}, ...],
#          "edges": [[s, t], ...], "dummy": [[s, t], ...],
#          "def_before": [...], "maybe_before": [...], "inout": [...]}   entry = 0, exit = 1
def stmt_effect(kind, targets, uses):
    """(variables read, variables written) of one model statement, from Python's semantics;
    all reads of a statement happen before its writes."""
    if kind in ("assign", "ann"):
        return set(uses), set(targets)
    if kind == "aug":  # t += uses : reads t as well
        return set(uses) | set(targets), set(targets)
    if kind == "expr":
        return set(uses), set()
    if kind == "setitem":  # t[u0] = u1.. : reads t, writes no variable
        return set(uses) | set(targets), set()
    raise ValueError(kind)


def block_sets(blk):
    """(upward-exposed uses, assigned) of a model block"""
    used, assigned = set(), set()
    for kind, targets, uses in blk["stmts"]:
        r, w = stmt_effect(kind, targets, uses)
        used |= r - assigned
        assigned |= w
    if blk.get("pred"):
        used |= set(blk["pred"]) - assigned
    return used, assigned


class G:
    """block graph + per-block variable sets, the only thing the oracle sees"""

    def __init__(self, n, succ, dsucc, used, assigned, def_before, maybe_before, inout):
        self.n, self.succ, self.dsucc = n, succ, dsucc
        self.used, self.assigned = used, assigned
        self.def_before, self.maybe_before, self.inout = set(def_before), set(maybe_before), set(inout)
        self.vars = sorted(set().union(*used, *assigned, self.def_before, self.maybe_before, self.inout))


def graph_from_model(m):
    n = m["n"]
    succ = [[] for _ in range(n)]
    dsucc = [[] for _ in range(n)]
    for s, t in m["edges"]:
        succ[s].append(t)
    for s, t in m["dummy"]:
        dsucc[s].append(t)
    sets = [block_sets(b) for b in m["blocks"]]
    return G(n, succ, dsucc, [s[0] for s in sets], [s[1] for s in sets],
             m["def_before"], m["maybe_before"], m["inout"])


def _tup(names, ctx):
    if not names:
        return ast.Constant(value=0)
    if len(names) == 1:
        return ast.Name(id=names[0], ctx=ctx())
    return ast.Tuple(elts=[ast.Name(id=x, ctx=ctx()) for x in names], ctx=ctx())


def stmt_ast(kind, targets, uses):
    if kind == "assign":
        return ast.Assign(targets=[_tup(targets, ast.Store)], value=_tup(uses, ast.Load))
    if kind == "ann":
        return ast.AnnAssign(target=ast.Name(id=targets[0], ctx=ast.Store()),
                             annotation=ast.Name(id="int", ctx=ast.Load()),
                             value=_tup(uses, ast.Load), simple=1)
    if kind == "aug":
        return ast.AugAssign(target=ast.Name(id=targets[0], ctx=ast.Store()), op=ast.Add(),
                             value=_tup(uses, ast.Load))
    if kind == "expr":
        return ast.Expr(value=_tup(uses, ast.Load))
    if kind == "setitem":
        return ast.Assign(
            targets=[ast.Subscript(value=ast.Name(id=targets[0], ctx=ast.Load()),
                                   slice=_tup(uses[:1], ast.Load), ctx=ast.Store())],
            value=_tup(uses[1:], ast.Load))
    raise ValueError(kind)


def build_cfg(m):
    """real /repo CFG for a model"""
    from guppylang_internals.cfg.cfg import CFG

    cfg = CFG()  # creates entry (idx 0) and exit (idx 1)
    while len(cfg.bbs) < m["n"]:
        cfg.new_bb()
    for bb, blk in zip(cfg.bbs, m["blocks"]):
        bb.statements = [stmt_ast(*s) for s in blk["stmts"]]
        if blk.get("pred"):
            bb.branch_pred = _tup(blk["pred"], ast.Load)
    for s, t in m["edges"]:
        cfg.link(cfg.bbs[s], cfg.bbs[t])
    for s, t in m["dummy"]:
        cfg.dummy_link(cfg.bbs[s], cfg.bbs[t])
    cfg.update_reachable()
    return cfg


# ---- (b) CFGBuilder programs --------------------------------------------------------------
def build_from_source(src):
    from guppylang_internals.ast_util import annotate_location
    from guppylang_internals.cfg.builder import CFGBuilder

    tree = ast.parse(src)
    annotate_location(tree, src, "<c09>", 0)
    return CFGBuilder().build(tree.body[0].body, True, None)


def _names(node):
    return {n.id for n in ast.walk(node) if isinstance(n, ast.Name)} if node is not None else set()


def _target(t, reads, writes):
    if isinstance(t, ast.Name):
        writes.add(t.id)
    elif isinstance(t, (ast.Tuple, ast.List)):
        for e in t.elts:
            _target(e, reads, writes)
    elif isinstance(t, ast.Starred):
        _target(t.value, reads, writes)
    else:  # subscript / attribute store: reads everything, writes no variable
        reads |= _names(t)


def ast_block_sets(stmts, pred):
    """own reading of a built block's statements (Python semantics: a statement reads its value
    -- and, for `+=`, its target -- before it binds its target names)"""
    used, assigned = set(), set()
    for s in stmts:
        reads, writes = set(), set()
        if isinstance(s, ast.Assign):
            reads |= _names(s.value)
            for t in s.targets:
                _target(t, reads, writes)
        elif isinstance(s, ast.AugAssign):
            reads |= _names(s.value) | _names(s.target)
            _target(s.target, reads, writes)
        elif isinstance(s, ast.AnnAssign):
            reads |= _names(s.value)
            _target(s.target, reads, writes)
        elif isinstance(s, (ast.Expr, ast.Return)):
            reads |= _names(s.value)
        else:
            raise harness.HarnessError(f"generator produced a statement the oracle cannot read: {type(s).__name__}")
        used |= reads - assigned
        assigned |= writes
    if pred is not None:
        used |= _names(pred) - assigned
    return used, assigned


def graph_from_cfg(cfg, def_before, maybe_before, inout):
    """graph of a built CFG; returns (G, problem)"""
    bbs = cfg.bbs
    if [bb.idx for bb in bbs] != list(range(len(bbs))) or cfg.entry_bb is not bbs[ENTRY] or cfg.exit_bb is not bbs[EXIT]:
        return None, "block numbering: idx != position or entry/exit not blocks 0/1"
    succ = [[s.idx for s in bb.successors] for bb in bbs]
    dsucc = [[s.idx for s in bb.dummy_successors] for bb in bbs]
    pred = sorted((s.idx, bb.idx) for bb in bbs for s in bb.predecessors)
    dpred = sorted((s.idx, bb.idx) for bb in bbs for s in bb.dummy_predecessors)
    if pred != sorted((s, t) for s in range(len(bbs)) for t in succ[s]) or \
            dpred != sorted((s, t) for s in range(len(bbs)) for t in dsucc[s]):
        return None, "predecessor lists are not the mirror image of the successor lists"
    sets = [ast_block_sets(bb.statements, bb.branch_pred) for bb in bbs]
    return G(len(bbs), succ, dsucc, [s[0] for s in sets], [s[1] for s in sets],
             def_before, maybe_before, inout), None


def model_from_graph(g):
    """a synthetic model with the same graph and the same per-block sets (used to minimise
    failures found on built CFGs)"""
    blocks = []
    for b in range(g.n):
        st = []
        if g.used[b]:
            st.append(["expr", [], sorted(g.used[b])])
        if g.assigned[b]:
            st.append(["assign", sorted(g.assigned[b]), []])
        blocks.append({"stmts": st, "pred": None})
    return {"n": g.n, "blocks": blocks,
            "edges": [[s, t] for s in range(g.n) for t in g.succ[s]],
            "dummy": [[s, t] for s in range(g.n) for t in g.dsucc[s]],
            "def_before": sorted(g.def_before), "maybe_before": sorted(g.maybe_before),
            "inout": sorted(g.inout)}


# ======================================================================== oracle (graph search)
def _search(starts, nxt, through):
    """nodes reachable from `starts` (inclusive) where a walk may only continue *out of* a node
    v if through(v)"""
    seen = set(starts)
    stack = list(starts)
    while stack:
        v = stack.pop()
        if not through(v):
            continue
        for w in nxt[v]:
            if w not in seen:
                seen.add(w)
                stack.append(w)
    return seen


def _closure(starts, nxt, member):
    """nodes of `member` reachable from starts moving only inside member (starts included as given)"""
    seen = set(starts)
    stack = list(starts)
    while stack:
        v = stack.pop()
        for w in nxt[v]:
            if w not in seen and member(w):
                seen.add(w)
                stack.append(w)
    return seen


def o_live(g, use_dummy, seed_inout):
    """x live before b  iff  some walk b = b0 -> ... -> bk reads x in bk (upward exposed) and no
    bi, i < k, assigns x.  Seed (cfg.py: "borrowed variables are always live ... even if the exit
    is actually unreachable"): for an inout x the exit block counts as a read, and so does never
    being reassigned at all, i.e. an infinite walk from b on which no block assigns x."""
    n = g.n
    nxt = [g.succ[b] + (g.dsucc[b] if use_dummy else []) for b in range(n)]
    rev = [[] for _ in range(n)]
    for s in range(n):
        for t in nxt[s]:
            rev[t].append(s)
    live = [set() for _ in range(n)]
    for x in g.vars:
        uses = {b for b in range(n) if x in g.used[b]}
        seeded = seed_inout and x in g.inout
        if seeded:
            uses.add(EXIT)
        transp = {b for b in range(n) if x not in g.assigned[b]}
        # backward search from the reading blocks through blocks that do not assign x
        res = _closure(uses, rev, lambda p: p in transp)
        if seeded:
            # blocks of `transp` lying on a cycle inside transp ...
            on_cycle = {v for v in transp
                        if v in _closure([w for w in nxt[v] if w in transp], nxt, lambda w: w in transp)}
            # ... and blocks reaching them inside transp
            res |= _closure(on_cycle, rev, lambda p: p in transp)
        for b in res:
            live[b].add(x)
    return tuple(frozenset(s) for s in live)


def o_assign(g, maybe_seed):
    """Forward facts over real + dummy edges (CFG.analyze asks for unreachable code as well).
    roots = blocks without predecessors (entry; and, as analysis.py documents for the empty join,
    any other predecessor-less block), each starting from the before-entry set.
    definitely assigned before b: no walk root -> b avoids all assignments of x (vacuously true
    for every variable of the function when no root reaches b, e.g. predecessor-less cycles);
    maybe assigned before b: some walk ending in b passes an assignment of x, or x is assigned
    before the entry."""
    n = g.n
    nxt = [g.succ[b] + g.dsucc[b] for b in range(n)]
    haspred = set(t for s in range(n) for t in nxt[s])
    roots = [b for b in range(n) if b not in haspred]
    universe = set().union(*g.assigned) | g.def_before
    dfn = [set() for _ in range(n)]
    mayb = [set() for _ in range(n)]
    for x in g.vars:
        if x in g.def_before:
            for b in range(n):
                dfn[b].add(x)
        elif x in universe:
            unassigned_arrival = _search(roots, nxt, lambda v: x not in g.assigned[v])
            for b in range(n):
                if b not in unassigned_arrival:
                    dfn[b].add(x)
        if x in maybe_seed:
            for b in range(n):
                mayb[b].add(x)
        else:
            after_assign = [w for v in range(n) if x in g.assigned[v] for w in nxt[v]]
            for b in _search(after_assign, nxt, lambda v: True):
                mayb[b].add(x)
    return tuple(frozenset(s) for s in dfn), tuple(frozenset(s) for s in mayb)


def oracle(g):
    dfn, mayb = o_assign(g, g.maybe_before)
    return {"live": o_live(g, True, True), "def": dfn, "maybe": mayb,
            "live_nd": o_live(g, False, False)}


def evidence_ok(g, b, x, u, cache):
    """the block stored as evidence for `x live before b` must read x upward-exposed and be
    reachable from b without passing an assignment of x (exit for the inout seed)"""
    if x in g.inout and u == EXIT:
        return True
    if x not in g.used[u]:
        return False
    key = (b, x)
    if key not in cache:
        nxt = [g.succ[v] + g.dsucc[v] for v in range(g.n)]
        cache[key] = _search([b], nxt, lambda v: x not in g.assigned[v])
    return u in cache[key]


# ---- structure labels ----------------------------------------------------------------------
def structure(g):
    n = g.n
    nxt = [g.succ[b] + g.dsucc[b] for b in range(n)]
    reach = [_search(nxt[b], nxt, lambda v: True) for b in range(n)]  # >= 1 step
    cyc_nodes = {b for b in range(n) if b in reach[b]}
    real_reach = _search([ENTRY], g.succ, lambda v: True)
    haspred = set(t for s in range(n) for t in nxt[s])
    roots = [b for b in range(n) if b not in haspred]
    from_roots = _search(roots, nxt, lambda v: True)
    labels = set()
    if cyc_nodes:
        labels.add("cycle")
    if any(b in nxt[b] for b in range(n)):
        labels.add("selfloop")
    if any(g.dsucc):
        labels.add("dummy_edge")
    if len(real_reach) < n:
        labels.add("unreachable_block")
    if len(roots) > 1:
        labels.add("extra_root")
    if any(b not in from_roots for b in range(n)):
        labels.add("predless_cycle")
    # loop (SCC) entered at more than one of its blocks = irreducible shape
    done = set()
    for b in cyc_nodes:
        if b in done:
            continue
        scc = {c for c in reach[b] if b in reach[c]} | {b}
        done |= scc
        entries = {t for s in range(n) if s not in scc for t in nxt[s] if t in scc}
        if len(entries) > 1:
            labels.add("irreducible")
    if g.inout:
        labels.add("inout")
    if g.maybe_before - g.def_before:
        labels.add("maybe>def")
    nontrivial = "cycle" in labels and ("unreachable_block" in labels or "dummy_edge" in labels)
    return labels, nontrivial


# ======================================================================== implementation runs
def run_impl(cfg, g, sched):
    """one CFG.analyze (+ the default LivenessAnalysis of bb.py) under a schedule.
    returns ("ok", {comp: tuple of frozensets}, evidence) | ("crash"|"nonterm", text)"""
    from guppylang_internals.cfg.analysis import LivenessAnalysis

    n = g.n
    STATE["sched"] = compile_sched(sched, n)
    STATE["pops"] = 0
    # a terminating monotone worklist run changes each block's value <= 2*|vars| times and re-queues
    # <= n blocks per change; three analyses run per call.  Anything beyond is a livelock.
    STATE["limit"] = 200 + 12 * n * n * (len(g.vars) + 1)
    try:
        cfg.analyze(set(g.def_before), set(g.maybe_before), sorted(g.inout))
        bbs = cfg.bbs
        vals = {
            "live": tuple(frozenset(cfg.live_before[bb]) for bb in bbs),
            "def": tuple(frozenset(cfg.ass_before[bb]) for bb in bbs),
            "maybe": tuple(frozenset(cfg.maybe_ass_before[bb]) for bb in bbs),
        }
        evidence = [(bb.idx, x, u.idx) for bb in bbs for x, u in cfg.live_before[bb].items()]
        stats = {bb: bb.compute_variable_stats() for bb in bbs}
        nd = LivenessAnalysis(stats).run(bbs)
        vals["live_nd"] = tuple(frozenset(nd[bb]) for bb in bbs)
        return "ok", vals, evidence
    except ScheduleOverrun:
        return "nonterm", f"more than {STATE['limit']} worklist pops"
    except Exception as e:  # noqa: BLE001
        tb = traceback.extract_tb(e.__traceback__)
        fr = next((f for f in reversed(tb) if "guppylang" in f.filename), tb[-1])
        return "crash", f"{type(e).__name__}@{os.path.basename(fr.filename)}:{fr.name}: {e}"
    finally:
        STATE["sched"] = None


def all_schedules(n, extra, drawn, perm_cap):
    """explicit schedules first, then exhaustive priority orders for small CFGs, then drawn ones"""
    out = [s for s in extra]
    if n <= 6 and math.factorial(n) <= perm_cap:
        out += [["perm", list(p)] for p in itertools.permutations(range(n))]
    out += drawn
    return out


def draw_schedules(rnd, n, small):
    """pop sequences / priority orders from a Hypothesis-provided Random"""
    nseq, nperm = (8, 0) if small else (32, 10)
    out = []
    for _ in range(nseq):
        out.append(["seq", [rnd.randrange(max(n, 2)) for _ in range(rnd.randint(2, 3 * n))]])
    if not small:
        out.append(["perm", list(range(n))])
        out.append(["perm", list(range(n - 1, -1, -1))])
        for _ in range(nperm):
            p = list(range(n))
            rnd.shuffle(p)
            out.append(["perm", p])
    return out


# ---- diagnosis: root-cause signature of a mismatch (bucket naming only, never the verdict) ----
def _local_inconsistent(g, comp, val, x):
    """blocks whose value for x is not what their neighbours' values imply, each with a flag:
    could the value be explained by out-of-date contributions of *dummy* neighbours alone?"""
    n = g.n
    bad = []
    if comp in ("live", "live_nd"):
        dummy = comp == "live"
        for b in range(n):
            used = x in g.used[b] or (dummy and b == EXIT and x in g.inout)
            keep = x not in g.assigned[b]
            real = any(x in val[s] for s in g.succ[b])
            dum = [x in val[s] for s in g.dsucc[b]] if dummy else []
            got = x in val[b]
            if (used or (keep and (real or any(dum)))) != got:
                lo, hi = used or (keep and real), used or (keep and (real or bool(dum)))
                bad.append((b, bool(dum) and got in (lo, hi)))
    else:
        rp = [[] for _ in range(n)]
        dp = [[] for _ in range(n)]
        for s in range(n):
            for t in g.succ[s]:
                rp[t].append(s)
            for t in g.dsucc[s]:
                dp[t].append(s)
        for b in range(n):
            got = x in val[b]
            after = lambda p: x in val[p] or x in g.assigned[p]  # noqa: E731
            if not rp[b] and not dp[b]:
                if (x in g.def_before) != got:
                    bad.append((b, False))
            elif comp == "def":
                if all(after(p) for p in rp[b] + dp[b]) != got:
                    lo, hi = (not dp[b]) and all(after(p) for p in rp[b]), all(after(p) for p in rp[b])
                    bad.append((b, bool(dp[b]) and got in (lo, hi)))
            else:
                if any(after(p) for p in rp[b] + dp[b]) != got:
                    lo, hi = any(after(p) for p in rp[b]), bool(dp[b]) or any(after(p) for p in rp[b])
                    bad.append((b, bool(dp[b]) and got in (lo, hi)))
    return bad


def diagnose(g, comp, val, want):
    """root-cause signature:  <comp>.dummy_stale  the result is not even a solution of the local
    equations, and only at blocks where out-of-date dummy-neighbour contributions explain it (not
    used while the C09.dummy_requeue exclusion repairs the schedules);  <comp>.stale  not a solution
    elsewhere;  <comp>.wrong_fixpoint  a solution of the local equations but not the path-based one"""
    diffs = [(b, x) for b in range(g.n) for x in sorted(val[b] ^ want[b])]
    xs = sorted({x for _, x in diffs})
    if comp == "maybe" and all(x in g.maybe_before and x not in g.def_before for x in xs):
        return "maybe.before_entry_maybe_only", diffs
    bad = [r for x in xs for r in _local_inconsistent(g, comp, val, x)]
    if not bad:
        cause = "wrong_fixpoint"
    elif all(expl for _, expl in bad) and not STATE["extra_dummy"]:
        cause = "dummy_stale"
    else:
        cause = "stale"
    return f"{comp}.{cause}", diffs


def render(g):
    rows = []
    for b in range(g.n):
        tag = "entry" if b == ENTRY else "exit" if b == EXIT else ""
        rows.append(f"  b{b}{'(' + tag + ')' if tag else ''}: reads={sorted(g.used[b])} assigns={sorted(g.assigned[b])}"
                    f" -> {g.succ[b]} dummy-> {g.dsucc[b]}")
    return "\n".join(rows) + (f"\n  def_before={sorted(g.def_before)} maybe_before={sorted(g.maybe_before)}"
                              f" inout={sorted(g.inout)}")


def fmt(val):
    return "{" + ", ".join(f"b{b}:{''.join(sorted(s)) or '-'}" for b, s in enumerate(val)) + "}"


def evaluate(cfg, g, schedules):
    """returns (findings, info); a finding = (bucket, detail, [schedules needed to show it])"""
    want = oracle(g)
    seen = {c: {} for c in COMPS}
    findings = []
    problems = {}
    ev_cache = {}
    pops_total = 0
    n_bad = 0
    for sched in schedules:
        r = run_impl(cfg, g, sched)
        pops_total += STATE["pops"]
        if r[0] != "ok":
            key = "nontermination" if r[0] == "nonterm" else "crash." + r[1].split(":")[0] + ":" + r[1].split(":")[1]
            problems.setdefault(key, (r[1], sched))
            n_bad += 1
            if n_bad >= 3:  # no point in burning the budget on hundreds of livelocked schedules
                break
            continue
        _, vals, evidence = r
        for c in COMPS:
            seen[c].setdefault(vals[c], sched)
        if "live.evidence" not in problems:
            for b, x, u in evidence:
                if x in want["live"][b] and not evidence_ok(g, b, x, u, ev_cache):
                    problems["live.evidence"] = (
                        f"evidence for `{x}` live before b{b} is b{u}, which does not read `{x}` "
                        f"on an assignment-free walk from b{b}", sched)
                    break
    for key, (text, sched) in problems.items():
        findings.append((key, f"{text}\nschedule {json.dumps(sched)}\n{render(g)}", [sched]))
    for c in COMPS:
        good = next((s for v, s in seen[c].items() if v == want[c]), None)
        flagged = False
        for v, sched in seen[c].items():
            if v == want[c]:
                continue
            flagged = True
            bucket, diffs = diagnose(g, c, v, want[c])
            b, x = diffs[0]
            txt = (f"{c}: `{x}` before b{b}: implementation says {x in v[b]}, path definition says {x in want[c][b]}"
                   f" ({len(diffs)} (block,var) differences)\n under schedule {json.dumps(sched)}\n"
                   f" implementation {fmt(v)}\n path-based     {fmt(want[c])}\n")
            if len(seen[c]) > 1:
                txt += f" ORDER-DEPENDENT: {len(seen[c])} different results over {len(schedules)} schedules"
                if good is not None:
                    txt += f"; e.g. schedule {json.dumps(good)} gives the path-based result"
                txt += "\n"
            findings.append((bucket, txt + render(g), [sched] + ([good] if good is not None else [])))
        if len(seen[c]) > 1 and not flagged:  # cannot happen (two different values, one oracle)
            (v1, s1), (v2, s2) = list(seen[c].items())[:2]
            findings.append((f"order.{c}", f"{fmt(v1)} under {s1} vs {fmt(v2)} under {s2}\n{render(g)}", [s1, s2]))
    info = {"schedules": len(schedules), "pops": pops_total,
            "order_dependent": [c for c in COMPS if len(seen[c]) > 1]}
    return findings, info


# ======================================================================== cases / replay
def materialise(case):
    """case -> (cfg, g, problem)"""
    if case["kind"] == "model":
        m = case["model"]
        return build_cfg(m), graph_from_model(m), None
    cfg = build_from_source(case["src"])
    g, prob = graph_from_cfg(cfg, case["def_before"], case["maybe_before"], case["inout"])
    return cfg, g, prob


def check_stats(cfg, g):
    """compute_variable_stats (input of the analyses) against the statement-level reading"""
    for bb in cfg.bbs:
        st = bb.compute_variable_stats()
        if set(st.used) != g.used[bb.idx] or set(st.assigned) != g.assigned[bb.idx]:
            return ("stats.used_assigned",
                    f"b{bb.idx} {[ast.unparse(s) for s in bb.statements]} pred="
                    f"{ast.unparse(bb.branch_pred) if bb.branch_pred is not None else None}: compute_variable_stats "
                    f"used={sorted(st.used)} assigned={sorted(st.assigned)}; statement semantics "
                    f"used={sorted(g.used[bb.idx])} assigned={sorted(g.assigned[bb.idx])}", [])
    return None


def run_case(case, draw_fn=None, perm_cap=720, exclusions=()):
    """all findings of one case.  returns (findings, info, g).  draw_fn(n, small) -> extra schedules"""
    install_injection()
    cfg, g, prob = materialise(case)
    if prob:
        return [("builder.edge_mirror", prob + "\n" + case.get("src", ""), [])], {"schedules": 0, "pops": 0, "order_dependent": []}, None
    f0 = check_stats(cfg, g)
    small = g.n <= 6 and math.factorial(g.n) <= perm_cap
    drawn = draw_fn(g.n, small) if draw_fn is not None else []
    scheds = all_schedules(g.n, case.get("schedules", []), drawn, perm_cap)
    if STATE.get("unused"):
        scheds = [None]
    # (the repair needs the injected worklist; without it the excluded class cannot be left out and
    # its mismatches keep their own bucket name)
    STATE["extra_dummy"] = "C09.dummy_requeue" in exclusions and not STATE.get("unused")
    try:
        findings, info = evaluate(cfg, g, scheds)
    finally:
        STATE["extra_dummy"] = False
    if f0:
        findings.insert(0, f0)
    return findings, info, g


def replay(case):
    # a case recorded while an exclusion repaired the schedules is replayed the same way (so that
    # it shows its own bucket, not the excluded known finding); probes carry no "exclusions"
    findings, _, _ = run_case(case, exclusions=case.get("exclusions", ()))
    if not findings:
        return None
    want = case.get("bucket")
    for b, d, _ in findings:
        if want is None or b == want:
            return b, d
    return findings[0][0], findings[0][1]


# ---- minimisation of a failing model (greedy, same bucket) ---------------------------------
def _drop_block(m, b):
    ren = lambda v: v - 1 if v > b else v  # noqa: E731
    return dict(m, n=m["n"] - 1, blocks=[x for i, x in enumerate(m["blocks"]) if i != b],
                edges=[[ren(s), ren(t)] for s, t in m["edges"] if b not in (s, t)],
                dummy=[[ren(s), ren(t)] for s, t in m["dummy"] if b not in (s, t)])


def _variants(m):
    for b in range(m["n"] - 1, 1, -1):
        yield _drop_block(m, b)
    for key in ("edges", "dummy"):
        for i in range(len(m[key])):
            yield dict(m, **{key: m[key][:i] + m[key][i + 1:]})
    for bi, blk in enumerate(m["blocks"]):
        def with_blk(nb):
            return dict(m, blocks=m["blocks"][:bi] + [nb] + m["blocks"][bi + 1:])
        for si in range(len(blk["stmts"])):
            yield with_blk(dict(blk, stmts=blk["stmts"][:si] + blk["stmts"][si + 1:]))
            kind, tg, us = blk["stmts"][si]
            for j in range(len(us)):
                if kind == "setitem" and len(us) <= 1:
                    continue
                yield with_blk(dict(blk, stmts=blk["stmts"][:si] + [[kind, tg, us[:j] + us[j + 1:]]] + blk["stmts"][si + 1:]))
            if len(tg) > 1:
                for j in range(len(tg)):
                    yield with_blk(dict(blk, stmts=blk["stmts"][:si] + [[kind, tg[:j] + tg[j + 1:], us]] + blk["stmts"][si + 1:]))
        if blk.get("pred"):
            yield with_blk(dict(blk, pred=None))
    for x in list(m["inout"]):
        yield dict(m, inout=[y for y in m["inout"] if y != x])
    for x in list(m["maybe_before"]):
        if x not in m["def_before"]:
            yield dict(m, maybe_before=[y for y in m["maybe_before"] if y != x])
    for x in list(m["def_before"]):
        if x not in m["inout"]:
            yield dict(m, def_before=[y for y in m["def_before"] if y != x],
                       maybe_before=[y for y in m["maybe_before"] if y != x])


def minimise(case, bucket, budget_s):
    """smallest model (greedy) still showing `bucket`; src cases are first turned into the
    synthetic model of their graph.  returns (case, detail) or None"""
    t_end = time.monotonic() + budget_s
    excl = case.get("exclusions", ())

    def shows(c):
        fs, _, _ = run_case(c, exclusions=excl)
        for b, d, scheds in fs:
            if b == bucket:
                return d, scheds
        return None

    if case["kind"] == "src":
        _, g, prob = materialise(case)
        if prob:
            return None
        cand = {"kind": "model", "model": model_from_graph(g), "schedules": case.get("schedules", [])}
        if not shows(cand):
            return None
        case = cand
    cur = dict(case)
    r = shows(cur)
    if not r:
        return None
    detail = r[0]
    progress = True
    while progress and time.monotonic() < t_end:
        progress = False
        for m2 in _variants(cur["model"]):
            if time.monotonic() > t_end:
                break
            n2 = m2["n"]
            scheds = cur.get("schedules", []) if n2 > 6 else []
            c2 = {"kind": "model", "model": m2, "schedules": scheds}
            r = shows(c2)
            if r:
                c2["schedules"] = [s for s in r[1] if s] if n2 > 6 else [s for s in r[1] if s][:2]
                cur, detail, progress = c2, r[0], True
                break
    cur["bucket"] = bucket
    if excl:
        cur["exclusions"] = list(excl)
    return cur, detail


# ======================================================================== generators
def strategies(force_maybe_eq_def):
    from hypothesis import strategies as st

    def subset(draw, items, k=2):
        """each item with probability 1/k"""
        return [v for v in items if draw(st.integers(0, k - 1)) == 0]

    @st.composite
    def before_sets(draw, vs, args=None):
        dfn = subset(draw, vs) if args is None else list(args)
        rest = [v for v in vs if v not in dfn]
        extra = [] if force_maybe_eq_def or not rest or draw(st.integers(0, 2)) else subset(draw, rest)
        inout = subset(draw, dfn, 3)
        return dfn, sorted(dfn + extra), inout

    @st.composite
    def model_case(draw):
        n = draw(st.sampled_from([2, 3, 3, 4, 4, 4, 5, 5, 5, 5, 6, 6, 6, 7, 8]))
        vs = list(VARS[:draw(st.sampled_from([1, 2, 2, 3, 3, 4]))])
        var = st.sampled_from(vs)

        def stmt():
            kind = draw(st.sampled_from(["assign", "assign", "assign", "aug", "expr", "expr", "setitem", "ann"]))
            uses = draw(st.lists(var, max_size=2, unique=True))
            if kind == "expr":
                return [kind, [], uses or [draw(var)]]
            if kind == "assign":
                return [kind, draw(st.lists(var, min_size=1, max_size=2, unique=True)), uses]
            if kind == "setitem":
                return [kind, [draw(var)], uses or [draw(var)]]
            return [kind, [draw(var)], uses]

        blocks, edges, dummy = [], [], []
        for b in range(n):
            k = draw(st.sampled_from([0, 1, 1, 1, 2] if b != EXIT else [0, 0, 1]))
            stmts = [stmt() for _ in range(k)]
            succs = []
            if b != EXIT:  # the exit has no successors; the entry is never a jump target
                ns = draw(st.sampled_from([0, 1, 1, 1, 2, 2, 2, 3]))
                succs = [draw(st.integers(1, n - 1)) for _ in range(ns)]
                edges += [[b, t] for t in succs]
                if draw(st.integers(0, 3)) == 0:
                    dummy += [[b, draw(st.integers(1, n - 1))] for _ in range(draw(st.sampled_from([1, 1, 2])))]
            pred = None
            if len(succs) >= 2 and draw(st.booleans()):
                pred = draw(st.lists(var, min_size=1, max_size=2, unique=True))
            blocks.append({"stmts": stmts, "pred": pred})
        if n >= 4 and draw(st.integers(0, 3)) == 0:
            # a loop entered at two different blocks (irreducible shape)
            u, v = draw(st.permutations(list(range(2, n))))[:2]
            src_b = draw(st.sampled_from([b for b in range(n) if b not in (EXIT, u, v)]))
            edges += [[src_b, u], [src_b, v], [u, v], [v, u]]
        dfn, mayb, inout = draw(before_sets(vs))
        m = {"n": n, "blocks": blocks, "edges": edges, "dummy": dummy,
             "def_before": dfn, "maybe_before": mayb, "inout": inout}
        return {"kind": "model", "model": m}, draw(st.randoms(use_true_random=True))

    # ---- (b) source programs for CFGBuilder
    @st.composite
    def src_case(draw):
        vs = list(VARS[:draw(st.sampled_from([2, 3, 3, 4]))])
        var = st.sampled_from(vs)
        budget = [draw(st.integers(3, 10))]

        def expr(d=0):
            k = draw(st.integers(0, 9 if d < 2 else 4))
            if k <= 3:
                return draw(var)
            if k == 4:
                return str(draw(st.integers(0, 3)))
            if k == 5:
                return f"{expr(d + 1)} + {expr(d + 1)}"
            if k == 6:
                return f"({expr(d + 1)}, {expr(d + 1)})"
            if k == 7:
                return f"{draw(var)}[{expr(d + 1)}]"
            if k == 8:
                return f"({expr(d + 1)} if {cond(d + 1)} else {expr(d + 1)})"
            return f"-{draw(var)}"

        def cond(d=0):
            k = draw(st.integers(0, 11 if d < 2 else 5))
            if k <= 1:
                return draw(var)
            if k == 2:
                return f"{draw(var)} < {expr(2)}"
            if k == 3:
                return "True"
            if k == 4:
                return "False"
            if k == 5:
                return f"not {draw(var)}"
            if k == 6:
                return f"({cond(d + 1)} and {cond(d + 1)})"
            if k == 7:
                return f"({cond(d + 1)} or {cond(d + 1)})"
            if k == 8:
                return f"({draw(var)} := {expr(2)})"
            if k == 9:
                return f"({cond(d + 1)} if {cond(d + 1)} else {cond(d + 1)})"
            if k == 10:
                return f"{draw(var)} < {draw(var)} < {expr(2)}"
            return f"not {cond(d + 1)}"

        def block(ind, depth, in_loop):
            lines = []
            k = draw(st.integers(1, 3))
            for _ in range(k):
                if budget[0] <= 0:
                    break
                budget[0] -= 1
                pad = "    " * ind
                choice = draw(st.integers(0, 15 if depth < 3 else 8))
                if choice <= 2:
                    lines.append(f"{pad}{draw(var)} = {expr()}")
                elif choice == 3:
                    lines.append(f"{pad}{draw(var)} += {expr()}")
                elif choice == 4:
                    lines.append(f"{pad}{draw(var)}, {draw(var)} = {expr()}")
                elif choice == 5:
                    lines.append(f"{pad}{expr()}")
                elif choice == 6:
                    lines.append(f"{pad}return {expr()}" if draw(st.booleans()) else f"{pad}return")
                elif choice == 7:
                    lines.append(f"{pad}{draw(st.sampled_from(['break', 'continue']))}" if in_loop
                                 else f"{pad}{draw(var)}[{expr(2)}] = {expr()}")
                elif choice == 8:
                    lines.append(f"{pad}pass")
                elif choice <= 11:
                    lines.append(f"{pad}if {cond()}:")
                    lines += block(ind + 1, depth + 1, in_loop)
                    e = draw(st.integers(0, 3))
                    if e == 0:
                        lines.append(f"{pad}elif {cond()}:")
                        lines += block(ind + 1, depth + 1, in_loop)
                    if e <= 1:
                        lines.append(f"{pad}else:")
                        lines += block(ind + 1, depth + 1, in_loop)
                elif choice <= 13:
                    lines.append(f"{pad}while {cond()}:")
                    lines += block(ind + 1, depth + 1, True)
                else:
                    lines.append(f"{pad}for {draw(var)} in {expr(2)}:")
                    lines += block(ind + 1, depth + 1, True)
            return lines or ["    " * ind + "pass"]

        args = subset(draw, vs)
        body = block(1, 0, False)
        src = f"def f({', '.join(args)}):\n" + "\n".join(body) + "\n"
        dfn, mayb, inout = draw(before_sets(vs, args))
        return ({"kind": "src", "src": src, "def_before": dfn, "maybe_before": mayb, "inout": inout},
                draw(st.randoms(use_true_random=True)))

    return model_case(), src_case()


# ======================================================================== worker
SELFTEST = {"n": 3, "blocks": [{"stmts": [], "pred": None}, {"stmts": [["expr", [], ["a"]]], "pred": None},
                               {"stmts": [["assign", ["a"], []]], "pred": None}],
            "edges": [[0, 2], [2, 1]], "dummy": [], "def_before": [], "maybe_before": [], "inout": []}


def injection_selftest():
    """does our `set` really decide the pop order?  returns (ok, note)"""
    cfg, g = build_cfg(SELFTEST), graph_from_model(SELFTEST)
    traces = []
    for perm in ([0, 1, 2], [2, 1, 0]):
        STATE["trace"] = []
        r = run_impl(cfg, g, ["perm", perm])
        traces.append((r[0], list(STATE["trace"])))
        STATE["trace"] = None
    (k1, t1), (k2, t2) = traces
    if not t1 and not t2:
        return False, "injected `set` is never popped by cfg/analysis.py (source changed?): interpreter order only"
    if t1[:1] == [0] and t2[:1] == [2] and t1 != t2:
        return True, f"injection verified: pops under priority 0<1<2 = {t1}, under 2<1<0 = {t2}"
    return False, f"injected `set` is popped but does not control the order ({t1} / {t2}): interpreter order only"


def worker(ctx):
    from hypothesis import strategies as st

    install_injection()
    ctx.notes["schedule_injection"] = STATE["note"]
    excl = active_exclusions()
    ctx.notes["active_exclusions"] = sorted(excl)
    perm_cap = ctx.params.get("perm_cap", 720)
    model_s, src_s = strategies("C09.maybe_before_entry" in excl)
    recorded = {}  # bucket -> (case, size) candidates for minimisation

    def body(arg):
        case, rnd = arg
        try:
            findings, info, g = run_case(case, lambda n, small: draw_schedules(rnd, n, small), perm_cap, excl)
        except harness.HarnessError:
            raise
        except Exception as e:  # noqa: BLE001
            if case["kind"] == "src":
                ctx.harness_error(f"CFGBuilder failed on generated source ({e!r}):\n{case['src']}")
                return
            raise
        n = g.n if g is not None else 0
        small = n <= 6 and math.factorial(n) <= perm_cap
        if g is None:
            labels, nontrivial = {"broken_cfg"}, False
        else:
            labels, nontrivial = structure(g)
        if "C09.dummy_requeue" in excl and "dummy_edge" in labels:
            ctx.exclude(EXCLUDE["C09.dummy_requeue"])
        if "C09.maybe_before_entry" in excl:
            ctx.exclude(EXCLUDE["C09.maybe_before_entry"] + " (generator forces equality)")
        labs = ["src:" + ("synthetic" if case["kind"] == "model" else "builder"),
                "blocks:" + (str(n) if n <= 8 else "9+"),
                "sched:" + ("interpreter-order" if STATE.get("unused") else "all-perms+drawn" if small else "drawn")]
        labs += sorted(labels)
        if nontrivial:
            labs.append("NONTRIVIAL")
        if info["order_dependent"]:
            labs.append("order-dependent-result")
        key = case["model"] if case["kind"] == "model" else [case["src"], case["def_before"], case["maybe_before"], case["inout"]]
        sample = {"blocks": n, "schedules": info["schedules"], "labels": sorted(labels),
                  "cfg": render(g) if g is not None else None}
        if case["kind"] == "src":
            sample["src"] = case["src"]
        ctx.case(key, nontrivial, labels=labs, sample=sample)
        ctx.label("#schedules_run", info["schedules"])
        ctx.label("#worklist_pops", info["pops"])
        if info["schedules"] and not info["pops"] and not STATE.get("unused"):
            ctx.notes["schedule_injection_lost"] = "a case ran without any pop of the injected set"
        for bucket, detail, scheds in findings:
            vc = dict(case)
            vc["schedules"] = [s for s in scheds if s] if (n > 6 or STATE.get("unused")) else []
            vc["bucket"] = bucket
            if excl:
                vc["exclusions"] = sorted(excl)
            ctx.violation(bucket, vc, detail)
            size = len(json.dumps(vc))
            if bucket not in recorded or size < recorded[bucket][1]:
                recorded[bucket] = (vc, size)

    n_total = ctx.params["n"]
    n_model = int(n_total * 0.6)
    harness.hyp_search(ctx, model_s, body, max_examples=n_model, chunk=100, time_frac=0.5, extra_seed=1)
    harness.hyp_search(ctx, src_s, body, max_examples=n_total - n_model, chunk=100, time_frac=0.8, extra_seed=2)

    # minimise each bucket (capped)
    per = min(20.0, max(3.0, (ctx.budget_s * 0.95 - ctx.elapsed()) / max(1, len(recorded))))
    for bucket, (vc, _) in recorded.items():
        try:
            r = minimise(vc, bucket, per)
        except Exception as e:  # noqa: BLE001
            ctx.notes["minimise_error"] = repr(e)
            continue
        if r:
            c2, detail = r
            v = ctx.violations[bucket]
            if len(json.dumps(c2)) < len(json.dumps(v["case"])):
                v["case"], v["detail"] = c2, str(detail)[:4000]


SPEC = harness.Spec(
    PROP, worker, replay,
    rule=("60% synthetic CFGs built with CFG/BB (2-8 blocks, <=4 variables, 0-2 real ast statements per block, "
          "arbitrary real and dummy edges, entry never a target, exit without successors), 40% CFGs built by CFGBuilder "
          "from generated function bodies (nested if/while/for/break/continue/return, constant and short-circuit "
          "conditions, dead code). Every CFG is analysed by CFG.analyze (+ LivenessAnalysis without dummy edges) under "
          "all block permutations as worklist priority (<=6 blocks) plus drawn pop sequences, else >=44 drawn schedules, "
          "through a `set` subclass injected into cfg/analysis.py; each distinct result is compared with path "
          "definitions evaluated by graph search. non-trivial = CFG with a cycle and (a block unreachable from the "
          "entry or a dummy edge); distinct = distinct model / (source, before-entry sets)"),
    assumptions=[
        "the entry block has no predecessors and the exit block no successors (CFGBuilder never produces either)",
        "inout seed read from cfg.py's comment: an inout variable counts as read at the exit and on any infinite walk that never reassigns it ('live even if the exit is unreachable')",
        "blocks without (real or dummy) predecessors are roots starting from the definitely-assigned-before-entry set (analysis.py: empty join); blocks no root reaches are vacuously definitely-assigned for every variable assigned anywhere or before entry",
        "maybe-assigned counts assignments on any walk ending in the block (also walks starting on predecessor-less cycles), plus every variable in maybe_ass_before",
        "per-block used/assigned sets are derived from the statements by Python's evaluation rules, independently of compute_variable_stats, and compared with it",
        "priority orders and cyclic pop-index sequences are a subset of all worklist interleavings",
    ],
    shards={"quick": 16, "thorough": 16},
    budget_s={"quick": 90, "thorough": 600},
    params={"quick": {"n": 260, "perm_cap": 720}, "thorough": {"n": 4000, "perm_cap": 720}},
    min_nontrivial=150,
)

if __name__ == "__main__":
    harness.main(SPEC)
